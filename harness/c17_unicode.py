"""C17, presentations and histories of the message digest:
  * messages over the full Unicode range that are NOT in NFC / NFD / NFKC / NFKD form, case pairs, invisible characters:
    the digest is double-SHA256 over the EXACT UTF-8 bytes (reference recomputed here with hashlib), and a signature for
    a message must not verify for any of its normalisation / case / whitespace twins;
  * the hash given as msg_hash in exotic but legal presentations (negative, huge, bool, int subclass);
  * history independence of hash_for_signing: the same call after calls on other networks, in both orders.
Everything random comes from the rng argument."""
from common import *
import unicodedata, hashlib

FORMS = ("NFC", "NFD", "NFKC", "NFKD")

FIXED = [
    "caf\u00e9", "cafe\u0301", "pay caf\u00e9 100", "pay cafe\u0301 100", "\uff11\uff10", "10", "\ufb01", "fi", "\u212b", "\u00c5", "A\u030a",
    "\u2126", "\u03a9", "\u1e9b\u0323", "\u017f", "s", "\u00df", "ss", "SS", "\u1e9e", "\u0130", "i\u0307", "I", "\u0131", "\u212a", "K", "k",
    "\ud55c", "\u1112\u1161\u11ab", "\u0958", "\u0915\u093c", "a\u0323\u0307", "a\u0307\u0323", "\u1e69", "s\u0323\u0307",
    "\u2000x", "\u00a0x", " x", "x\u200b", "x", "x\u00ad", "\ufeffx", "x\u200d", "\u202ex", "e\u0301\u0301", "\u00e9\u0301",
    "\u3042\u3099", "\u304c", "\u304b\u3099", "\uff21", "A", "a", "\u2460", "1", "\u00bd", "1\u20442", "\u2122", "TM", "\u00b5", "\u03bc",
    "\u2160", "\U0001f600", "\U0001f468\u200d\U0001f469", "\u2764\ufe0f", "\u2764", "\U0001d400", "\U0002f800", "\u4e3d", "\x00", "",
    "\x00a", "\ufb03ce", "ffice", "\u01c4", "D\u017d", "\u01c5", "\u03c2", "\u03c3", "\u03a3", "\u0390", "\u03b9\u0308\u0301",
    "\ufdfa", "\u3392", "MHz", "line\u2028sep", "tab\there", "\u0340", "\u0300", "\u0343", "\u0313",
]


def _rand_cp(rng):
    r = rng.random()
    if r < 0.25:
        return rng.randrange(0x20, 0x7f)
    if r < 0.5:
        return rng.randrange(0xa0, 0x3000)
    if r < 0.6:
        return rng.choice([0x300, 0x301, 0x323, 0x307, 0x308, 0x3099, 0x200b, 0x200d, 0xfe0f, 0xad])
    if r < 0.75:
        return rng.choice([rng.randrange(0xf900, 0xfb07), rng.randrange(0xff00, 0xffef), rng.randrange(0x2100, 0x2190), rng.randrange(0x1100, 0x11ff),
                           rng.randrange(0xac00, 0xd7a4), rng.randrange(0x1e00, 0x2000), rng.randrange(0x3300, 0x3400)])
    while True:
        c = rng.randrange(0, 0x110000)
        if not 0xd800 <= c < 0xe000:
            return c


def messages(rng, count):
    """legal str messages, most of them changed by at least one normalisation form or case mapping"""
    out = list(FIXED)
    tries = 0
    while len(out) < len(FIXED) + count and tries < count * 50:
        tries += 1
        m = "".join(chr(_rand_cp(rng)) for _ in range(rng.randint(1, 8)))
        if tries % 4 == 0 or twins(m):
            out.append(m)
    return out


def twins(m):
    """strings different from m that a normalising / case-folding / trimming implementation would confuse with it"""
    cands = [unicodedata.normalize(f, m) for f in FORMS]
    cands += [m.casefold(), m.lower(), m.upper(), m.strip(), m.replace("\u200b", ""), m.replace("\u00ad", ""), m.replace("\ufe0f", ""),
              unicodedata.normalize("NFKC", m.casefold()), m.encode("ascii", "ignore").decode()]
    seen, out = {m}, []
    for t in cands:
        if t not in seen:
            seen.add(t)
            out.append(t)
    return out


def _varint(n):
    return bytes([n]) if n < 253 else (b"\xfd" + n.to_bytes(2, "little") if n <= 0xffff else b"\xfe" + n.to_bytes(4, "little"))


def reference_digest(nw, msg):
    """the standard definition, from the exact UTF-8 bytes, with hashlib only"""
    magic = (nw.network_name + " Signed Message:\n").encode("utf8")
    pre = b"\x18Bitcoin Signed Message:\n" if nw.network_name == "Bitcoin" else _varint(len(magic)) + magic
    m = msg.encode("utf8")
    return int.from_bytes(hashlib.sha256(hashlib.sha256(pre + _varint(len(m)) + m).digest()).digest(), "big")


def chk_digest(nw, msg):
    try:
        got = nw.msg.hash_for_signing(msg)
    except Exception as e:
        return {"kind": "digest-raises", "detail": "%s: %s" % (type(e).__name__, e)}
    want = reference_digest(nw, msg)
    if got != want:
        return {"kind": "digest-differs-from-definition", "got": hex(got), "want": hex(want),
                "forms_changing_msg": [f for f in FORMS if unicodedata.normalize(f, msg) != msg]}
    return None


def chk_twin(nw, d, comp, m, t):
    """m != t: different digests; the signature of each verifies for itself and neither for the other (key and address)"""
    if m == t:
        return None
    k = nw.keys.private(d, is_compressed=comp)
    try:
        hm, ht = nw.msg.hash_for_signing(m), nw.msg.hash_for_signing(t)
        if hm == ht:
            return {"kind": "twin-messages-share-digest", "digest": hex(hm)}
        if hm != reference_digest(nw, m) or ht != reference_digest(nw, t):
            return {"kind": "digest-differs-from-definition"}
        sm, st = nw.msg.sign(k, m), nw.msg.sign(k, t)
        if nw.msg.verify(k, sm, m) is not True or nw.msg.verify(k.address(), st, t) is not True:
            return {"kind": "signer-rejected"}
        if nw.msg.verify(k, sm, t) is not False or nw.msg.verify(k.address(), sm, t) is not False \
                or nw.msg.verify(k, st, m) is not False or nw.msg.verify(k.address(), st, m) is not False:
            return {"kind": "other-message-accepted", "sig": sm}
        # through the armour: what is parsed back is the message itself, not a twin
        text = nw.msg.sign(k, m, verbose=True)
        if "\r" not in m and "\n-----BEGIN " not in m:
            m2, a2, s2 = nw.msg.parse_signed(text)
            if m2 != m or s2 != sm:
                return {"kind": "armour-roundtrip", "got": m2[:100]}
    except Exception as e:
        return {"kind": "raises", "detail": "%s: %s" % (type(e).__name__, e)}
    return None


class MyInt(int):
    pass


def chk_hash_presentation(nw, d, comp, msg, which):
    """verify_message(msg_hash=z) for presentations of the hash: z itself, an int subclass, z + k*n (same residue: must verify,
    C17_other_hash_fails), negative and huge representatives, and different residues (must not); always a bool"""
    k = nw.keys.private(d, is_compressed=comp)
    n = nw.generator.order()
    sig = nw.msg.sign(k, msg)
    z = nw.msg.hash_for_signing(msg)
    pres = {"same": (z, True), "subclass": (MyInt(z), True), "minus_n": (z - n, True), "plus_n_huge": (z + n * (1 << 300), True),
            "neg_other": (-z if (2 * z) % n else -z - 1, False), "plus1": (z + 1, False), "huge_other": (z + (1 << 600) + ((1 << 600) % n == 0), False),
            "true": (True, False), "zero": (0, False), "none": (None, False)}[which]
    zz, want = pres
    try:
        r1 = nw.msg.verify(k, sig, msg_hash=zz)
        r2 = nw.msg.verify(k.address(), sig, msg_hash=zz)
    except Exception as e:
        return {"kind": "verify-raises", "detail": "%s: %s" % (type(e).__name__, str(e)[:100])}
    if r1 is not want or r2 is not want:
        return {"kind": "hash-presentation", "which": which, "by_key": r1, "by_address": r2, "want": want}
    return None


PRESENTATIONS = ["same", "subclass", "minus_n", "plus_n_huge", "neg_other", "plus1", "huge_other", "true", "zero", "none"]


def chk_history(nets, order, msg):
    """hash_for_signing is a function of (network, message) only: interleaving calls on other networks, in any order, and
    repeating a call changes nothing (each value is compared with the reference, not with an earlier call)"""
    for i in order:
        nw = nets[i]
        r = chk_digest(nw, msg)
        if r is not None:
            r["net"] = nw.symbol
            r["after"] = [nets[j].symbol for j in order[:order.index(i)]][-4:]
            return r
    return None


# ---- pieces used by c17.py -----------------------------------------------------------------------------------------
def U(s):
    return "u" + s.encode("utf-32-be", "surrogatepass").hex()


def _enc(s):
    try:
        return canon(s.encode("utf8"))
    except Exception as e:
        return "!" + exn_tag(e)


def model_cases(rng, tier, networks):
    quick = tier == "quick"
    ms = messages(rng, 150 if quick else 5000)
    extra = []
    for m in ms[: (60 if quick else 1500)]:
        extra += twins(m)[:3]
    nets = networks()
    for i, m in enumerate(ms + extra + ["\ud800", "a\udfffb", "\U0010ffff", "\uffff", "\u07ff\u0800", "\x7f\x80"]):
        yield Case("utf8 " + U(m), (lambda m=m: _enc(m)))
        for nw in ([nets[i % len(nets)]] + [n for n in nets if n.symbol == "BTC"]):
            yield Case("hashu %s %s" % (U(nw.network_name), U(m)), (lambda nw=nw, m=m: call(nw.msg.hash_for_signing, m)))
    # exhaustive boundaries of the UTF-8 length classes
    for c in [0, 0x7f, 0x80, 0x7ff, 0x800, 0xd7ff, 0xd800, 0xdfff, 0xe000, 0xffff, 0x10000, 0x10ffff] + list(range(0x7e, 0x82)) + list(range(0x7fe, 0x802)):
        yield Case("utf8 " + U(chr(c)), (lambda c=c: _enc(chr(c))))


def prop_cases(rng, tier, networks):
    quick = tier == "quick"
    nets = networks()
    main = [n for n in nets if n.symbol in ("BTC", "LTC")]
    ms = messages(rng, 60 if quick else 3000)
    for i, m in enumerate(ms):
        for nw in main + [nets[i % len(nets)]]:
            yield PropCase("digest_unicode", {"net": nw.symbol, "msg": m}, (lambda nw=nw, m=m: chk_digest(nw, m)))
        tw = twins(m)
        for j, t in enumerate(tw[: (2 if quick else 6)]):
            nw = main[(i + j) % 2] if (i + j) % 5 else nets[(i + j) % len(nets)]
            d = rng.getrandbits(200) + 1
            yield PropCase("twin", {"net": nw.symbol, "d": str(d), "comp": bool(j & 1), "msg": m, "twin": t},
                           (lambda nw=nw, d=d, j=j, m=m, t=t: chk_twin(nw, d, bool(j & 1), m, t)))
    for i, which in enumerate(PRESENTATIONS):
        for nw in main:
            d = rng.getrandbits(200) + 1
            m = ms[(7 * i) % len(ms)]
            yield PropCase("hash_presentation", {"net": nw.symbol, "d": str(d), "comp": bool(i & 1), "msg": m, "which": which},
                           (lambda nw=nw, d=d, i=i, m=m, which=which: chk_hash_presentation(nw, d, bool(i & 1), m, which)))
    # histories: every network once forwards, once backwards, then a shuffled walk with repeats
    idx = list(range(len(nets)))
    walks = [idx, idx[::-1], [rng.randrange(len(nets)) for _ in range(2 * len(nets))]]
    for w, order in enumerate(walks):
        for m in ("history", "cafe\u0301 \uff11"):
            yield PropCase("digest_history", {"order": [nets[i].symbol for i in order], "msg": m},
                           (lambda order=order, m=m: chk_history(nets, order, m)))


def replay_input(check, inp, net):
    if check == "digest_unicode":
        return chk_digest(net(inp["net"]), inp["msg"])
    if check == "twin":
        return chk_twin(net(inp["net"]), int(inp["d"]), inp["comp"], inp["msg"], inp["twin"])
    if check == "hash_presentation":
        return chk_hash_presentation(net(inp["net"]), int(inp["d"]), inp["comp"], inp["msg"], inp["which"])
    if check == "digest_history":
        nets = [net(s) for s in inp["order"]]
        return chk_history(nets, list(range(len(nets))), inp["msg"])
    return NotImplemented


def search_cands(disagreements, net, networks):
    """neighbourhood of disagreeing digest / utf8 cases (the message and its twins on BTC and LTC), then the fixed family"""
    import random
    cands = []
    seen = set()
    for dgr in disagreements[:40]:
        toks = dgr["case"].split(" ")
        m = None
        try:
            if toks[0] in ("hashu", "utf8"):
                m = bytes.fromhex(toks[-1][1:]).decode("utf-32-be", "surrogatepass")
            elif toks[0] == "hash":
                m = bytes.fromhex(toks[-1][1:]).decode("utf8")
        except Exception:
            m = None
        if m is None or m in seen or len(m) > 2000:
            continue
        seen.add(m)
        for sym in ("BTC", "LTC"):
            nw = net(sym)
            cands.append(PropCase("digest_unicode", {"net": sym, "msg": m}, (lambda nw=nw, m=m: chk_digest(nw, m))))
            for t in twins(m)[:4]:
                cands.append(PropCase("twin", {"net": sym, "d": "777", "comp": True, "msg": m, "twin": t},
                                      (lambda nw=nw, m=m, t=t: chk_twin(nw, 777, True, m, t))))
    cands += list(prop_cases(random.Random(23), "quick", networks))
    return cands
