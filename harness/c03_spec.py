"""C03 (spec half) — the extracted Bitcoin Core interpreter (coq/Spec/VMcore.v, driver_c03spec) and the
implementation-vs-spec differential.

Exports (used by harness/c03.py, owned by the coordinator):
  spec_eval(cases) / spec_verify(cases)        batch runs of the extracted spec
  prop_cases(rng, tier)                        PropCase stream: REAL pycoin vs spec (eval level and spend level)
  classify / KNOWN_REPLAYS / replay_input / search
  validate_spec_on_vectors()                   Core's own script_tests.json / tx_valid.json / tx_invalid.json
  lax_report()                                 informational counts of the lax-DER stream
  multi_check_cases(rng, tier, part)           spends (bare / P2SH / P2WSH) whose ONE script runs 2-4 signature checks with
                                               real signatures, each valid exactly for the digest of its own position
                                               (own code separator, own FindAndDelete set), plus tampered versions

Case formats
  eval case  : EvalCase(flags, sv, script, stack, tx, nin, amount)   sv in "B","W"; stack top LAST
  spend case : SpendCase(flags, tx, nin, script_pubkey, amount)      scriptSig / witness are tx.vin[nin]'s
  results    : ("ok", [stack items]) | ("ok", None) for verify | ("fail", CORE_ERROR_NAME)

The checksig oracle of the spec is answered HERE, independently of pycoin's checker: a Core-style
SignatureHash (legacy serializer / BIP143) over the synthetic transaction's raw fields, Core's lax DER
parser, Core's public-key parser, and ECDSA verification (pycoin's secp256k1 generator is used for the
curve arithmetic only).
"""
from __future__ import annotations
import atexit, hashlib, json, os, re, subprocess
from common import *          # noqa: F401,F403  (PropCase, ML, REPO, rng_for ...)

from pycoin.satoshi import flags as PF
from pycoin.ecdsa.secp256k1 import secp256k1_generator as _G

DRIVER_SPEC = "C03spec"

# ------------------------------------------------------------------------------------------------
# flags: bit positions are pycoin's (the flags word is pycoin's API); names are Core's
FLAG_NAMES = ["P2SH", "STRICTENC", "DERSIG", "LOW_S", "NULLDUMMY", "SIGPUSHONLY", "MINIMALDATA",
              "DISCOURAGE_UPGRADABLE_NOPS", "CLEANSTACK", "CHECKLOCKTIMEVERIFY", "CHECKSEQUENCEVERIFY", "WITNESS",
              "DISCOURAGE_UPGRADABLE_WITNESS_PROGRAM", "MINIMALIF", "NULLFAIL", "WITNESS_PUBKEYTYPE"]
FL = {n: getattr(PF, "VERIFY_" + n) for n in FLAG_NAMES}
ALL_FLAGS = 0
for _v in FL.values():
    ALL_FLAGS |= _v
DER_FLAGS = FL["DERSIG"] | FL["LOW_S"] | FL["STRICTENC"]


def parse_flags(s: str) -> int:
    v = 0
    for f in s.split(","):
        f = f.strip()
        if f and f != "NONE":
            v |= FL[f]
    return v


def flag_names(v: int) -> str:
    return ",".join(n for n in FLAG_NAMES if v & FL[n]) or "NONE"


def close_flags(v: int) -> int:
    """close a flag word under Core's requirements: WITNESS => P2SH, CLEANSTACK => P2SH and WITNESS"""
    if v & FL["CLEANSTACK"]:
        v |= FL["WITNESS"] | FL["P2SH"]
    if v & FL["WITNESS"]:
        v |= FL["P2SH"]
    return v


# ------------------------------------------------------------------------------------------------
# synthetic transactions (raw fields only) and Core-style serialization
def sha256(b):
    return hashlib.sha256(b).digest()


def dsha256(b):
    return hashlib.sha256(hashlib.sha256(b).digest()).digest()


def ripemd160(b):
    h = hashlib.new("ripemd160")
    h.update(b)
    return h.digest()


def hash160(b):
    return ripemd160(sha256(b))


def compact_size(n: int) -> bytes:
    if n < 253:
        return bytes([n])
    if n <= 0xFFFF:
        return b"\xfd" + n.to_bytes(2, "little")
    if n <= 0xFFFFFFFF:
        return b"\xfe" + n.to_bytes(4, "little")
    return b"\xff" + n.to_bytes(8, "little")


def ser_string(b: bytes) -> bytes:
    return compact_size(len(b)) + b


class SynTx:
    """version (unsigned 32), vin = [[prev_hash(32 bytes as serialized), prev_index, script_sig, sequence, witness]],
    vout = [[value, script]], locktime"""
    __slots__ = ("version", "vin", "vout", "locktime")

    def __init__(self, version, vin, vout, locktime):
        self.version = version
        self.vin = [list(i) for i in vin]
        self.vout = [list(o) for o in vout]
        self.locktime = locktime

    def serialize_legacy(self) -> bytes:
        out = [self.version.to_bytes(4, "little"), compact_size(len(self.vin))]
        for h, n, s, q, _w in self.vin:
            out.append(h + n.to_bytes(4, "little") + ser_string(s) + q.to_bytes(4, "little"))
        out.append(compact_size(len(self.vout)))
        for v, s in self.vout:
            out.append((v & 0xFFFFFFFFFFFFFFFF).to_bytes(8, "little") + ser_string(s))
        out.append(self.locktime.to_bytes(4, "little"))
        return b"".join(out)

    def txid(self) -> bytes:
        return dsha256(self.serialize_legacy())

    def to_json(self):
        return {"version": self.version, "locktime": self.locktime,
                "vin": [[h.hex(), n, s.hex(), q, [w.hex() for w in wit]] for h, n, s, q, wit in self.vin],
                "vout": [[v, s.hex()] for v, s in self.vout]}

    @staticmethod
    def from_json(d):
        return SynTx(d["version"], [[bytes.fromhex(h), n, bytes.fromhex(s), q, [bytes.fromhex(w) for w in wit]]
                                    for h, n, s, q, wit in d["vin"]],
                     [[v, bytes.fromhex(s)] for v, s in d["vout"]], d["locktime"])


def parse_tx(raw: bytes) -> SynTx:
    """independent parser of the (BIP144) wire format, for tx_valid.json / tx_invalid.json"""
    pos = 0

    def rd(n):
        nonlocal pos
        b = raw[pos:pos + n]
        if len(b) != n:
            raise ValueError("short tx")
        pos += n
        return b

    def rcs():
        f = rd(1)[0]
        if f < 253:
            return f
        return int.from_bytes(rd({253: 2, 254: 4, 255: 8}[f]), "little")

    version = int.from_bytes(rd(4), "little")
    n_in = rcs()
    segwit = False
    if n_in == 0:
        flag = rd(1)[0]
        if flag != 0:
            segwit = True
            n_in = rcs()
        else:       # really no inputs and no outputs
            pos -= 1
    vin = []
    for _ in range(n_in):
        h = rd(32)
        n = int.from_bytes(rd(4), "little")
        s = rd(rcs())
        q = int.from_bytes(rd(4), "little")
        vin.append([h, n, s, q, []])
    vout = []
    for _ in range(rcs()):
        v = int.from_bytes(rd(8), "little")
        vout.append([v, rd(rcs())])
    if segwit:
        for i in range(n_in):
            vin[i][4] = [rd(rcs()) for _ in range(rcs())]
    lt = int.from_bytes(rd(4), "little")
    return SynTx(version, vin, vout, lt)


# ---- script decoding as Core's GetOp (used by the sighash serializer; NOT pycoin's get_opcode)
OP_CODESEPARATOR = 0xAB


def get_op(script: bytes, pc: int):
    """returns (ok, opcode, data, new_pc); on failure new_pc is where Core's iterator stops"""
    if pc >= len(script):
        return False, 0xFF, b"", pc
    op = script[pc]
    pc += 1
    if op <= 0x4E:
        if op < 0x4C:
            n = op
        elif op == 0x4C:
            if len(script) - pc < 1:
                return False, 0xFF, b"", pc
            n = script[pc]
            pc += 1
        elif op == 0x4D:
            if len(script) - pc < 2:
                return False, 0xFF, b"", pc
            n = int.from_bytes(script[pc:pc + 2], "little")
            pc += 2
        else:
            if len(script) - pc < 4:
                return False, 0xFF, b"", pc
            n = int.from_bytes(script[pc:pc + 4], "little")
            pc += 4
        if len(script) - pc < n:
            return False, 0xFF, b"", pc
        return True, op, script[pc:pc + n], pc + n
    return True, op, b"", pc


def serialize_script_code_legacy(code: bytes) -> bytes:
    """CTransactionSignatureSerializer::SerializeScriptCode: OP_CODESEPARATORs at opcode boundaries dropped"""
    nsep = 0
    pc = 0
    while True:
        ok, op, _, pc = get_op(code, pc)
        if not ok:
            break
        if op == OP_CODESEPARATOR:
            nsep += 1
    out = [compact_size(len(code) - nsep)]
    begin = 0
    pc = 0
    while True:
        ok, op, _, pc = get_op(code, pc)
        if not ok:
            break
        if op == OP_CODESEPARATOR:
            out.append(code[begin:pc - 1])
            begin = pc
    if begin != len(code):
        out.append(code[begin:pc])
    return b"".join(out)


SIGHASH_NONE, SIGHASH_SINGLE, SIGHASH_ANYONECANPAY = 2, 3, 0x80
ONE = b"\x01" + b"\x00" * 31


def sighash_legacy(code: bytes, tx: SynTx, nin: int, hashtype: int) -> bytes:
    if nin >= len(tx.vin):
        return ONE
    base = hashtype & 0x1F
    if base == SIGHASH_SINGLE and nin >= len(tx.vout):
        return ONE
    acp = bool(hashtype & SIGHASH_ANYONECANPAY)
    out = [tx.version.to_bytes(4, "little")]
    idxs = [nin] if acp else list(range(len(tx.vin)))
    out.append(compact_size(len(idxs)))
    for i in idxs:
        h, n, _s, q, _w = tx.vin[i]
        out.append(h + n.to_bytes(4, "little"))
        if i != nin:
            out.append(b"\x00")
            out.append((0 if base in (SIGHASH_NONE, SIGHASH_SINGLE) else q).to_bytes(4, "little"))
        else:
            out.append(serialize_script_code_legacy(code))
            out.append(q.to_bytes(4, "little"))
    n_out = 0 if base == SIGHASH_NONE else (nin + 1 if base == SIGHASH_SINGLE else len(tx.vout))
    out.append(compact_size(n_out))
    for j in range(n_out):
        if base == SIGHASH_SINGLE and j != nin:
            out.append(b"\xff" * 8 + b"\x00")
        else:
            v, s = tx.vout[j]
            out.append((v & 0xFFFFFFFFFFFFFFFF).to_bytes(8, "little") + ser_string(s))
    out.append(tx.locktime.to_bytes(4, "little"))
    out.append(hashtype.to_bytes(4, "little"))
    return dsha256(b"".join(out))


def sighash_bip143(code: bytes, tx: SynTx, nin: int, hashtype: int, amount: int) -> bytes:
    base = hashtype & 0x1F
    acp = bool(hashtype & SIGHASH_ANYONECANPAY)
    z = b"\x00" * 32
    hp = z if acp else dsha256(b"".join(h + n.to_bytes(4, "little") for h, n, _s, _q, _w in tx.vin))
    hs = z if (acp or base in (SIGHASH_NONE, SIGHASH_SINGLE)) else dsha256(
        b"".join(q.to_bytes(4, "little") for _h, _n, _s, q, _w in tx.vin))
    if base not in (SIGHASH_NONE, SIGHASH_SINGLE):
        ho = dsha256(b"".join((v & 0xFFFFFFFFFFFFFFFF).to_bytes(8, "little") + ser_string(s) for v, s in tx.vout))
    elif base == SIGHASH_SINGLE and nin < len(tx.vout):
        v, s = tx.vout[nin]
        ho = dsha256((v & 0xFFFFFFFFFFFFFFFF).to_bytes(8, "little") + ser_string(s))
    else:
        ho = z
    h, n, _s, q, _w = tx.vin[nin]
    pre = (tx.version.to_bytes(4, "little") + hp + hs + h + n.to_bytes(4, "little") + ser_string(code)
           + (amount & 0xFFFFFFFFFFFFFFFF).to_bytes(8, "little") + q.to_bytes(4, "little") + ho
           + tx.locktime.to_bytes(4, "little") + hashtype.to_bytes(4, "little"))
    return dsha256(pre)


# ---- keys and signatures as Core / libsecp256k1 parse them
P = 2 ** 256 - 2 ** 32 - 977
N_ORDER = 0xFFFFFFFFFFFFFFFFFFFFFFFFFFFFFFFEBAAEDCE6AF48A03BBFD25E8CD0364141


def parse_pubkey(k: bytes):
    """CPubKey(vch) + IsValid + secp256k1_ec_pubkey_parse; None = unusable"""
    if len(k) == 0:
        return None
    h = k[0]
    want = 33 if h in (2, 3) else (65 if h in (4, 6, 7) else 0)
    if want == 0 or len(k) != want:
        return None
    x = int.from_bytes(k[1:33], "big")
    if x >= P:
        return None
    if want == 33:
        y2 = (pow(x, 3, P) + 7) % P
        y = pow(y2, (P + 1) // 4, P)
        if (y * y) % P != y2:
            return None
        if (y & 1) != (h & 1):
            y = P - y
        return (x, y)
    y = int.from_bytes(k[33:65], "big")
    if y >= P:
        return None
    if (y * y - (pow(x, 3, P) + 7)) % P != 0:
        return None
    if h in (6, 7) and (y & 1) != (h & 1):
        return None
    return (x, y)


def parse_der_lax(sig: bytes):
    """ecdsa_signature_parse_der_lax of Core's pubkey.cpp; returns (r, s) (zeroed on overflow) or None"""
    n = len(sig)
    pos = 0
    if pos == n or sig[pos] != 0x30:
        return None
    pos += 1
    if pos == n:
        return None
    lenbyte = sig[pos]
    pos += 1
    if lenbyte & 0x80:
        lenbyte -= 0x80
        if pos + lenbyte > n:
            return None
        pos += lenbyte
    vals = []
    for _ in range(2):
        if pos == n or sig[pos] != 0x02:
            return None
        pos += 1
        if pos == n:
            return None
        lenbyte = sig[pos]
        pos += 1
        if lenbyte & 0x80:
            lenbyte -= 0x80
            if pos + lenbyte > n:
                return None
            while lenbyte > 0 and sig[pos] == 0:
                pos += 1
                lenbyte -= 1
            if lenbyte >= 8:
                return None
            ln = 0
            while lenbyte > 0:
                ln = (ln << 8) + sig[pos]
                pos += 1
                lenbyte -= 1
        else:
            ln = lenbyte
        if ln > n - pos:
            return None
        vals.append(sig[pos:pos + ln])
        pos += ln
    overflow = False
    ints = []
    for v in vals:
        v = v.lstrip(b"\x00")
        if len(v) > 32:
            overflow = True
        i = int.from_bytes(v, "big")
        if i >= N_ORDER:
            overflow = True
        ints.append(i)
    if overflow:
        return (0, 0)
    return (ints[0], ints[1])


def is_strict_der(sig: bytes) -> bool:
    """IsValidSignatureEncoding (whole blob incl. hash type byte)"""
    ls = len(sig)
    if ls < 9 or ls > 73 or sig[0] != 0x30 or sig[1] != ls - 3:
        return False
    lr = sig[3]
    if 5 + lr >= ls:
        return False
    lsn = sig[5 + lr]
    if lr + lsn + 7 != ls or sig[2] != 2 or lr == 0 or sig[4] & 0x80:
        return False
    if lr > 1 and sig[4] == 0 and not sig[5] & 0x80:
        return False
    if sig[lr + 4] != 2 or lsn == 0 or sig[lr + 6] & 0x80:
        return False
    if lsn > 1 and sig[lr + 6] == 0 and not sig[lr + 7] & 0x80:
        return False
    return True


def ecdsa_verify(pub, e: int, r: int, s: int) -> bool:
    if not (1 <= r < N_ORDER and 1 <= s < N_ORDER):
        return False
    try:
        return bool(_G.verify(pub, e, (r, s)))
    except Exception:
        return False


def core_checksig(sig: bytes, pubkey: bytes, code: bytes, sv: str, tx: SynTx, nin: int, amount: int) -> bool:
    """TransactionSignatureChecker::CheckSig"""
    pub = parse_pubkey(pubkey)
    if pub is None or len(sig) == 0:
        return False
    hashtype = sig[-1]
    rs = parse_der_lax(sig[:-1])
    if rs is None:
        return False
    if sv == "W":
        digest = sighash_bip143(code, tx, nin, hashtype, amount)
    else:
        digest = sighash_legacy(code, tx, nin, hashtype)
    key = (pub, digest, rs)
    hit = _VERIFY_CACHE.get(key)
    if hit is None:
        if len(_VERIFY_CACHE) > 200000:
            _VERIFY_CACHE.clear()
        hit = _VERIFY_CACHE[key] = ecdsa_verify(pub, int.from_bytes(digest, "big"), rs[0], rs[1])
    return hit


_VERIFY_CACHE = {}      # the same spend is evaluated under several flag sets and at two levels: pure function, memoised


# ------------------------------------------------------------------------------------------------
# cases
DEFAULT_TX_JSON = {"version": 1, "locktime": 0, "vin": [["11" * 32, 0, "", 0xFFFFFFFF, []]], "vout": [[0, ""]]}


class EvalCase:
    __slots__ = ("flags", "sv", "script", "stack", "tx", "nin", "amount", "tag")

    def __init__(self, flags, sv, script, stack=(), tx=None, nin=0, amount=0, tag=""):
        self.flags, self.sv, self.script, self.stack = flags, sv, bytes(script), [bytes(x) for x in stack]
        self.tx = tx if tx is not None else SynTx.from_json(DEFAULT_TX_JSON)
        self.nin, self.amount, self.tag = nin, amount, tag

    def line(self):
        tx = self.tx
        return "eval %s %s %s %s %s %s %s" % (arg(self.flags), self.sv, arg(tx.version), arg(tx.locktime),
                                              arg(tx.vin[self.nin][3]), arg(self.script), arg(self.stack))

    def to_json(self):
        return {"flags": self.flags, "flag_names": flag_names(self.flags), "sv": self.sv, "script": self.script.hex(),
                "stack": [x.hex() for x in self.stack], "tx": self.tx.to_json(), "nin": self.nin, "amount": self.amount,
                "tag": self.tag}

    @staticmethod
    def from_json(d):
        return EvalCase(d["flags"], d["sv"], bytes.fromhex(d["script"]), [bytes.fromhex(x) for x in d["stack"]],
                        SynTx.from_json(d["tx"]), d["nin"], d["amount"], d.get("tag", ""))


class SpendCase:
    __slots__ = ("flags", "tx", "nin", "script_pubkey", "amount", "tag")

    def __init__(self, flags, tx, nin, script_pubkey, amount=0, tag=""):
        self.flags, self.tx, self.nin, self.script_pubkey, self.amount, self.tag = flags, tx, nin, bytes(script_pubkey), amount, tag

    def line(self):
        tx = self.tx
        h, n, ssig, seq, wit = tx.vin[self.nin]
        return "verify %s %s %s %s %s %s %s" % (arg(self.flags), arg(tx.version), arg(tx.locktime), arg(seq),
                                                arg(bytes(ssig)), arg(self.script_pubkey), arg([bytes(w) for w in wit]))

    def to_json(self):
        return {"flags": self.flags, "flag_names": flag_names(self.flags), "tx": self.tx.to_json(), "nin": self.nin,
                "script_pubkey": self.script_pubkey.hex(), "amount": self.amount, "tag": self.tag}

    @staticmethod
    def from_json(d):
        return SpendCase(d["flags"], SynTx.from_json(d["tx"]), d["nin"], bytes.fromhex(d["script_pubkey"]), d["amount"],
                         d.get("tag", ""))


# ------------------------------------------------------------------------------------------------
# runner for the extracted spec: a persistent process; oracles answered here
class SpecRunner:
    def __init__(self):
        self.p = None
        self.oracle_calls = 0
        self.checksig_calls = 0
        self.checksig_true = 0
        self.cur = None            # case being evaluated (for the checksig oracle)
        self.lax_used = False      # a non-empty, non-strict-DER signature reached CheckSig without a DER flag
        self.sigs_seen = []

    def start(self):
        exe = os.path.join(ML, "driver_" + DRIVER_SPEC.lower())
        self.p = subprocess.Popen(["bash", "-c", "ulimit -s unlimited 2>/dev/null; exec " + exe],
                                  stdin=subprocess.PIPE, stdout=subprocess.PIPE, stderr=subprocess.PIPE)

    def close(self):
        if self.p is not None:
            try:
                self.p.stdin.close()
                self.p.wait(timeout=10)
            except Exception:
                self.p.kill()
            self.p = None

    def _checksig(self, blob: bytes) -> bytes:
        parts = []
        pos = 0
        for _ in range(3):
            n = int.from_bytes(blob[pos:pos + 4], "big")
            parts.append(blob[pos + 4:pos + 4 + n])
            pos += 4 + n
        sv = "W" if blob[pos] == 1 else "B"
        sig, pk, code = parts
        c = self.cur
        self.checksig_calls += 1
        self.sigs_seen.append(sig)
        # lax region: no DER flag, and a blob that is not strict DER but that Core's lax parser does read
        if len(sig) > 0 and not (c.flags & DER_FLAGS) and not is_strict_der(sig) and parse_der_lax(sig[:-1]) is not None:
            self.lax_used = True
        ok = core_checksig(sig, pk, code, sv, c.tx, c.nin, c.amount)
        if ok:
            self.checksig_true += 1
        return b"\x01" if ok else b"\x00"

    def run(self, case) -> str:
        if self.p is None:
            self.start()
        self.cur = case
        self.lax_used = False
        self.sigs_seen = []
        p = self.p
        p.stdin.write((case.line() + "\n").encode())
        p.stdin.flush()
        while True:
            r = p.stdout.readline()
            if not r:
                self.p = None
                return "!DRIVER_DIED"
            r = r.decode().rstrip("\n")
            if r.startswith("?"):
                name, _, hx = r[1:].partition(" ")
                self.oracle_calls += 1
                data = bytes.fromhex(hx.strip())
                ans = self._checksig(data) if name == "checksig" else ORACLES[name](data)
                p.stdin.write((ans.hex() + "\n").encode())
                p.stdin.flush()
            elif r.startswith("="):
                return r[1:]

    def raw(self, line: str) -> str:
        """a helper command without transaction context (find_and_delete, cast_to_bool, ...)"""
        class _L:
            flags = 0
            tx = None
            nin = 0
            amount = 0

            def line(self_inner):
                return line
        return self.run(_L())


_RUNNER = None


def runner() -> SpecRunner:
    global _RUNNER
    if _RUNNER is None:
        _RUNNER = SpecRunner()
        atexit.register(_RUNNER.close)
    return _RUNNER


def _decode(res: str, verify: bool):
    if res.startswith("!"):
        return ("fail", res[1:])
    if verify:
        return ("ok", None)
    body = res.strip()[1:-1].strip()
    return ("ok", [bytes.fromhex(t[1:]) for t in body.split()] if body else [])


def spec_eval(cases):
    """cases: iterable of EvalCase; returns [("ok", stack) | ("fail", CORE_ERROR)]"""
    r = runner()
    return [_decode(r.run(c), False) for c in cases]


def spec_verify(cases):
    """cases: iterable of SpendCase; returns [("ok", None) | ("fail", CORE_ERROR)]"""
    r = runner()
    return [_decode(r.run(c), True) for c in cases]


# ------------------------------------------------------------------------------------------------
# the implementation side
def _pycoin():
    from pycoin.symbols.btc import network
    from pycoin.coins.bitcoin.VM import BitcoinVM
    from pycoin.coins.bitcoin.SolutionChecker import BitcoinSolutionChecker
    from pycoin.coins.SolutionChecker import ScriptError
    return network, BitcoinVM, BitcoinSolutionChecker, ScriptError


def pycoin_tx(tx: SynTx, spent: dict):
    """the real pycoin Tx mirroring a SynTx; spent = {input index: (amount, script_pubkey)}"""
    network = _pycoin()[0]
    T = network.tx
    txs_in = []
    for h, n, s, q, wit in tx.vin:
        ti = T.TxIn(h, n, s, sequence=q)
        ti.witness = list(wit)
        txs_in.append(ti)
    txs_out = [T.TxOut(v, s) for v, s in tx.vout]
    t = T(tx.version, txs_in, txs_out, tx.locktime)
    unspents = []
    for i in range(len(tx.vin)):
        a, spk = spent.get(i, (0, b""))
        unspents.append(T.TxOut(a, spk))
    t.set_unspents(unspents)
    return t


_ERRNAME = None


def _errname(e):
    global _ERRNAME
    if _ERRNAME is None:
        from pycoin.satoshi import errno
        _ERRNAME = {getattr(errno, k): k for k in dir(errno) if k.isupper() and isinstance(getattr(errno, k), int)}
    try:
        return _ERRNAME.get(e.error_code(), "UNKNOWN_ERROR")
    except Exception:
        return "UNKNOWN_ERROR"


def impl_eval(c: EvalCase):
    """BitcoinVM(script, tx_context, sighash_f, flags, initial_stack).eval_script() — called the way pycoin's own
    pipeline calls it: base scripts never see MINIMALIF / WITNESS_PUBKEYTYPE and use the legacy digest, witness
    scripts keep the flags and use the BIP143 digest."""
    network, BitcoinVM, Checker, ScriptError = _pycoin()
    t = pycoin_tx(c.tx, {c.nin: (c.amount, b"")})
    chk = Checker(t)
    ctx = chk.tx_context_for_idx(c.nin)
    if c.sv == "W":
        flags = c.flags
        sighash_f = chk._make_witness_sighash_f(c.nin)
    else:
        flags = c.flags & ~(FL["MINIMALIF"] | FL["WITNESS_PUBKEYTYPE"])
        sighash_f = chk._make_sighash_f(c.nin)
    try:
        vm = BitcoinVM(c.script, ctx, sighash_f, flags, initial_stack=list(c.stack))
        st = vm.eval_script()
        return ("ok", [bytes(x) for x in st])
    except ScriptError as e:
        return ("fail", _errname(e))
    except Exception as e:  # noqa
        return ("crash", type(e).__name__ + ": " + str(e)[:120])


def impl_verify(c: SpendCase):
    network, BitcoinVM, Checker, ScriptError = _pycoin()
    t = pycoin_tx(c.tx, {c.nin: (c.amount, c.script_pubkey)})
    try:
        t.check_solution(c.nin, flags=c.flags)
        return ("ok", None)
    except ScriptError as e:
        return ("fail", _errname(e))
    except Exception as e:  # noqa
        return ("crash", type(e).__name__ + ": " + str(e)[:120])


# ------------------------------------------------------------------------------------------------
# Core's script assembly syntax (core_read.cpp ParseScript) — for the vectors
_OPNAMES = {
    0x50: "OP_RESERVED", 0x61: "OP_NOP", 0x62: "OP_VER", 0x63: "OP_IF", 0x64: "OP_NOTIF", 0x65: "OP_VERIF",
    0x66: "OP_VERNOTIF", 0x67: "OP_ELSE", 0x68: "OP_ENDIF", 0x69: "OP_VERIFY", 0x6A: "OP_RETURN",
    0x6B: "OP_TOALTSTACK", 0x6C: "OP_FROMALTSTACK", 0x6D: "OP_2DROP", 0x6E: "OP_2DUP", 0x6F: "OP_3DUP",
    0x70: "OP_2OVER", 0x71: "OP_2ROT", 0x72: "OP_2SWAP", 0x73: "OP_IFDUP", 0x74: "OP_DEPTH", 0x75: "OP_DROP",
    0x76: "OP_DUP", 0x77: "OP_NIP", 0x78: "OP_OVER", 0x79: "OP_PICK", 0x7A: "OP_ROLL", 0x7B: "OP_ROT",
    0x7C: "OP_SWAP", 0x7D: "OP_TUCK", 0x7E: "OP_CAT", 0x7F: "OP_SUBSTR", 0x80: "OP_LEFT", 0x81: "OP_RIGHT",
    0x82: "OP_SIZE", 0x83: "OP_INVERT", 0x84: "OP_AND", 0x85: "OP_OR", 0x86: "OP_XOR", 0x87: "OP_EQUAL",
    0x88: "OP_EQUALVERIFY", 0x89: "OP_RESERVED1", 0x8A: "OP_RESERVED2", 0x8B: "OP_1ADD", 0x8C: "OP_1SUB",
    0x8D: "OP_2MUL", 0x8E: "OP_2DIV", 0x8F: "OP_NEGATE", 0x90: "OP_ABS", 0x91: "OP_NOT", 0x92: "OP_0NOTEQUAL",
    0x93: "OP_ADD", 0x94: "OP_SUB", 0x95: "OP_MUL", 0x96: "OP_DIV", 0x97: "OP_MOD", 0x98: "OP_LSHIFT",
    0x99: "OP_RSHIFT", 0x9A: "OP_BOOLAND", 0x9B: "OP_BOOLOR", 0x9C: "OP_NUMEQUAL", 0x9D: "OP_NUMEQUALVERIFY",
    0x9E: "OP_NUMNOTEQUAL", 0x9F: "OP_LESSTHAN", 0xA0: "OP_GREATERTHAN", 0xA1: "OP_LESSTHANOREQUAL",
    0xA2: "OP_GREATERTHANOREQUAL", 0xA3: "OP_MIN", 0xA4: "OP_MAX", 0xA5: "OP_WITHIN", 0xA6: "OP_RIPEMD160",
    0xA7: "OP_SHA1", 0xA8: "OP_SHA256", 0xA9: "OP_HASH160", 0xAA: "OP_HASH256", 0xAB: "OP_CODESEPARATOR",
    0xAC: "OP_CHECKSIG", 0xAD: "OP_CHECKSIGVERIFY", 0xAE: "OP_CHECKMULTISIG", 0xAF: "OP_CHECKMULTISIGVERIFY",
    0xB0: "OP_NOP1", 0xB1: "OP_CHECKLOCKTIMEVERIFY", 0xB2: "OP_CHECKSEQUENCEVERIFY", 0xB3: "OP_NOP4",
    0xB4: "OP_NOP5", 0xB5: "OP_NOP6", 0xB6: "OP_NOP7", 0xB7: "OP_NOP8", 0xB8: "OP_NOP9", 0xB9: "OP_NOP10",
    0xFF: "OP_INVALIDOPCODE",
}
_OPMAP = {}
for _k, _n in _OPNAMES.items():
    _OPMAP[_n] = _k
    _OPMAP[_n[3:]] = _k
_OPMAP.update({"OP_NOP2": 0xB1, "NOP2": 0xB1, "OP_NOP3": 0xB2, "NOP3": 0xB2})


def scriptnum(v: int) -> bytes:
    """CScriptNum::serialize"""
    if v == 0:
        return b""
    neg = v < 0
    a = abs(v)
    out = bytearray()
    while a:
        out.append(a & 0xFF)
        a >>= 8
    if out[-1] & 0x80:
        out.append(0x80 if neg else 0)
    elif neg:
        out[-1] |= 0x80
    return bytes(out)


def push_raw(d: bytes) -> bytes:
    """CScript << vector: the plain push encoding (not BIP62-minimal for 1-byte values)"""
    n = len(d)
    if n < 0x4C:
        return bytes([n]) + d
    if n <= 0xFF:
        return b"\x4c" + bytes([n]) + d
    if n <= 0xFFFF:
        return b"\x4d" + n.to_bytes(2, "little") + d
    return b"\x4e" + n.to_bytes(4, "little") + d


def push_int(n: int) -> bytes:
    """CScript << int64"""
    if n == -1 or 1 <= n <= 16:
        return bytes([n + 0x50])
    if n == 0:
        return b"\x00"
    return push_raw(scriptnum(n))


def push_min(d: bytes) -> bytes:
    """the BIP62-minimal push of d"""
    if len(d) == 0:
        return b"\x00"
    if len(d) == 1 and 1 <= d[0] <= 16:
        return bytes([0x50 + d[0]])
    if len(d) == 1 and d[0] == 0x81:
        return b"\x4f"
    return push_raw(d)


def parse_script(s: str) -> bytes:
    out = bytearray()
    for w in re.split(r"[ \t\n]+", s):
        if not w:
            continue
        if re.fullmatch(r"-?[0-9]+", w):
            out += push_int(int(w))
        elif w.startswith("0x") and len(w) > 2 and re.fullmatch(r"[0-9a-fA-F]+", w[2:]) and len(w) % 2 == 0:
            out += bytes.fromhex(w[2:])
        elif len(w) >= 2 and w[0] == "'" and w[-1] == "'":
            out += push_raw(w[1:-1].encode("latin1"))
        elif w in _OPMAP:
            out.append(_OPMAP[w])
        else:
            raise ValueError("script parse error: %r" % w)
    return bytes(out)


# ------------------------------------------------------------------------------------------------
# validation of the SPEC on Core's own vectors (validates the transcription; proves nothing)
VEC_DIR = os.path.join(REPO, "tests", "btc", "data")


def _script_test_spend(script_sig: bytes, script_pubkey: bytes, witness, amount: int, flags: int) -> SpendCase:
    credit = SynTx(1, [[b"\x00" * 32, 0xFFFFFFFF, b"\x00\x00", 0xFFFFFFFF, []]], [[amount, script_pubkey]], 0)
    spend = SynTx(1, [[credit.txid(), 0, script_sig, 0xFFFFFFFF, list(witness)]], [[amount, b""]], 0)
    return SpendCase(flags, spend, 0, script_pubkey, amount)


def script_test_vectors():
    """yields (index, SpendCase, expected error name or "OK", comment)"""
    data = json.load(open(os.path.join(VEC_DIR, "script_tests.json")))
    idx = 0
    for row in data:
        if len(row) < 4:
            continue
        wit, amount = [], 0
        if isinstance(row[0], list):
            wit = [bytes.fromhex(w) for w in row[0][:-1]]
            amount = int(round(row[0][-1] * 1e8))
            row = row[1:]
        ssig, spk, fl, expected = row[:4]
        yield idx, _script_test_spend(parse_script(ssig), parse_script(spk), wit, amount, parse_flags(fl)), expected, "/".join(row[4:])
        idx += 1


def _check_transaction(tx: SynTx):
    """Core's context-free CheckTransaction, enough of it to explain tx_invalid.json entries"""
    if not tx.vin:
        return "bad-txns-vin-empty"
    if not tx.vout:
        return "bad-txns-vout-empty"
    total = 0
    for v, _s in tx.vout:
        if v >= 1 << 63:
            return "bad-txns-vout-negative"
        if v > 21000000 * 10 ** 8:
            return "bad-txns-vout-toolarge"
        total += v
        if total > 21000000 * 10 ** 8:
            return "bad-txns-txouttotal-toolarge"
    seen = set()
    for h, n, _s, _q, _w in tx.vin:
        if (h, n) in seen:
            return "bad-txns-inputs-duplicate"
        seen.add((h, n))
    null = [h == b"\x00" * 32 and n == 0xFFFFFFFF for h, n, _s, _q, _w in tx.vin]
    if len(tx.vin) == 1 and null[0]:
        if not 2 <= len(tx.vin[0][2]) <= 100:
            return "bad-cb-length"
    elif any(null):
        return "bad-txns-prevout-null"
    return None


def tx_test_vectors(name):
    """yields (index, SynTx, [SpendCase per input or None when the prevout is not given], flags)"""
    data = json.load(open(os.path.join(VEC_DIR, name)))
    idx = 0
    for row in data:
        if len(row) != 3 or not isinstance(row[0], list):
            continue
        prev = {}
        for p in row[0]:
            h = bytes.fromhex(p[0])[::-1]
            n = p[1] & 0xFFFFFFFF
            prev[(h, n)] = (parse_script(p[2]), p[3] if len(p) > 3 else 0)
        tx = parse_tx(bytes.fromhex(row[1]))
        flags = parse_flags(row[2])
        cases = []
        for i, (h, n, _s, _q, _w) in enumerate(tx.vin):
            if (h, n) in prev:
                spk, amt = prev[(h, n)]
                cases.append(SpendCase(flags, tx, i, spk, amt))
            else:
                cases.append(None)
        yield idx, tx, cases, flags
        idx += 1


def validate_spec_on_vectors(verbose=False):
    """runs the extracted spec on every vector; returns a report dict.  `failures` must be empty."""
    rep = {"script_tests": 0, "script_tests_pass": 0, "script_tests_errclass_pass": 0,
           "tx_valid": 0, "tx_valid_pass": 0, "tx_invalid": 0, "tx_invalid_pass": 0,
           "tx_invalid_by_checktransaction": 0, "failures": [], "not_run": []}
    for idx, c, expected, comment in script_test_vectors():
        rep["script_tests"] += 1
        kind, err = spec_verify([c])[0]
        got = "OK" if kind == "ok" else err
        if (got == "OK") == (expected == "OK"):
            rep["script_tests_pass"] += 1
            if got == expected:
                rep["script_tests_errclass_pass"] += 1
            else:
                rep["failures"].append({"file": "script_tests.json", "index": idx, "expected": expected, "got": got,
                                        "what": "error class", "comment": comment, "case": c.to_json()})
        else:
            rep["failures"].append({"file": "script_tests.json", "index": idx, "expected": expected, "got": got,
                                    "what": "verdict", "comment": comment, "case": c.to_json()})
    for name, want_ok in (("tx_valid.json", True), ("tx_invalid.json", False)):
        key = name[:-5]
        for idx, tx, cases, flags in tx_test_vectors(name):
            rep[key] += 1
            ct = _check_transaction(tx)
            bad = []
            missing = [i for i, c in enumerate(cases) if c is None]
            if missing:
                # Core's test fails such a vector ("bad test"); no vector in the repository has this shape
                rep["not_run"].append({"file": name, "index": idx, "why": "prevout of input %s not listed" % missing})
                continue
            for i, c in enumerate(cases):
                kind, err = spec_verify([c])[0]
                if kind != "ok":
                    bad.append((i, err))
            if want_ok:
                if ct is None and not bad:
                    rep[key + "_pass"] += 1
                else:
                    rep["failures"].append({"file": name, "index": idx, "expected": "valid", "got": {"check": ct, "inputs": bad}})
            else:
                if ct is not None and not bad:
                    rep["tx_invalid_by_checktransaction"] += 1
                if ct is not None or bad:
                    rep[key + "_pass"] += 1
                else:
                    rep["failures"].append({"file": name, "index": idx, "expected": "invalid", "got": "all inputs verify",
                                            "flags": flag_names(flags)})
    if verbose:
        print(json.dumps({k: v for k, v in rep.items() if k != "failures"}, indent=1))
        for f in rep["failures"][:40]:
            f = dict(f)
            f.pop("case", None)
            print("  FAIL", json.dumps(f)[:600])
    return rep


# ================================================================================================
# generators
# ================================================================================================
STATS = {"eval": 0, "eval_ok": 0, "spend": 0, "spend_ok": 0, "lax_region_diffs_in_main_stream": 0, "multi_check": 0, "multi_check_spec_ok": 0}
LAX_STATS = {"cases": 0, "agree": 0, "differ": 0, "crash": 0, "by_variant": {}}

NUMERIC_VALUES = [0, 1, -1, 2, 16, 17, 127, 128, -127, -128, 255, 256, 32767, 32768, -32768, 8388607, 8388608,
                  2147483647, -2147483647, 2147483648, -2147483648, 4294967295, 549755813887, 549755813888]


def numeric_operands():
    ops = [scriptnum(v) for v in NUMERIC_VALUES]
    ops += [bytes.fromhex(h) for h in ("80", "0080", "000080", "00000080", "0000000080", "00", "0000", "0100", "0180",
                                        "7f00", "ff00", "ff80", "ffff00", "01000000", "0100000000", "ffffffff",
                                        "ffffffff7f", "ffffffffff", "000000000000", "010000000000", "8000", "0081")]
    # truthiness of LONG items (CastToBool has no length limit): negative zero, zero and near-misses of 6..520 bytes
    # (seed C03-d1 took a shortcut for items longer than 5 bytes)
    for n in (6, 7, 8, 9, 20, 32, 33, 65, 75, 76, 255, 256, 520):
        ops += [b"\0" * (n - 1) + b"\x80", b"\0" * n, b"\0" * (n - 1) + b"\x81", b"\0" * (n - 1) + b"\x01",
                b"\x01" + b"\0" * (n - 2) + b"\x80", b"\0" * (n - 2) + b"\x80\x00", b"\x80" + b"\0" * (n - 1)]
    seen, out = set(), []
    for o in ops:
        if o not in seen:
            seen.add(o)
            out.append(o)
    return out


NUM_OPERANDS = numeric_operands()
PUSH_LENGTHS = [0, 1, 2, 3, 20, 32, 33, 65, 74, 75, 76, 77, 254, 255, 256, 257, 519, 520, 521, 522]


def push_form(d: bytes, form: str) -> bytes:
    n = len(d)
    if form == "min":
        return push_min(d)
    if form == "direct" and n < 0x4C:
        return bytes([n]) + d
    if form == "pd1" and n <= 0xFF:
        return b"\x4c" + bytes([n]) + d
    if form == "pd2" and n <= 0xFFFF:
        return b"\x4d" + n.to_bytes(2, "little") + d
    if form == "pd4":
        return b"\x4e" + n.to_bytes(4, "little") + d
    return push_raw(d)


def rand_bytes(rng, n):
    return bytes(rng.getrandbits(8) for _ in range(n))


def rand_push(rng):
    r = rng.random()
    if r < 0.55:
        d = rng.choice(NUM_OPERANDS)
    elif r < 0.75:
        d = rand_bytes(rng, rng.randint(0, 6))
    elif r < 0.9:
        d = rand_bytes(rng, rng.choice(PUSH_LENGTHS))
    else:
        d = rand_bytes(rng, rng.randint(0, 80))
    f = rng.random()
    form = "min" if f < 0.6 else rng.choice(["direct", "pd1", "pd2", "pd4"])
    return push_form(d, form)


# (inputs, outputs) for stack-depth-aware generation; -1 = special
ARITY = {0x61: (0, 0), 0x69: (1, 0), 0x6B: (1, 0), 0x6D: (2, 0), 0x6E: (2, 4), 0x6F: (3, 6), 0x70: (4, 6),
         0x71: (6, 6), 0x72: (4, 4), 0x73: (1, 1), 0x74: (0, 1), 0x75: (1, 0), 0x76: (1, 2), 0x77: (2, 1),
         0x78: (2, 3), 0x79: (2, 2), 0x7A: (2, 1), 0x7B: (3, 3), 0x7C: (2, 2), 0x7D: (2, 3), 0x82: (1, 2),
         0x87: (2, 1), 0x88: (2, 0), 0x8B: (1, 1), 0x8C: (1, 1), 0x8F: (1, 1), 0x90: (1, 1), 0x91: (1, 1),
         0x92: (1, 1), 0x93: (2, 1), 0x94: (2, 1), 0x9A: (2, 1), 0x9B: (2, 1), 0x9C: (2, 1), 0x9D: (2, 0),
         0x9E: (2, 1), 0x9F: (2, 1), 0xA0: (2, 1), 0xA1: (2, 1), 0xA2: (2, 1), 0xA3: (2, 1), 0xA4: (2, 1),
         0xA5: (3, 1), 0xA6: (1, 1), 0xA7: (1, 1), 0xA8: (1, 1), 0xA9: (1, 1), 0xAA: (1, 1), 0xAB: (0, 0),
         0xAC: (2, 1), 0xAD: (2, 0), 0xB0: (0, 0), 0xB1: (1, 1), 0xB2: (1, 1), 0xB3: (0, 0), 0xB9: (0, 0),
         0x4F: (0, 1), 0x51: (0, 1), 0x52: (0, 1), 0x60: (0, 1), 0x6C: (0, 1)}
GOOD_OPS = sorted(ARITY)


def gen_seq(rng, n, depth, nest):
    """grammar-based sequence; returns (bytes, new approximate depth)"""
    out = bytearray()
    for _ in range(n):
        r = rng.random()
        if r < 0.38:
            out += rand_push(rng)
            depth += 1
        elif r < 0.80:
            if rng.random() < 0.88:
                cands = [o for o in GOOD_OPS if ARITY[o][0] <= depth]
                op = rng.choice(cands)
                depth += ARITY[op][1] - ARITY[op][0]
            else:
                op = rng.getrandbits(8)
                if op <= 0x4E and op != 0:
                    out += rand_push(rng)
                    depth += 1
                    continue
            out.append(op)
        elif r < 0.93 and nest < 4:
            # conditional block, balanced or not
            style = rng.random()
            if style < 0.7 or depth == 0:
                out += rng.choice([b"\x00", b"\x51", b"\x51", push_form(rng.choice(NUM_OPERANDS), "min")])
            else:
                depth -= 1
            out.append(rng.choice([0x63, 0x64]))
            a, d1 = gen_seq(rng, rng.randint(0, 4), depth, nest + 1)
            out += a
            q = rng.random()
            if q < 0.5:
                out.append(0x67)
                b, d1 = gen_seq(rng, rng.randint(0, 4), depth, nest + 1)
                out += b
                if rng.random() < 0.08:
                    out.append(0x67)          # second ELSE (legal in Core)
                    out += gen_seq(rng, rng.randint(0, 2), depth, nest + 1)[0]
            if rng.random() < 0.92:
                out.append(0x68)
            if rng.random() < 0.03:
                out.append(rng.choice([0x67, 0x68]))   # stray ELSE / ENDIF
            depth = d1
        else:
            # multisig-shaped fragment with garbage keys / signatures
            nk = rng.choice([0, 0, 1, 2, 3, 20, 21])
            ns = rng.randint(0, min(nk, 3)) if rng.random() < 0.9 else nk + 1
            out += rng.choice([b"\x00", b"\x51", b"\x01\x00"])
            for _i in range(ns):
                out += rng.choice([b"\x00", push_raw(rand_bytes(rng, rng.choice([1, 9, 71, 72])))])
            out += push_int(ns)
            for _i in range(nk):
                out += rng.choice([push_raw(rand_bytes(rng, 33)), b"\x00", push_raw(b"\x02" + rand_bytes(rng, 32))])
            out += push_int(nk)
            out.append(rng.choice([0xAE, 0xAE, 0xAF]))
            depth = max(0, depth) + (1 if out[-1] == 0xAE else 0)
        depth = max(depth, 0)
    return bytes(out), depth


def rand_tx(rng, n_in=None, n_out=None):
    n_in = n_in or rng.choice([1, 1, 2, 3])
    n_out = rng.choice([1, 1, 2, 3]) if n_out is None else n_out
    version = rng.choice([1, 1, 2, 2, 0, 3, 0xFFFFFFFF, 0x80000000])
    locktime = rng.choice([0, 1, 100, 499999999, 500000000, 500000001, 0xFFFFFFFF, rng.getrandbits(32)])
    vin = []
    for _ in range(n_in):
        seq = rng.choice([0xFFFFFFFF, 0xFFFFFFFE, 0, 1, 10, 0x80000000, 0x80000001, 0x00400000, 0x00400005,
                          0x0000FFFF, rng.getrandbits(32)])
        vin.append([b"\x11" + rand_bytes(rng, 31), rng.choice([0, 1, 5, 0xFFFFFFFF]), b"", seq, []])
    vout = [[rng.choice([0, 1, 5000, 21 * 10 ** 14]), rand_bytes(rng, rng.choice([0, 1, 25]))] for _ in range(n_out)]
    return SynTx(version, vin, vout, locktime)


CORE6_EVAL = ["MINIMALDATA", "DISCOURAGE_UPGRADABLE_NOPS", "CHECKLOCKTIMEVERIFY", "CHECKSEQUENCEVERIFY", "MINIMALIF", "NULLDUMMY"]
CORE6_SIG = ["STRICTENC", "DERSIG", "LOW_S", "NULLFAIL", "NULLDUMMY", "WITNESS_PUBKEYTYPE"]
CORE6_SPEND = ["P2SH", "WITNESS", "CLEANSTACK", "SIGPUSHONLY", "DISCOURAGE_UPGRADABLE_WITNESS_PROGRAM", "MINIMALIF"]


def subset(core, i):
    v = 0
    for k, n in enumerate(core):
        if (i >> k) & 1:
            v |= FL[n]
    return v


def rand_flags(rng):
    v = 0
    p = rng.choice([0.15, 0.5, 0.85])
    for n in FLAG_NAMES:
        if rng.random() < p:
            v |= FL[n]
    return close_flags(v)


def flag_sets(rng, i, core):
    """the i-th subset of the 6-flag core (all 64 are visited as i runs) and a random closed subset of all 16"""
    return [close_flags(subset(core, i % 64)), rand_flags(rng)]


# ---- eval-level case streams ------------------------------------------------------------------
def opcode_sweep(rng, tier):
    """every one of the 256 opcode values, live and in dead branches, on several stacks and flag sets"""
    stacks = [[], [b"\x01"], [b"\x02", b"\x03", b"\x01", b"\x01"], [b"", b"", b"", b""],
              [b"\x05", b"\x04", b"\x03", b"\x02", b"\x01", b"\x01"], [b"\x81", b"\x00", b"\x80"]]
    flagsets = [0, close_flags(ALL_FLAGS), FL["MINIMALDATA"],
                FL["DISCOURAGE_UPGRADABLE_NOPS"] | FL["CHECKLOCKTIMEVERIFY"] | FL["CHECKSEQUENCEVERIFY"],
                FL["CHECKLOCKTIMEVERIFY"] | FL["CHECKSEQUENCEVERIFY"] | FL["MINIMALIF"] | FL["NULLDUMMY"]]
    tx = SynTx(2, [[b"\x11" * 32, 0, b"", 5, []]], [[0, b""]], 10)
    for op in range(256):
        if op == 0:
            body = b"\x00"
        elif op < 0x4C:
            body = bytes([op]) + bytes([op]) * op
        elif op == 0x4C:
            body = b"\x4c\x03abc"
        elif op == 0x4D:
            body = b"\x4d\x03\x00abc"
        elif op == 0x4E:
            body = b"\x4e\x03\x00\x00\x00abc"
        else:
            body = bytes([op])
        ctxs = [("live", body), ("dead_if", b"\x00\x63" + body + b"\x68"), ("dead_else", b"\x51\x63\x67" + body + b"\x68"),
                ("dead_nested", b"\x00\x63\x51\x63" + body + b"\x68\x68"), ("live_if", b"\x51\x63" + body + b"\x68"),
                ("dead_notif", b"\x51\x64" + body + b"\x67\x68"), ("after", body + b"\x51")]
        for cname, script in ctxs:
            for si, st in enumerate(stacks):
                if tier == "quick" and cname not in ("live", "dead_if") and si not in (2, 4):
                    continue
                for fi, fl in enumerate(flagsets):
                    if tier == "quick" and fi >= 2 and not (0xB0 <= op <= 0xB9 or op in (0x63, 0x64, 0xAE, 0xAF) or op <= 0x60):
                        continue
                    for sv in ("B", "W"):
                        if sv == "W" and op not in (0x63, 0x64, 0xAC, 0xAD, 0xAE, 0xAF, 0xAB):
                            continue
                        yield EvalCase(fl, sv, script, st, tx, 0, 0, "opsweep/%02x/%s" % (op, cname))


UNARY = [0x8B, 0x8C, 0x8F, 0x90, 0x91, 0x92, 0x69, 0x73, 0x63, 0x64, 0xB1, 0xB2, 0x79, 0x7A, 0x82, 0x76]
BINARY = [0x93, 0x94, 0x9A, 0x9B, 0x9C, 0x9D, 0x9E, 0x9F, 0xA0, 0xA1, 0xA2, 0xA3, 0xA4, 0x87, 0x88]


def numeric_sweep(rng, tier):
    """operands of 0..6 bytes incl. negative zero and non-minimal forms through every numeric consumer"""
    txs = [SynTx(2, [[b"\x11" * 32, 0, b"", 0x10, []]], [[0, b""]], 0x100),
           SynTx(1, [[b"\x11" * 32, 0, b"", 0xFFFFFFFF, []]], [[0, b""]], 500000001),
           SynTx(0xFFFFFFFF, [[b"\x11" * 32, 0, b"", 0x00400010, []]], [[0, b""]], 0xFFFFFFFF)]
    lock_flags = FL["CHECKLOCKTIMEVERIFY"] | FL["CHECKSEQUENCEVERIFY"]
    for op in UNARY:
        for d in NUM_OPERANDS:
            for md in (0, FL["MINIMALDATA"]):
                script = bytes([op]) + (b"\x68" if op in (0x63, 0x64) else b"")
                base = [b"\x07", b"\x08", b"\x09"]
                for ti, tx in enumerate(txs if op in (0xB1, 0xB2) else txs[:1]):
                    fl = md | (lock_flags if op in (0xB1, 0xB2) else 0)
                    yield EvalCase(fl, "B", script, base + [d], tx, 0, 0, "num1/%02x" % op)
                    if op in (0x63, 0x64):
                        yield EvalCase(fl | FL["MINIMALIF"], "W", script, base + [d], tx, 0, 0, "num1w/%02x" % op)
                        yield EvalCase(fl | FL["MINIMALIF"], "B", script, base + [d], tx, 0, 0, "num1b/%02x" % op)
    small = [d for d in NUM_OPERANDS if len(d) <= 5][::2] if tier == "quick" else [d for d in NUM_OPERANDS if len(d) <= 9]
    for op in BINARY:
        for a in small:
            for b in small:
                for md in (0, FL["MINIMALDATA"]):
                    yield EvalCase(md, "B", bytes([op]), [a, b], None, 0, 0, "num2/%02x" % op)
    tri = [d for d in NUM_OPERANDS if len(d) <= 5][::3]
    for a in tri:
        for b in tri:
            for c in tri:
                yield EvalCase(rng.choice([0, FL["MINIMALDATA"]]), "B", b"\xa5", [a, b, c], None, 0, 0, "within")
    # the two counts of CHECKMULTISIG
    for d in NUM_OPERANDS:
        for md in (0, FL["MINIMALDATA"]):
            yield EvalCase(md, "B", b"\xae", [b"", b"", d], None, 0, 0, "cms_nkeys")
            yield EvalCase(md, "B", b"\xae", [b"", d, b"\x02" * 33, b"\x01"], None, 0, 0, "cms_nsigs")
            yield EvalCase(md, "B", b"\xae", [b"", b"", b"", d, b"\x02" * 33, b"\x02" * 33, b"\x02" * 33, b"\x03"], None, 0, 0, "cms_nsigs3")


def push_sweep(rng, tier):
    for n in PUSH_LENGTHS + [65535, 65536]:
        d = bytes([0x41 + (n % 7)]) * n
        for form in ("direct", "pd1", "pd2", "pd4"):
            s = push_form(d, form)
            if form != "pd4" and s == push_form(d, "pd4"):
                continue
            for md in (0, FL["MINIMALDATA"]):
                yield EvalCase(md, "B", s, [], None, 0, 0, "push/%d/%s" % (n, form))
                yield EvalCase(md, "B", b"\x00\x63" + s + b"\x68", [], None, 0, 0, "push_dead/%d/%s" % (n, form))
                if n <= 600:
                    for cut in sorted({1, 2, 3, 5, len(s) - 1}):
                        if 0 < cut < len(s):
                            yield EvalCase(md, "B", s[:cut], [], None, 0, 0, "push_trunc/%d/%s/%d" % (n, form, cut))
                            yield EvalCase(md, "B", b"\x00\x63" + s[:cut], [], None, 0, 0, "push_trunc_dead")
    # one-byte values under the minimal rule, every byte
    for v in range(256):
        for form in ("direct", "pd1"):
            yield EvalCase(FL["MINIMALDATA"], "B", push_form(bytes([v]), form), [], None, 0, 0, "push1/%02x" % v)


def limit_cases(rng, tier):
    NOP, IF, ENDIF = b"\x61", b"\x63", b"\x68"
    # op count
    for k in (199, 200, 201, 202, 203):
        yield EvalCase(0, "B", NOP * k, [], None, 0, 0, "opcount/nop/%d" % k)
        yield EvalCase(0, "B", b"\x00" + IF + NOP * (k - 2) + ENDIF, [], None, 0, 0, "opcount/dead/%d" % k)
        yield EvalCase(0, "B", b"\x00" + IF + b"\x50" * 50 + NOP * (k - 2) + ENDIF, [], None, 0, 0, "opcount/dead_reserved/%d" % k)
        yield EvalCase(0, "B", b"\x51" * 300 + NOP * k, [], None, 0, 0, "opcount/with_op1/%d" % k)
        yield EvalCase(0, "B", NOP * (k - 1) + b"\x62", [], None, 0, 0, "opcount/then_ver/%d" % k)
        yield EvalCase(0, "B", NOP * (k - 1) + b"\x6a", [], None, 0, 0, "opcount/then_return/%d" % k)
        yield EvalCase(0, "B", NOP * (k - 1) + b"\x95", [], None, 0, 0, "opcount/then_disabled/%d" % k)
        yield EvalCase(0, "B", b"\x00" + IF + NOP * (k - 3) + b"\x65" + ENDIF, [], None, 0, 0, "opcount/dead_verif/%d" % k)
    # CHECKMULTISIG adds the key count
    key = b"\x02" + b"\x77" * 32
    for nk in (0, 1, 19, 20):
        for total in (200, 201, 202):
            k = total - 1 - nk
            script = NOP * k + b"\x00\x00" + push_raw(key) * nk + push_int(nk) + b"\xae"
            yield EvalCase(0, "B", script, [], None, 0, 0, "opcount/cms/%d/%d" % (nk, total))
            yield EvalCase(0, "B", NOP * k + b"\x00" + IF + b"\xae" + ENDIF, [], None, 0, 0, "opcount/cms_dead/%d/%d" % (nk, total))
            # the count is added before the depth checks: not enough keys on the stack
            yield EvalCase(0, "B", NOP * k + push_int(nk) + b"\xae", [], None, 0, 0, "opcount/cms_short/%d/%d" % (nk, total))
    # stack + altstack items
    for total in (999, 1000, 1001, 1002):
        yield EvalCase(0, "B", b"\x51" * total, [], None, 0, 0, "stack/push/%d" % total)
        yield EvalCase(0, "B", b"", [b"\x01"] * total, None, 0, 0, "stack/initial/%d" % total)
        yield EvalCase(0, "B", b"\x61", [b"\x01"] * total, None, 0, 0, "stack/initial_nop/%d" % total)
        yield EvalCase(0, "B", b"\x75", [b"\x01"] * total, None, 0, 0, "stack/initial_drop/%d" % total)
        yield EvalCase(0, "B", b"\x6b" * 100 + b"\x51" * (total - 900), [b"\x01"] * 900, None, 0, 0, "stack/alt/%d" % total)
        yield EvalCase(0, "B", b"\x6b" * 100 + b"\x51" * (total - 900) + b"\x6c" * 100, [b"\x01"] * 900, None, 0, 0, "stack/alt_back/%d" % total)
        yield EvalCase(0, "B", b"\x6f", [b"\x01"] * (total - 3), None, 0, 0, "stack/3dup/%d" % total)
        yield EvalCase(0, "B", b"\x6f\x6d\x75", [b"\x01"] * (total - 3), None, 0, 0, "stack/3dup_then_drop/%d" % total)
        yield EvalCase(0, "B", b"\x00\x63" + b"\x51" * 5 + b"\x68", [b"\x01"] * total, None, 0, 0, "stack/dead/%d" % total)
        yield EvalCase(0, "B", b"\x51" * (total - 1) + b"\x76\x75", [], None, 0, 0, "stack/dup_drop/%d" % total)
    # script size
    chunk = push_raw(b"\x5a" * 520) + b"\x75"
    for size in (9999, 10000, 10001, 10002):
        body = chunk * 19
        pad = size - len(body)
        fill = push_raw(b"\x33" * (pad - 3 - 1)) + b"\x75" if pad > 80 else b"\x61" * pad
        script = body + fill
        script += b"\x61" * (size - len(script))
        yield EvalCase(0, "B", script[:size], [], None, 0, 0, "scriptsize/%d" % size)
        yield EvalCase(0, "B", (b"\x51\x75" * 5001)[:size], [], None, 0, 0, "scriptsize/op1drop/%d" % size)
        yield EvalCase(0, "B", b"\x00" * size, [], None, 0, 0, "scriptsize/op0/%d" % size)


def conditional_sweep(rng, tier):
    """every sequence over {0, 1, IF, NOTIF, ELSE, ENDIF} up to length 5 (6 in thorough): balanced and unbalanced"""
    import itertools
    alpha = [b"\x00", b"\x51", b"\x63", b"\x64", b"\x67", b"\x68"]
    maxlen = 6 if tier == "thorough" else 5
    i = 0
    for n in range(0, maxlen + 1):
        for seq in itertools.product(alpha, repeat=n):
            s = b"".join(seq)
            i += 1
            yield EvalCase(0, "B", s, [], None, 0, 0, "cond")
            if i % 7 == 0:
                yield EvalCase(FL["MINIMALIF"], "W", s + b"\x51", [b"\x02"], None, 0, 0, "cond_w")
    # deep nesting
    for d in (1, 50, 100, 101, 150):
        yield EvalCase(0, "B", b"\x51\x63" * d + b"\x68" * d, [], None, 0, 0, "cond_deep/%d" % d)
        yield EvalCase(0, "B", b"\x00\x63" + b"\x63" * d + b"\x67" * 3 + b"\x68" * d + b"\x68", [], None, 0, 0, "cond_deep_dead/%d" % d)


def random_scripts(rng, tier):
    n = 4000 if tier == "quick" else 120000
    for i in range(n):
        script, _ = gen_seq(rng, rng.randint(1, 12), 0, 0)
        st = [rng.choice(NUM_OPERANDS) for _ in range(rng.choice([0, 0, 1, 2, 4]))]
        tx = rand_tx(rng) if rng.random() < 0.3 else None
        nin = rng.randrange(len(tx.vin)) if tx else 0
        for fl in flag_sets(rng, i, CORE6_EVAL):
            sv = "W" if rng.random() < 0.25 else "B"
            yield EvalCase(fl, sv, script, st, tx, nin, rng.choice([0, 1, 10 ** 8]), "random")
    # raw byte soup
    for i in range(n // 3):
        script = rand_bytes(rng, rng.randint(1, 10))
        yield EvalCase(rand_flags(rng), rng.choice("BBW"), script, [b"\x01", b"\x02"], None, 0, 0, "soup")


def eval_cases(rng, tier):
    for g in (opcode_sweep, numeric_sweep, push_sweep, limit_cases, conditional_sweep, encoding_sweeps, random_scripts):
        for c in g(rng, tier):
            yield c


# ---- keys, signatures ---------------------------------------------------------------------------
SECRETS = [0x1111111111111111111111111111111111111111111111111111111111111111 * k % N_ORDER + k for k in range(1, 24)]
_PUBS = {}


def pub(i):
    if i not in _PUBS:
        x, y = _G * SECRETS[i]
        _PUBS[i] = (int(x), int(y))
    return _PUBS[i]


def sec(i, form="c"):
    x, y = pub(i)
    xb, yb = x.to_bytes(32, "big"), y.to_bytes(32, "big")
    if form == "c":
        return bytes([2 + (y & 1)]) + xb
    if form == "u":
        return b"\x04" + xb + yb
    if form == "h":                      # hybrid, matching parity: usable, but not STRICTENC
        return bytes([6 + (y & 1)]) + xb + yb
    if form == "hbad":                   # hybrid with the wrong parity: unusable
        return bytes([7 - (y & 1)]) + xb + yb
    if form == "cbadprefix":             # 33 bytes with prefix 05
        return b"\x05" + xb
    if form == "xoverflow":              # x >= p
        return b"\x02" + (P + 1).to_bytes(32, "big")
    if form == "offcurve":
        return b"\x04" + xb + ((y + 1) % P).to_bytes(32, "big")
    if form == "short":
        return bytes([2 + (y & 1)]) + xb[:31]
    if form == "empty":
        return b""
    if form == "c06":                    # 33 bytes with a hybrid prefix
        return bytes([6 + (y & 1)]) + xb
    if form == "u02":                    # 65 bytes with a compressed prefix
        return bytes([2 + (y & 1)]) + xb + yb
    if form == "u05":
        return b"\x05" + xb + yb
    if form == "long":
        return b"\x04" + xb + yb + b"\x00"
    raise ValueError(form)


def der_int(v: int) -> bytes:
    b = v.to_bytes((v.bit_length() + 7) // 8 or 1, "big")
    if b[0] & 0x80:
        b = b"\x00" + b
    return b"\x02" + bytes([len(b)]) + b


def der_sig(r: int, s: int) -> bytes:
    body = der_int(r) + der_int(s)
    return b"\x30" + bytes([len(body)]) + body


STRICT_VARIANTS = ["valid", "valid", "valid", "high_s", "wrong_key", "wrong_msg", "empty", "undefined_hashtype",
                   "s_ge_n", "r_ge_n", "zero_s"]
LAX_VARIANTS = ["pad_r", "pad_s", "neg_r", "long_len", "trailing", "seq_len_wrong", "neg_s_highbit", "garbage_after_r",
                "only_header", "int_len_zero", "long_form_zero_len",
                # non-minimal (long-form) length octets on the integers and two-octet long forms (seed C03-e1)
                "long_len_r", "long_len_s", "long_len2_seq", "long_len2_r", "long_len_all"]


def make_sig(rng, digest_f, key_i, hashtype, variant):
    """digest_f(hashtype) -> 32-byte digest; returns the signature blob (DER ‖ hashtype)"""
    if variant == "empty":
        return b""
    if variant == "undefined_hashtype":
        hashtype = rng.choice([0, 4, 0x80, 0x84, 0x41, 0x7F, 0xFF, 0x05])
    e = int.from_bytes(digest_f(hashtype), "big")
    if variant == "wrong_msg":
        e ^= 1
    k = SECRETS[(key_i + 1) % len(SECRETS)] if variant == "wrong_key" else SECRETS[key_i]
    r, s = _G.sign(k, e)
    s = min(s, N_ORDER - s)
    ht = bytes([hashtype])
    if variant == "high_s":
        s = N_ORDER - s
    if variant == "s_ge_n":
        return der_sig(r, N_ORDER + rng.choice([0, 1, 5])) + ht
    if variant == "r_ge_n":
        return der_sig(N_ORDER + rng.choice([0, 1]), (N_ORDER - s) if rng.random() < 0.5 else s) + ht
    if variant == "zero_s":
        return der_sig(r, 0) + ht
    good = der_sig(r, s)
    if variant in ("valid", "high_s", "wrong_key", "wrong_msg", "undefined_hashtype"):
        return good + ht
    # ---- lax-only shapes (verify under Core's lax parser, or at least parse) ----
    ri, si = der_int(r), der_int(s)
    if variant == "pad_r":
        ri = b"\x02" + bytes([ri[1] + 1]) + b"\x00" + ri[2:]
    elif variant == "pad_s":
        si = b"\x02" + bytes([si[1] + 2]) + b"\x00\x00" + si[2:]
    elif variant == "neg_r":                 # strip a needed leading zero: "negative" r, OpenSSL-style positive
        if ri[2] == 0:
            ri = b"\x02" + bytes([ri[1] - 1]) + ri[3:]
    elif variant == "neg_s_highbit":         # use the high s without its leading zero
        hs = (N_ORDER - s).to_bytes(32, "big")
        si = b"\x02\x20" + hs
    elif variant == "long_len":
        body = ri + si
        return b"\x30\x81" + bytes([len(body)]) + body + ht
    elif variant == "long_form_zero_len":
        body = ri + si
        return b"\x30\x80" + body + ht
    elif variant in ("long_len_r", "long_len_s", "long_len2_seq", "long_len2_r", "long_len_all"):
        def longf(x, octets):          # re-encode the length of one INTEGER in long form with `octets` length octets
            return x[:1] + bytes([0x80 | octets]) + x[1].to_bytes(octets, "big") + x[2:]
        if variant in ("long_len_r", "long_len_all"):
            ri = longf(ri, 1)
        if variant in ("long_len_s", "long_len_all"):
            si = longf(si, 1)
        if variant == "long_len2_r":
            ri = longf(ri, 2)
        body = ri + si
        if variant == "long_len2_seq":
            return b"\x30\x82" + len(body).to_bytes(2, "big") + body + ht
        if variant == "long_len_all":
            return b"\x30\x81" + bytes([len(body)]) + body + ht
        return b"\x30" + bytes([len(body)]) + body + ht
    elif variant == "trailing":
        body = ri + si
        return b"\x30" + bytes([len(body)]) + body + rand_bytes(rng, rng.randint(1, 3)) + ht
    elif variant == "seq_len_wrong":
        body = ri + si
        return b"\x30" + bytes([(len(body) + rng.choice([1, -1, 5])) & 0x7F]) + body + ht
    elif variant == "garbage_after_r":
        return b"\x30\x45" + ri + b"\x03" + si[1:] + ht
    elif variant == "only_header":
        return rng.choice([b"\x30", b"\x30\x01", b"\x30\x00", b"\x30\x02\x02", b"\x30\x03\x02\x01", b"\x30\x81", b"\x30\x06\x02\x81",
                           b"\x30\x06\x02\x01\x01\x02", b"\x30\x06\x02\x01\x01\x02\x81"]) + ht
    elif variant == "int_len_zero":
        return b"\x30\x04\x02\x00\x02\x00" + ht
    body = ri + si
    return b"\x30" + bytes([len(body)]) + body + ht


# ---- spend-level templates ----------------------------------------------------------------------
def _digest_f(tx, nin, amount, code, sv):
    if sv == "W":
        return lambda ht: sighash_bip143(code, tx, nin, ht, amount)
    return lambda ht: sighash_legacy(code, tx, nin, ht)


HASHTYPES = [1, 1, 1, 2, 3, 0x81, 0x82, 0x83]
PK_FORMS = ["c", "c", "c", "u", "u", "h", "hbad", "cbadprefix", "xoverflow", "offcurve", "short", "empty", "c06", "u02", "u05", "long"]
SPEND_KINDS = ["p2pk", "p2pk_not", "p2pkh", "ms", "ms_not", "p2sh_p2pk", "p2sh_ms", "p2sh_codesep", "p2wpkh", "p2wsh_p2pk",
               "p2wsh_ms", "p2wsh_codesep", "p2wsh_if", "p2wsh_big", "p2wsh_items", "p2sh_p2wpkh", "p2sh_p2wsh", "future",
               "p2sh_future", "cltv", "csv", "nonstandard", "p2sh_nonstandard", "p2wsh_nonstandard", "fad", "fad_ms", "codesep_if", "p2wsh_codesep_if", "scriptsig_checksig"]
TWEAKS = ["none"] * 8 + ["sig_nop", "sig_extra_push", "sig_pushdata1", "sig_nonempty", "unexpected_witness", "program_mismatch",
                         "drop_witness_item", "extra_witness_item", "sig_nonpush", "wrong_redeem", "sig_op_reserved",
                         "empty_witness", "sig_dup_push"]


def multisig_script(m, keys):
    return push_int(m) + b"".join(push_raw(k) for k in keys) + push_int(len(keys)) + b"\xae"


def build_spend(rng, kind, variants, flags, tweak, lax=False):
    """returns a SpendCase with real signatures (made with my own Core-style digests)"""
    tx = rand_tx(rng)
    nin = rng.randrange(len(tx.vin))
    if rng.random() < 0.15 and len(tx.vout) > 1:
        tx.vout = tx.vout[:1]           # SIGHASH_SINGLE without a matching output
    amount = rng.choice([0, 1, 12345, 10 ** 8, 21 * 10 ** 14])
    vi = iter(variants * 40)

    def S(code, sv, key_i, ht=None):
        return make_sig(rng, _digest_f(tx, nin, amount, code, sv), key_i, ht if ht is not None else rng.choice(HASHTYPES), next(vi))

    pkform = rng.choice(PK_FORMS) if rng.random() < 0.45 else "c"
    ssig, wit, spk = b"", [], b""
    P_ = push_raw
    if kind in ("p2pk", "p2pk_not"):
        spk = P_(sec(0, pkform)) + b"\xac" + (b"\x91" if kind == "p2pk_not" else b"")
        ssig = P_(S(spk, "B", 0))
    elif kind == "p2pkh":
        k = sec(1, pkform)
        spk = b"\x76\xa9" + P_(hash160(k)) + b"\x88\xac"
        ssig = P_(S(spk, "B", 1)) + P_(k)
    elif kind in ("ms", "ms_not", "p2sh_ms", "p2wsh_ms"):
        n = rng.choice([1, 2, 3, 3, 5, 16, 20])
        m = rng.randint(1, min(n, 4)) if rng.random() < 0.9 else rng.choice([0, n])
        forms = [rng.choice(PK_FORMS) if rng.random() < 0.15 else ("c" if kind == "p2wsh_ms" or rng.random() < 0.7 else "u") for _ in range(n)]
        keys = [sec(i, forms[i]) for i in range(n)]
        script = multisig_script(m, keys) + (b"\x91" if kind == "ms_not" else b"")
        sv = "W" if kind == "p2wsh_ms" else "B"
        signers = sorted(rng.sample(range(n), m))
        order = rng.random()
        if order < 0.12 and m > 1:
            signers = signers[::-1]          # wrong order: must fail
        sigs = [S(script, sv, i) for i in signers]
        dummy = rng.choice([b"", b"", b"", b"\x00", b"\x01", b"\x51"[0:0] + b"\x80"])
        if kind in ("ms", "ms_not"):
            spk = script
            ssig = push_form(dummy, "direct" if dummy else "min") + b"".join(P_(s) for s in sigs)
        elif kind == "p2sh_ms":
            spk = b"\xa9\x14" + hash160(script) + b"\x87"
            ssig = push_form(dummy, "direct" if dummy else "min") + b"".join(P_(s) for s in sigs) + P_(script)
        else:
            spk = b"\x00\x20" + sha256(script)
            wit = [dummy] + sigs + [script]
    elif kind == "p2sh_p2pk":
        redeem = P_(sec(2, pkform)) + b"\xac"
        spk = b"\xa9\x14" + hash160(redeem) + b"\x87"
        ssig = P_(S(redeem, "B", 2)) + P_(redeem)
    elif kind in ("p2sh_codesep", "p2wsh_codesep"):
        # <k3> CHECKSIGVERIFY CODESEPARATOR <k4> CHECKSIG [CODESEPARATOR]: two script codes
        tail = b"\xab" if rng.random() < 0.5 else b""
        part2 = P_(sec(4, "c")) + b"\xac" + tail
        script = P_(sec(3, "c")) + b"\xad\xab" + part2
        sv = "W" if kind == "p2wsh_codesep" else "B"
        s1 = S(script, sv, 3)
        s2 = S(part2, sv, 4)
        if kind == "p2sh_codesep":
            spk = b"\xa9\x14" + hash160(script) + b"\x87"
            ssig = P_(s2) + P_(s1) + P_(script)
        else:
            spk = b"\x00\x20" + sha256(script)
            wit = [s2, s1, script]
    elif kind in ("p2wpkh", "p2sh_p2wpkh"):
        k = sec(5, pkform)
        prog = b"\x00\x14" + hash160(k)
        code = b"\x76\xa9\x14" + hash160(k) + b"\x88\xac"
        wit = [S(code, "W", 5), k]
        if kind == "p2wpkh":
            spk = prog
        else:
            spk = b"\xa9\x14" + hash160(prog) + b"\x87"
            ssig = P_(prog)
    elif kind in ("p2wsh_p2pk", "p2sh_p2wsh"):
        script = P_(sec(6, pkform)) + b"\xac"
        prog = b"\x00\x20" + sha256(script)
        wit = [S(script, "W", 6), script]
        if kind == "p2wsh_p2pk":
            spk = prog
        else:
            spk = b"\xa9\x14" + hash160(prog) + b"\x87"
            ssig = P_(prog)
    elif kind == "p2wsh_if":
        # IF <k7> ELSE <k8> ENDIF CHECKSIG, selector of several shapes (MINIMALIF)
        script = b"\x63" + P_(sec(7, "c")) + b"\x67" + P_(sec(8, "c")) + b"\x68\xac"
        sel = rng.choice([b"\x01", b"", b"\x02", b"\x00", b"\x01\x00", b"\x80", b"\x01\x01"])
        truth = any(sel[:-1]) or (len(sel) > 0 and sel[-1] not in (0, 0x80))
        spk = b"\x00\x20" + sha256(script)
        wit = [S(script, "W", 7 if truth else 8), sel, script]
    elif kind == "p2wsh_big":
        # witness script longer than 520 bytes
        pad = (P_(b"\x6b" * rng.choice([75, 200, 519, 520])) + b"\x75") * rng.choice([1, 2, 3])
        script = pad + P_(sec(9, "c")) + b"\xac"
        spk = b"\x00\x20" + sha256(script)
        wit = [S(script, "W", 9), script]
    elif kind == "p2wsh_items":
        # witness items of 519..521 bytes that the script drops
        n = rng.choice([519, 520, 521, 522])
        script = b"\x75" + P_(sec(10, "c")) + b"\xac"
        spk = b"\x00\x20" + sha256(script)
        wit = [S(script, "W", 10), b"\x42" * n, script]
    elif kind in ("future", "p2sh_future"):
        ver = rng.randint(1, 16)
        plen = rng.choice([1, 2, 3, 20, 32, 33, 40, 41])
        prog = bytes([0x50 + ver, plen]) + rand_bytes(rng, plen)
        if rng.random() < 0.15:
            prog = bytes([rng.choice([0x4F, 0x50, 0x61])]) + prog[1:]      # not a witness version opcode
        if rng.random() < 0.1:
            prog = b"\x00" + prog[1:]                                       # v0 with an odd program length
        wit = [rand_bytes(rng, rng.choice([0, 1, 520, 521, 600])) for _ in range(rng.randint(0, 3))]
        if kind == "future":
            spk = prog
        else:
            spk = b"\xa9\x14" + hash160(prog) + b"\x87"
            ssig = P_(prog)
    elif kind == "fad":
        # the scriptPubKey contains the signature itself: only FindAndDelete makes such a signature possible
        k = sec(12, "c")
        tailscript = b"\x75" + P_(k) + b"\xac"
        shape = rng.choice(["direct", "twice", "pd1", "inside", "after_codesep", "truncated_tail"])
        ht = rng.choice(HASHTYPES)
        # the digest the signature must commit to depends on which copies Core deletes: fixed point by construction
        if shape in ("direct", "twice", "after_codesep"):
            sig = S(tailscript if shape != "after_codesep" else tailscript, "B", 12, ht)
            copies = P_(sig) * (2 if shape == "twice" else 1)
            spk = (b"\xab" if shape == "after_codesep" else b"") + copies + (b"\x75" if shape == "twice" else b"") + tailscript
        elif shape == "pd1":
            # a PUSHDATA1 copy is NOT deleted by Core (the pattern is the plain push): must fail; an implementation
            # that normalises pushes before comparing would accept
            sig = S(tailscript, "B", 12, ht)
            spk = b"\x4c" + bytes([len(sig)]) + sig + tailscript
        elif shape == "inside":
            sig = S(tailscript, "B", 12, ht)
            spk = P_(b"\x99" + P_(sig)) + tailscript          # pattern inside another push: not at an opcode boundary
        else:
            sig = S(tailscript, "B", 12, ht)
            spk = P_(sig) + tailscript
        ssig = P_(sig)
    elif kind == "fad_ms":
        # 2-of-2 where the script code contains both signatures
        ks = [sec(13, "c"), sec(14, "c")]
        tailscript = b"\x6d" + multisig_script(2, ks)
        s1, s2 = S(tailscript, "B", 13), S(tailscript, "B", 14)
        spk = P_(s2) + P_(s1) + tailscript
        ssig = b"\x00" + P_(s1) + P_(s2)
    elif kind in ("codesep_if", "p2wsh_codesep_if"):
        # IF CODESEPARATOR ENDIF <k> CHECKSIG : the script code depends on the branch taken
        k = sec(15, "c")
        script = b"\x63\xab\x68" + P_(k) + b"\xac"
        sel = rng.choice([b"\x01", b""])
        code = (b"\x68" + P_(k) + b"\xac") if sel else script
        if rng.random() < 0.15:
            code = script if sel else (b"\x68" + P_(k) + b"\xac")      # signed for the wrong branch
        if kind == "codesep_if":
            spk = script
            ssig = P_(S(code, "B", 15)) + push_min(sel)
        else:
            spk = b"\x00\x20" + sha256(script)
            wit = [S(code, "W", 15), sel, script]
    elif kind == "scriptsig_checksig":
        # the signature check runs inside the scriptSig: script code = scriptSig minus the signature push
        k = sec(16, pkform)
        tailscript = P_(k) + b"\xac"
        ssig = P_(S(tailscript, "B", 16)) + tailscript
        spk = rng.choice([b"\x61", b"", b"\x69\x51", b"\x91\x91"])
    elif kind in ("cltv", "csv"):
        op = b"\xb1" if kind == "cltv" else b"\xb2"
        n = rng.choice([0, 1, 10, 100, 499999999, 500000000, 500000001, 0x7FFFFFFF, 0x80000000, 0xFFFFFFFF, 0x00400005, 0x00400000,
                        0xFFFF, 0x10000, tx.locktime, tx.vin[nin][3], -1, 1 << 39])
        spk = push_int(n) + op + b"\x75" + P_(sec(11, "c")) + b"\xac"
        ssig = P_(S(spk, "B", 11))
    elif kind in ("nonstandard", "p2sh_nonstandard", "p2wsh_nonstandard"):
        script, _ = gen_seq(rng, rng.randint(1, 8), 2, 0)
        args = [rng.choice(NUM_OPERANDS) for _ in range(rng.randint(0, 3))]
        if kind == "nonstandard":
            spk = script
            ssig = b"".join(push_form(a, rng.choice(["min", "min", "direct"])) for a in args)
            if rng.random() < 0.2:
                ssig += gen_seq(rng, 2, len(args), 0)[0]
        elif kind == "p2sh_nonstandard":
            spk = b"\xa9\x14" + hash160(script) + b"\x87"
            ssig = b"".join(push_min(a) for a in args) + P_(script)
        else:
            spk = b"\x00\x20" + sha256(script)
            wit = args + [script]
    else:
        raise ValueError(kind)

    # ---- malleations
    if tweak == "sig_nop":
        ssig = b"\x61" + ssig
    elif tweak == "sig_extra_push":
        ssig = b"\x51" + ssig
    elif tweak == "sig_dup_push":
        ssig = ssig + b"\x76\x75"
    elif tweak == "sig_op_reserved":
        ssig = b"\x00\x63\x50\x68" + ssig
    elif tweak == "sig_pushdata1":
        # re-encode the last push of the scriptSig with PUSHDATA1
        pc, last = 0, None
        while pc < len(ssig):
            ok, op, d, npc = get_op(ssig, pc)
            if not ok:
                break
            last = (pc, npc, d, op)
            pc = npc
        if last and last[3] <= 0x4B and last[3] > 0:
            ssig = ssig[:last[0]] + b"\x4c" + bytes([len(last[2])]) + last[2]
    elif tweak == "sig_nonempty" and not ssig:
        ssig = rng.choice([b"\x00", b"\x51", b"\x61", b"\x01\x00"])
    elif tweak == "unexpected_witness" and not wit:
        wit = [rand_bytes(rng, rng.choice([0, 1, 5]))]
    elif tweak == "program_mismatch" and len(spk) >= 22:
        spk = spk[:-2] + bytes([spk[-2] ^ 1]) + spk[-1:]
    elif tweak == "drop_witness_item" and wit:
        wit = wit[1:]
    elif tweak == "extra_witness_item" and wit:
        wit = [rng.choice([b"", b"\x01"])] + wit
    elif tweak == "empty_witness":
        wit = []
    elif tweak == "sig_nonpush" and ssig:
        ssig = ssig + b"\x61" if rng.random() < 0.5 else b"\x51\x75" + ssig
    elif tweak == "wrong_redeem" and ssig:
        ssig = ssig[:-1] + bytes([ssig[-1] ^ 0x01])
    tx.vin[nin][2] = ssig
    tx.vin[nin][4] = wit
    return SpendCase(flags, tx, nin, spk, amount, "%s/%s/%s/%s" % (kind, variants[0], tweak, pkform))


def spend_cases(rng, tier):
    n = 800 if tier == "quick" else 30000
    i = 0
    for c in program_shape_cases(rng, tier):
        yield c
    for c in witness_depth_cases(rng, tier):
        yield c
    # systematic: every kind x every strict signature variant, untweaked, under a spread of flag sets
    for kind in SPEND_KINDS:
        for var in ["valid", "high_s", "wrong_key", "wrong_msg", "empty", "undefined_hashtype", "s_ge_n", "r_ge_n", "zero_s"]:
            for fl in (0, close_flags(ALL_FLAGS), close_flags(FL["P2SH"] | FL["WITNESS"] | FL["STRICTENC"] | FL["NULLFAIL"]),
                       FL["P2SH"] | FL["DERSIG"] | FL["LOW_S"] | FL["NULLDUMMY"]):
                i += 1
                yield build_spend(rng, kind, [var], fl, "none")
    for _ in range(n):
        i += 1
        kind = rng.choice(SPEND_KINDS)
        nv = rng.randint(1, 3)
        variants = [rng.choice(STRICT_VARIANTS) for _ in range(nv)]
        tweak = rng.choice(TWEAKS)
        sets = [close_flags(subset(CORE6_SPEND, i % 64) | subset(CORE6_SIG, rng.getrandbits(6))), rand_flags(rng)]
        st = rng.getstate()
        for fl in sets:
            rng.setstate(st)                      # the same spend under both flag sets
            yield build_spend(rng, kind, variants, fl, tweak)


def program_shape_cases(rng, tier):
    """witness-program and P2SH pattern boundaries: sizes 3..43, version opcodes around OP_0/OP_1..OP_16, length byte
    off by one; 22/23/24-byte HASH160 shapes"""
    tx = SynTx(2, [[b"\x22" * 32, 1, b"", 0xFFFFFFFE, []]], [[1, b"\x51"]], 0)
    flagsets = [close_flags(FL["WITNESS"]), close_flags(FL["WITNESS"] | FL["CLEANSTACK"]), FL["P2SH"], 0,
                close_flags(FL["WITNESS"] | FL["DISCOURAGE_UPGRADABLE_WITNESS_PROGRAM"])]
    for first in (0x00, 0x4F, 0x50, 0x51, 0x52, 0x60, 0x61):
        for size in (3, 4, 5, 22, 34, 41, 42, 43):
            for dl in (-1, 0, 1):
                ln = size - 2 + dl
                if ln < 0 or ln > 75:
                    continue
                spk = bytes([first, ln]) + b"\x07" * (size - 2)
                for fl in flagsets:
                    for wit in ([], [b"\x01"], [b"\x01", b"\x51"]):
                        for ssig in (b"", b"\x51"):
                            t = SynTx(tx.version, [list(tx.vin[0])], tx.vout, tx.locktime)
                            t.vin[0][2], t.vin[0][4] = ssig, wit
                            yield SpendCase(fl, t, 0, spk, 5, "progshape/%02x/%d/%d" % (first, size, dl))
                            # the same program behind P2SH
                            t2 = SynTx(tx.version, [list(tx.vin[0])], tx.vout, tx.locktime)
                            t2.vin[0][2], t2.vin[0][4] = ssig[:0] + push_raw(spk), wit
                            yield SpendCase(fl, t2, 0, b"\xa9\x14" + hash160(spk) + b"\x87", 5, "progshape_p2sh")
    redeem = b"\x51"
    h = hash160(redeem)
    shapes = [b"\xa9\x14" + h + b"\x87", b"\xa9\x4c\x14" + h + b"\x87", b"\xa9\x14" + h + b"\x88", b"\xa9\x14" + h + b"\x87\x61",
              b"\xa9\x13" + h[:19] + b"\x87", b"\xa9\x15" + h + b"\x00\x87", b"\xa8\x14" + h + b"\x87", b"\xa9\x14" + h[:19] + b"\x00\x87"]
    for spk in shapes:
        for ssig in (push_raw(redeem), b"\x51" + push_raw(redeem), b"\x61" + push_raw(redeem), push_raw(b"\x00"), b"\x4c\x01\x51", b""):
            for fl in (0, FL["P2SH"], close_flags(FL["CLEANSTACK"]), FL["P2SH"] | FL["SIGPUSHONLY"], FL["P2SH"] | FL["MINIMALDATA"]):
                t = SynTx(tx.version, [list(tx.vin[0])], tx.vout, tx.locktime)
                t.vin[0][2] = ssig
                yield SpendCase(fl, t, 0, spk, 5, "p2shshape")


def encoding_sweeps(rng, tier):
    """single CHECKSIG on [sig, key]: every key prefix byte x the interesting lengths; every hash type byte with a
    signature valid for it; byte-wise mutations of a valid strict-DER signature under the DER flags"""
    tx = SynTx(1, [[b"\x33" * 32, 2, b"", 0xFFFFFFFF, []], [b"\x34" * 32, 0, b"", 7, []]], [[5, b"\x51"], [6, b""]], 0)
    x, y = pub(17)
    xb, yb = x.to_bytes(32, "big"), y.to_bytes(32, "big")

    def sig_for(code, sv, ht, nin=0):
        return make_sig(rng, _digest_f(tx, nin, 9, code, sv), 17, ht, "valid")
    fsets = [0, FL["STRICTENC"], FL["WITNESS_PUBKEYTYPE"], FL["STRICTENC"] | FL["WITNESS_PUBKEYTYPE"] | FL["NULLFAIL"]]
    # keys: prefix x length
    sig_cache = {}
    for prefix in range(256):
        for ln in (0, 1, 32, 33, 34, 64, 65, 66):
            key = (bytes([prefix]) + xb + yb + b"\x00")[:ln]
            for fl in fsets:
                for sv in ("B", "W"):
                    if tier == "quick" and sv == "W" and not (fl & FL["WITNESS_PUBKEYTYPE"]):
                        continue
                    for with_sig in ((False, True) if ln in (33, 65) and prefix in (2, 3, 4, 5, 6, 7) else (False,)):
                        if with_sig:
                            code = b"\xac"
                            ck = (sv,)
                            if ck not in sig_cache:
                                sig_cache[ck] = sig_for(code, sv, 1)
                            sg = sig_cache[ck]
                        else:
                            sg = b""
                        yield EvalCase(fl, sv, b"\xac", [sg, key], tx, 0, 9, "keysweep/%02x/%d" % (prefix, ln))
    key = bytes([2 + (y & 1)]) + xb
    # hash types
    for ht in range(256):
        for sv in ("B", "W"):
            for nin in ((ht & 1,) if tier == "quick" else (0, 1)):
                sg = sig_for(b"\xac", sv, ht, nin)
                for fl in ((0, FL["STRICTENC"]) if tier == "quick" else (0, FL["STRICTENC"], FL["DERSIG"] | FL["NULLFAIL"])):
                    yield EvalCase(fl, sv, b"\xac", [sg, key], tx, nin, 9, "hashtype/%02x" % ht)
    # DER mutations
    base = sig_for(b"\xac", "B", 1)
    muts = [base]
    for i in range(len(base)):
        for d in (1, 0x80, 0xFF):
            muts.append(base[:i] + bytes([base[i] ^ d]) + base[i + 1:])
        muts.append(base[:i] + base[i + 1:])
        muts.append(base[:i] + b"\x00" + base[i:])
    for n in (0, 1, 8, 9, 10, 72, 73, 74):
        muts.append((base + b"\x00" * 80)[:n])
    dflags = [FL["DERSIG"], FL["STRICTENC"], FL["LOW_S"], FL["DERSIG"] | FL["NULLFAIL"], FL["LOW_S"] | FL["STRICTENC"]]
    for mi, m_ in enumerate(muts):
        for fi, fl in enumerate(dflags):
            if tier == "quick" and fi != mi % 5 and fi != (mi + 2) % 5:
                continue                              # two of the five flag sets per mutation, rotating
            yield EvalCase(fl, "B", b"\xac", [m_, key], tx, 0, 9, "dermut")
            if tier != "quick" or fi == mi % 5:
                yield EvalCase(fl, "B", b"\xac\x91", [m_, key], tx, 0, 9, "dermut_not")
    # the same through CHECKMULTISIG 1-of-1 and 1-of-2 (key order / early exit)
    for m_ in muts[::7]:
        for fl in (FL["DERSIG"], FL["STRICTENC"] | FL["NULLDUMMY"], FL["NULLFAIL"] | FL["DERSIG"]):
            yield EvalCase(fl, "B", b"\xae", [b"", m_, b"\x01", key, b"\x01"], tx, 0, 9, "dermut_cms")
            yield EvalCase(fl, "B", b"\xae", [b"", m_, b"\x01", key, b"\x05" + xb, b"\x02"], tx, 0, 9, "dermut_cms2")


def witness_depth_cases(rng, tier):
    """P2WSH witness stacks around the 1000-item limit (the limit is checked after each executed opcode, not on the
    initial stack) and around the largest stack that can still end clean within 201 opcodes (403 items)"""
    shapes = [(1001, b"\x75"), (1002, b"\x6d"), (1000, b"\x61"), (1001, b"\x61"), (1001, b"\x51"), (1000, b"\x51"), (999, b"\x51"),
              (1001, b""), (1003, b"\x6d"), (1001, b"\x00\x63\x68"), (1001, b"\x75" + b"\x6d" * 200),
              (403, b"\x6d" * 201), (404, b"\x6d" * 201), (402, b"\x75" + b"\x6d" * 200), (403, b"\x6d" * 202),
              (1001, b"\x75\x6b"), (1000, b"\x6b\x51"), (1001, b"\x6b")]
    for n, script in shapes:
        for fl in (close_flags(FL["WITNESS"]), close_flags(FL["WITNESS"] | FL["CLEANSTACK"] | FL["MINIMALIF"])):
            for behind_p2sh in (False, True):
                tx = SynTx(2, [[b"\x44" * 32, 3, b"", 0xFFFFFFFD, []]], [[7, b"\x51"]], 0)
                prog = b"\x00\x20" + sha256(script)
                tx.vin[0][4] = [b"\x01"] * n + [script]
                if behind_p2sh:
                    tx.vin[0][2] = push_raw(prog)
                    spk = b"\xa9\x14" + hash160(prog) + b"\x87"
                else:
                    spk = prog
                yield SpendCase(fl, tx, 0, spk, 7, "witdepth/%d/%s%s" % (n, script.hex()[:8], "/p2sh" if behind_p2sh else ""))


def cms_opcount_cases(rng, tier):
    """CHECKMULTISIG(VERIFY) near the 201-operation limit with NON-EMPTY signatures that are really compared with
    keys: valid for the key tried first / tried last / for no key, and well-formed over the wrong message.  NOP
    padding puts the total on 199..203 both under consensus counting (all k keys) and under the tempting wrong
    counting (only the keys never tried).  Without NULLFAIL a failing batch continues to NOT."""
    ks = [1, 3, 20] if tier == "quick" else [1, 2, 3, 10, 19, 20]
    flagsets = [0, FL["NULLFAIL"]] if tier == "quick" else [0, FL["NULLFAIL"], FL["DERSIG"] | FL["NULLFAIL"], FL["STRICTENC"], FL["NULLDUMMY"] | FL["LOW_S"]]
    tx = SynTx(2, [[b"\x66" * 32, 1, b"", 0xFFFFFFFE, []]], [[3, b"\x51"]], 0)
    stranger = 22                                    # a key that is in no script
    for k in ks:
        keys = [sec(i, "c") for i in range(k)]       # Core tries keys[-1] first, keys[0] last
        for variant in ("match_first", "match_last", "match_none", "wrong_msg", "two_sigs"):
            if variant == "two_sigs" and k < 3:
                continue
            if tier == "quick" and k == 20 and variant == "wrong_msg":
                continue                              # same path as match_none, 20 verifications each
            m_ = 2 if variant == "two_sigs" else 1
            tried = {"match_first": 1, "match_last": k, "match_none": k, "wrong_msg": k, "two_sigs": k}[variant]
            tails = (("not", b"\xae", b"\x91"), ("verify", b"\xaf", b"\x51"), ("plain", b"\xae", b""))
            for tail_name, cms, tail in (tails[:2] if tier == "quick" else tails):
                tail_ops = 1 if tail_name == "not" else 0
                totals = (199, 200, 201, 202, 203) if (tier != "quick" or k < 20) else (201, 202)
                for total in totals:
                    pads = {total - 1 - tail_ops - k, total - 1 - tail_ops - (k - tried)}
                    for pad in sorted(p_ for p_ in pads if p_ >= 0):
                        script = b"\x61" * pad + push_int(m_) + b"".join(push_raw(x) for x in keys) + push_int(k) + cms + tail
                        dg = _digest_f(tx, 0, 3, script, "B")
                        if variant == "match_first":
                            sigs = [make_sig(rng, dg, k - 1, 1, "valid")]
                        elif variant == "match_last":
                            sigs = [make_sig(rng, dg, 0, 1, "valid")]
                        elif variant == "match_none":
                            sigs = [make_sig(rng, dg, stranger, 1, "valid")]
                        elif variant == "wrong_msg":
                            sigs = [make_sig(rng, dg, k - 1, 1, "wrong_msg")]
                        else:                        # signatures in stack order: bottom one is checked last
                            sigs = [make_sig(rng, dg, 0, 1, "valid"), make_sig(rng, dg, k - 1, 1, "valid")]
                        for fi, fl in enumerate(flagsets):
                            if tier == "quick" and k == 20 and fi > 0 and total != 202:
                                continue
                            tag = "cms_opcount/%d/%s/%s/%d/pad%d" % (k, variant, tail_name, total, pad)
                            yield EvalCase(fl, "B", script, [b""] + sigs, tx, 0, 3, tag)
                            if fi == 0 or tier != "quick":
                                t1 = SynTx(tx.version, [list(tx.vin[0])], tx.vout, tx.locktime)
                                t1.vin[0][2] = b"\x00" + b"".join(push_raw(x) for x in sigs)
                                yield SpendCase(fl, t1, 0, script, 3, tag)
    # the same inside a witness script (BIP143 digest), k = 20
    keys = [sec(i, "c") for i in range(20)]
    for variant, signer in (("match_first", 19), ("match_none", stranger)):
        tried = 1 if variant == "match_first" else 20
        for total in (200, 201, 202):
            for pad in sorted({total - 2 - 20, total - 2 - (20 - tried)}):
                script = b"\x61" * pad + b"\x51" + b"".join(push_raw(x) for x in keys) + push_int(20) + b"\xae\x91"
                sg = make_sig(rng, _digest_f(tx, 0, 3, script, "W"), signer, 1, "valid")
                t1 = SynTx(tx.version, [list(tx.vin[0])], tx.vout, tx.locktime)
                t1.vin[0][4] = [b"", sg, script]
                yield SpendCase(close_flags(FL["WITNESS"]), t1, 0, b"\x00\x20" + sha256(script), 3, "cms_opcount_w/%s/%d/pad%d" % (variant, total, pad))
                yield EvalCase(close_flags(FL["WITNESS"]), "W", script, [b"", sg], t1, 0, 3, "cms_opcount_w/%s/%d/pad%d" % (variant, total, pad))


def core_find_and_delete(script: bytes, pat: bytes) -> bytes:
    """CScript::FindAndDelete, for SIGNING only (the spec has its own, extracted one): at each opcode boundary skip
    every consecutive raw copy of pat, then copy one opcode; copy the rest verbatim when GetOp fails"""
    if not pat:
        return script
    out = bytearray()
    pc = 0
    while True:
        while script[pc:pc + len(pat)] == pat and len(script) - pc >= len(pat):
            pc += len(pat)
        ok, _op, _d, npc = get_op(script, pc)
        if not ok:
            out += script[pc:]
            return bytes(out)
        out += script[pc:npc]
        pc = npc


ONE_BYTE_JUNK = [bytes([v]) for v in list(range(1, 17)) + [0x81]]


def junk_sig_batches(rng, tier):
    """CHECKMULTISIG / CHECKSIG batches mixing VALID signatures with junk blobs whose minimal push is an opcode
    (one byte 01..10 / 81) or whose plain push occurs raw in the script (01 xx, 2-byte, 75/76-byte blobs).
    The valid signatures commit to Core's script code: only the PLAIN push of every blob of the batch is deleted,
    OP_1..OP_16 / OP_1NEGATE stay.  Yields SpendCases (bare and P2SH) and the matching single-script EvalCases."""
    n_rounds = 120 if tier == "quick" else 5000
    flag_choices = [0, FL["DERSIG"], FL["NULLFAIL"], FL["STRICTENC"], FL["DERSIG"] | FL["NULLFAIL"], FL["STRICTENC"] | FL["NULLFAIL"],
                    FL["P2SH"] | FL["DERSIG"], FL["P2SH"], FL["NULLDUMMY"] | FL["LOW_S"], FL["P2SH"] | FL["STRICTENC"] | FL["NULLDUMMY"]]
    for rnd in range(n_rounds):
        tx = rand_tx(rng)
        nin = rng.randrange(len(tx.vin))
        amount = rng.choice([0, 7, 10 ** 8])
        single = rng.random() < 0.2
        nkeys = 1 if single else rng.choice([1, 2, 2, 2, 3, 3, 4, 5, 16])
        keys = [sec(i, "c" if rng.random() < 0.8 else "u") for i in range(nkeys)]
        if single:
            nsigs = 1
        else:
            nsigs = rng.randint(1, min(nkeys, 4))
        m_in_script = nsigs if rng.random() < 0.9 else max(nsigs - 1, 0)
        # OP_n opcodes that will occur in the script: the two counts and some `OP_n DROP` decoys
        decoys = [rng.choice(list(range(1, 17)) + [0x81]) for _ in range(rng.randint(0, 2))]
        present = [v for v in ([m_in_script, nkeys] if not single else []) if 1 <= v <= 16] + decoys

        def junk():
            r = rng.random()
            if r < 0.60 and present:
                return bytes([rng.choice(present)])          # its MINIMAL push is an opcode of the script
            if r < 0.68:
                return rng.choice(ONE_BYTE_JUNK)
            if r < 0.78:
                return bytes([rng.choice([1, 2, 0x51, 0x52, 0x81, 0x30]), rng.choice([1, 2, 0x75, 0x51])])
            if r < 0.88:
                return bytes([0x30]) + rand_bytes(rng, rng.choice([74, 75]))
            if r < 0.93:
                return b""
            return rand_bytes(rng, rng.choice([3, 9, 71]))
        # which signature slots: each slot is ("valid", key index) or ("junk", blob); valid ones keep key order
        n_valid = rng.randint(0, nsigs) if rng.random() < 0.85 else nsigs
        n_valid = max(n_valid, 1 if rng.random() < 0.8 and nsigs > 1 else 0)
        kidx = sorted(rng.sample(range(nkeys), min(n_valid, nkeys)))
        slots = [("valid", k) for k in kidx] + [("junk", junk()) for _ in range(nsigs - len(kidx))]
        arrangement = rng.random()
        if arrangement < 0.6:
            slots.sort(key=lambda t: 0 if t[0] == "junk" else 1)       # junk below (checked last): the early-exit shape
        elif arrangement < 0.8:
            rng.shuffle(slots)
            vs = iter(sorted(t[1] for t in slots if t[0] == "valid"))
            slots = [t if t[0] == "junk" else ("valid", next(vs)) for t in slots]
        junk_blobs = [t[1] for t in slots if t[0] == "junk"]
        # script: decoys that the WRONG (minimal-push) deletion would remove, and raw copies that Core DOES remove
        pre = bytearray()
        for v in decoys:
            pre += bytes([0x4F if v == 0x81 else 0x50 + v, 0x75])                             # OP_n DROP
        for _ in range(rng.randint(0, 2)):
            q = rng.random()
            if q < 0.5 and junk_blobs:
                pre += push_raw(rng.choice(junk_blobs)) + b"\x75"                             # plain push of a junk blob, DROP
            elif q < 0.85:
                pre += b"\x01" + bytes([rng.choice([1, 2, 5, 0x10, 0x81])]) + b"\x75"       # raw 01 xx
            else:
                pre += push_raw(b"\x99" + push_raw(rng.choice(junk_blobs or [b"\x02"]))) + b"\x75"   # pattern inside a push
        if single:
            body = push_raw(keys[0]) + b"\xac"
        else:
            body = multisig_script(m_in_script, keys)
        tail = rng.choice([b"", b"\x91", b"\x91", b"\x91", b"\x69\x51"])
        script = bytes(pre) + body + tail
        if len(script) > 520 and rng.random() < 0.5:
            continue
        ht = rng.choice(HASHTYPES)
        # Core's script code: every blob's plain push deleted (valid signatures do not occur in the script)
        code = script
        for t in slots[::-1]:
            if t[0] == "junk":
                code = core_find_and_delete(code, push_raw(t[1]))
        blobs = []
        for t in slots:
            if t[0] == "junk":
                blobs.append(t[1])
            else:
                variant = "valid" if rng.random() < 0.9 else rng.choice(["wrong_key", "high_s", "undefined_hashtype"])
                blobs.append(make_sig(rng, _digest_f(tx, nin, amount, code, "B"), t[1], ht, variant))
        dummy = rng.choice([b"", b"", b"", b"\x01"])
        items = ([] if single else [dummy]) + blobs
        # scriptSig pushes: junk one-byte blobs pushed minimally (OP_n) or plainly (01 xx)
        ssig = b"".join(push_min(it) if rng.random() < 0.5 else push_raw(it) for it in items)
        tag = "junkbatch/%s/%dof%d/%s" % ("cs" if single else "cms", nsigs, nkeys, ",".join("V" if t[0] == "valid" else t[1].hex()[:6] for t in slots))
        fls = [rng.choice(flag_choices), flag_choices[rnd % len(flag_choices)], rand_flags(rng)]
        for fl in fls:
            t1 = SynTx(tx.version, [list(v) for v in tx.vin], tx.vout, tx.locktime)
            t1.vin[nin][2] = ssig
            yield SpendCase(fl, t1, nin, script, amount, tag)
            yield EvalCase(fl, "B", script, items, t1, nin, amount, tag)
            if len(script) <= 520:
                t2 = SynTx(tx.version, [list(v) for v in tx.vin], tx.vout, tx.locktime)
                t2.vin[nin][2] = b"".join(push_raw(it) for it in items) + push_raw(script)
                yield SpendCase(fl | FL["P2SH"], t2, nin, b"\xa9\x14" + hash160(script) + b"\x87", amount, tag + "/p2sh")
    # the coordinator's witness, spelled out: 2-of-2 NOT with blobs [02, valid sig by k2]
    tx = SynTx(1, [[b"\x55" * 32, 0, b"", 0xFFFFFFFF, []]], [[1, b"\x51"]], 0)
    k1, k2 = sec(0, "c"), sec(1, "c")
    for junk_b in ONE_BYTE_JUNK:
        # `OP_v DROP` decoy in front: the minimal push of the junk blob v occurs in the script for every v
        decoy = bytes([0x4F if junk_b[0] == 0x81 else 0x50 + junk_b[0], 0x75])
        script = decoy + multisig_script(2, [k1, k2]) + b"\x91"
        code = core_find_and_delete(script, push_raw(junk_b))
        sg = make_sig(rng, _digest_f(tx, 0, 0, code, "B"), 1, 1, "valid")
        for fl in (FL["P2SH"] | FL["DERSIG"], 0, FL["NULLFAIL"], FL["STRICTENC"]):
            t1 = SynTx(1, [list(tx.vin[0])], tx.vout, 0)
            t1.vin[0][2] = b"\x00" + push_raw(junk_b) + push_raw(sg)
            yield SpendCase(fl, t1, 0, script, 0, "junkbatch/witness/%s" % junk_b.hex())
            yield EvalCase(fl, "B", script, [b"", junk_b, sg], t1, 0, 0, "junkbatch/witness/%s" % junk_b.hex())


# ---- several signature checks in ONE script evaluation, real signatures ---------------------------
# Every CHECKSIG / CHECKMULTISIG operation hashes the transaction for ITS OWN script code: the script from the last
# EXECUTED OP_CODESEPARATOR to the end, and (legacy only) with the plain push of every signature of ITS OWN batch
# removed by FindAndDelete.  Two checks of one script therefore sign different digests as soon as a code separator
# runs between them or the bytes of one of the signatures occur as a push in the script.  The family builds such
# scripts with signatures made for exactly the digest consensus prescribes at each position (valid versions) and
# with one signature made for the digest of another position / another deletion set / another hash type (tampered
# versions, invalid).  The construction knows the verdict; it is carried in the tag (`|expect=ok` / `|expect=fail`)
# and chk_spend / chk_eval also compare the SPEC with it, so the family cannot silently degenerate.
MC_SEPS = {  # name: (bytes before the OP_CODESEPARATOR, bytes after it, is it executed)
    "live": (b"", b"", True),
    "live_if": (b"\x51\x63", b"\x68", True),          # 1 IF CODESEPARATOR ENDIF: script code starts at the ENDIF
    "live_else": (b"\x00\x63\x67", b"\x68", True),    # 0 IF ELSE CODESEPARATOR ENDIF
    "dead_if": (b"\x00\x63", b"\x68", False),         # 0 IF CODESEPARATOR ENDIF: not executed, script code unchanged
    "dead_else": (b"\x51\x63\x67", b"\x68", False),   # 1 IF ELSE CODESEPARATOR ENDIF
    "dead_notif": (b"\x51\x64", b"\x68", False),      # 1 NOTIF CODESEPARATOR ENDIF
}
MC_EMB_DELETABLE = ("direct", "twice", "dead")        # every copy is the plain push at an opcode boundary
MC_EMB_FORMS = ("direct", "twice", "dead", "pd1", "pd2", "mixed", "inside")
MC_HTS = [1, 2, 3, 0x81, 0x82, 0x83]


def _mc_sign(key_i, digest: bytes, ht: int, salt=0) -> bytes:
    """strict-DER, low-S signature blob of `digest`; salt != 0 uses another nonce: a different, equally valid signature"""
    gen_k = None
    if salt:
        def gen_k(n, se, val):
            return 1 + int.from_bytes(sha256(b"c03-multicheck-nonce" + bytes([salt]) + se.to_bytes(32, "big") + val.to_bytes(32, "big")), "big") % (n - 1)
    r, s = _G.sign(SECRETS[key_i], int.from_bytes(digest, "big"), gen_k)
    return der_sig(r, min(s, N_ORDER - s)) + bytes([ht])


def _mc_emb_bytes(form, E):
    """the script fragment that carries the signature bytes E (stack-neutral); E = None: every copy left out (the
    script code as it is after a deletion of all copies)"""
    if E is None:
        p = pd1 = pd2 = ins = b""
    else:
        p = push_raw(E)
        pd1 = b"\x4c" + bytes([len(E)]) + E
        pd2 = b"\x4d" + len(E).to_bytes(2, "little") + E
        ins = push_raw(b"\x99" + p)
    return {"direct": p + b"\x75", "twice": p + p + b"\x6d", "dead": b"\x00\x63" + p + b"\x68", "pd1": pd1 + b"\x75",
            "pd2": pd2 + b"\x75", "mixed": p + pd1 + b"\x6d", "inside": ins + b"\x75"}[form]


def _mc_check_bytes(c, last, fin, keyform):
    if c["op"] == "cs":
        body, op = push_raw(sec(c["keys"][0], keyform(c["keys"][0]))), 0xAC
    else:
        body = push_int(len(c["signers"])) + b"".join(push_raw(sec(k, keyform(k))) for k in c["keys"]) + push_int(len(c["keys"]))
        op = 0xAE
    if last:
        return body + bytes([op if fin == "plain" else op + 1])
    return body + (bytes([op + 1]) if c.get("v", "v") == "v" else bytes([op, 0x69]))


def _mc_render(P, E, keyform):
    """-> (segments, begins): the script is the concatenation of the segments; a new segment starts right after every
    EXECUTED OP_CODESEPARATOR; begins[i] = index of the first segment of check i's script code"""
    segs, begins, begin = [bytearray()], [], 0
    checks = P["checks"]
    n = len(checks)
    for g in range(n + 1):
        for it in P["gaps"].get(g, ()):
            if it[0] == "sep":
                pre, post, live = MC_SEPS[it[1]]
                segs[-1] += pre + b"\xab"
                if live:
                    segs.append(bytearray())
                    begin = len(segs) - 1
                segs[-1] += post
            else:
                segs[-1] += _mc_emb_bytes(it[1], E)
        if g < n:
            begins.append(begin)
            segs[-1] += _mc_check_bytes(checks[g], g == n - 1, P.get("fin", "plain"), keyform)
    if P.get("fin", "plain") != "plain":
        segs[-1] += b"\x51"
    return [bytes(s) for s in segs], begins


def _mc_construct(P, sv, tx, nin, amount):
    """-> (script, stack items bottom..top, all signatures valid by construction?, executes a non-minimal push?)"""
    if sv == "W":
        def dg(code, ht):
            return sighash_bip143(code, tx, nin, ht, amount)

        def keyform(k):
            return "c"
    else:
        def dg(code, ht):
            return sighash_legacy(code, tx, nin, ht)

        def keyform(k):
            return "u" if (k + P.get("kf", 0)) % 3 == 0 else "c"
    checks = P["checks"]
    n = len(checks)
    emb, dup, tamper = P.get("emb"), P.get("dup"), P.get("tamper", ("none",))
    slots = [(i, t) for i in range(n) for t in range(len(checks[i]["signers"]))]

    def key_of(sl):
        c = checks[sl[0]]
        return c["keys"][c["signers"][sl[1]]]

    def ht_of(sl):
        return checks[sl[0]]["hts"][sl[1]]
    E, made, blobs = None, {}, {}
    segs0, begins0 = _mc_render(P, None, keyform)
    if emb is not None:
        # the embedded signature first: it signs its check's script code with every copy of itself left out
        made[emb] = dg(b"".join(segs0[begins0[emb[0]]:]), ht_of(emb))
        E = blobs[emb] = _mc_sign(key_of(emb), made[emb], ht_of(emb))
    segs, begins = _mc_render(P, E, keyform)
    batch_has_E = set()
    if emb is not None:
        batch_has_E.add(emb[0])
        if dup and dup[0] == "same_sig" and emb == (dup[1], 0):
            batch_has_E.add(dup[2])
    codes = []
    for i in range(n):
        code = b"".join(segs[begins[i]:])
        if sv == "B" and i in batch_has_E:
            code = core_find_and_delete(code, push_raw(E))
        codes.append(code)
    presc = {sl: dg(codes[sl[0]], ht_of(sl)) for sl in slots}
    for sl in slots:
        if sl == emb:
            continue
        i = sl[0]
        d = presc[sl]
        if tamper[0] == "swap" and sl == (tamper[1], tamper[2]):
            d = dg(codes[tamper[3]], ht_of(sl))                 # made for the script code of ANOTHER position
        elif tamper[0] == "fad_all" and E is not None:
            # made as if the embedded signature were deleted for every check of the script
            d = dg(core_find_and_delete(b"".join(segs[begins[i]:]), push_raw(E)) if sv == "B" else b"".join(segs0[begins0[i]:]), ht_of(sl))
        elif tamper[0] == "swap_ht" and sl == (tamper[1], tamper[2]):
            d = dg(codes[i], tamper[3])                         # made for another hash type than the one it carries
        made[sl] = d
        salt = 1 if dup is not None and dup[0] == "two_sigs" and sl == ((dup[2], 0) if emb != (dup[2], 0) else (dup[1], 0)) else 0
        if d != presc[sl]:
            salt += 2           # never the very bytes of another position's signature (they could be the embedded ones)
        blobs[sl] = _mc_sign(key_of(sl), d, ht_of(sl), salt)
    if dup and dup[0] == "same_sig":
        blobs[(dup[2], 0)], made[(dup[2], 0)] = blobs[(dup[1], 0)], made[(dup[1], 0)]
    if dup and dup[0] == "two_sigs":
        assert blobs[(dup[1], 0)] != blobs[(dup[2], 0)]
    items = []
    for i in range(n - 1, -1, -1):
        if checks[i]["op"] == "cms":
            items.append(b"")
        items += [blobs[(i, t)] for t in range(len(checks[i]["signers"]))]
    nonmin = any(it[0] == "emb" and it[1] in ("pd1", "pd2", "mixed") for g in P["gaps"].values() for it in g)
    # the verdict of the construction, from the signature bytes actually used: each check's script code with the plain
    # push of every signature of its own batch deleted (legacy), each signature made for exactly that digest
    valid = True
    for i in range(n):
        code = b"".join(segs[begins[i]:])
        m_i = len(checks[i]["signers"])
        if sv == "B":
            for t in range(m_i - 1, -1, -1):
                code = core_find_and_delete(code, push_raw(blobs[(i, t)]))
        valid = valid and all(made[(i, t)] == dg(code, ht_of((i, t))) for t in range(m_i))
    return b"".join(segs), items, valid, nonmin


def _mc_cs(k, ht=1, v="v"):
    return {"op": "cs", "keys": [k], "signers": [0], "hts": [ht], "v": v}


def _mc_cms(keys, signers, hts, v="v"):
    return {"op": "cms", "keys": list(keys), "signers": list(signers), "hts": list(hts), "v": v}


def _mc_core_plans():
    """the deterministic part: (name, plan)"""
    E, S = (lambda f="direct": ("emb", f)), (lambda f="live": ("sep", f))
    out = []

    def add(name, checks, gaps=None, **kw):
        out.append((name, dict({"checks": checks, "gaps": gaps or {}}, **kw)))
    two = lambda: [_mc_cs(0), _mc_cs(0)]                                             # noqa: E731
    # the signature of one check occurs in the script: FindAndDelete applies to that check only
    add("emb0_front", two(), {0: [E()]}, emb=(0, 0), dup=("two_sigs", 0, 1))
    add("emb1_front", two(), {0: [E()]}, emb=(1, 0), dup=("two_sigs", 0, 1))
    add("emb0_between", two(), {1: [E()]}, emb=(0, 0), dup=("two_sigs", 0, 1))
    add("emb1_between", [_mc_cs(0, 1, "op"), _mc_cs(0)], {1: [E()]}, emb=(1, 0), dup=("two_sigs", 0, 1))
    add("emb0_after", two(), {2: [E()]}, emb=(0, 0), dup=("two_sigs", 0, 1), fin="v1")
    add("emb1_after", two(), {2: [E()]}, emb=(1, 0), dup=("two_sigs", 0, 1))
    add("emb0_two_places", two(), {0: [E()], 1: [E()]}, emb=(0, 0), dup=("two_sigs", 0, 1))
    add("emb_both_checks_same_sig", two(), {0: [E()]}, emb=(0, 0), dup=("same_sig", 0, 1))
    add("emb0_keys_differ", [_mc_cs(1), _mc_cs(2)], {0: [E()]}, emb=(0, 0))
    add("emb1_hts_differ", [_mc_cs(3, 1), _mc_cs(3, 0x83)], {0: [E()]}, emb=(1, 0))
    for form in MC_EMB_FORMS[1:]:
        add("emb0_" + form, [_mc_cs(4), _mc_cs(5, 1, "op")][::-1], {0: [E(form)]}, emb=(0, 0))
        add("emb1_" + form, [_mc_cs(4), _mc_cs(4)], {1: [E(form)]}, emb=(1, 0), dup=("two_sigs", 0, 1))
    # the same (key, hash type) twice, with and without a code separator that is / is not executed in between
    add("same_sig_twice", two(), {}, dup=("same_sig", 0, 1))
    add("two_sigs", two(), {}, dup=("two_sigs", 0, 1))
    for sf in MC_SEPS:
        add("same_sig_twice_sep_" + sf, two(), {1: [S(sf)]}, dup=("same_sig", 0, 1))
        add("two_sigs_sep_" + sf, [_mc_cs(6, 0x81), _mc_cs(6, 0x81)], {1: [S(sf)]}, dup=("two_sigs", 0, 1))
    add("sep_front_and_back", [_mc_cs(7), _mc_cs(8, 2)], {0: [S()], 2: [S()]})
    # a code separator between the checks and the embedded signature on either side of it
    add("emb1_before_sep", two(), {0: [E()], 1: [S()]}, emb=(1, 0), dup=("two_sigs", 0, 1))
    add("emb0_before_sep", two(), {0: [E()], 1: [S()]}, emb=(0, 0), dup=("two_sigs", 0, 1))
    add("emb0_after_sep", two(), {1: [S(), E()]}, emb=(0, 0), dup=("two_sigs", 0, 1))
    add("emb1_after_sep", two(), {1: [S("live_if"), E()]}, emb=(1, 0), dup=("two_sigs", 0, 1))
    add("emb1_dead_sep", two(), {0: [E("twice")], 1: [S("dead_if")]}, emb=(1, 0), dup=("two_sigs", 0, 1))
    # CHECKMULTISIG batches: the whole batch shares one deletion set
    add("cs_cms_cs", [_mc_cs(0), _mc_cms([1, 2, 3], [0, 2], [1, 1]), _mc_cs(2)], {0: [E()]}, emb=(1, 1))
    add("cs_cms_cs_emb_cs", [_mc_cs(2), _mc_cms([1, 2, 3], [1, 2], [1, 0x82], "op"), _mc_cs(2)], {1: [E()]}, emb=(2, 0))
    add("cms_cms_same_keys", [_mc_cms([0, 1], [0, 1], [1, 0x82]), _mc_cms([0, 1], [0, 1], [3, 0x81])], {0: [E()]}, emb=(0, 0))
    add("cms_cms_same_keys_hts", [_mc_cms([0, 1], [0, 1], [1, 1]), _mc_cms([0, 1], [0, 1], [1, 1])], {1: [E()]}, emb=(1, 1), fin="v1")
    add("cms_cms_sep", [_mc_cms([5, 6, 7], [1], [1]), _mc_cms([5, 6, 7], [1], [1])], {1: [S()]})
    add("cms1of1_cs", [_mc_cms([9], [0], [1]), _mc_cs(9)], {0: [E()]}, emb=(0, 0))
    # three and four checks, hash type mixes
    add("three_hts", [_mc_cs(0, 2), _mc_cs(0, 3), _mc_cs(0, 0x81)], {})
    add("three_hts_emb", [_mc_cs(0, 0x82), _mc_cs(0, 0x83, "op"), _mc_cs(0, 0x82)], {1: [E()]}, emb=(2, 0), dup=("two_sigs", 0, 2))
    add("four", [_mc_cs(0), _mc_cs(1), _mc_cs(0), _mc_cs(1)], {1: [E()], 3: [S()]}, emb=(2, 0))
    add("four_same", [_mc_cs(3), _mc_cs(3), _mc_cs(3), _mc_cs(3)], {0: [E()], 2: [S("dead_notif")]}, emb=(3, 0), dup=("two_sigs", 1, 2))
    add("four_mixed", [_mc_cs(3, 1), _mc_cms([3, 4], [0], [1]), _mc_cs(4, 3), _mc_cms([3, 4], [0, 1], [1, 3])], {2: [S("live_else"), E("twice")]},
        emb=(3, 0), fin="v1")
    return out


def _mc_random_plan(rng):
    n = rng.choice([2, 2, 2, 3, 3, 4])
    same_key = rng.random() < 0.5
    base = rng.randrange(12)
    same_ht = rng.random() < 0.55
    ht0 = rng.choice(MC_HTS)

    def ht():
        return ht0 if same_ht else rng.choice(MC_HTS)
    checks = []
    for i in range(n):
        v = rng.choice(["v", "v", "op"])
        if rng.random() < 0.7:
            checks.append(_mc_cs(base if same_key else rng.randrange(12), ht(), v))
        else:
            nk = rng.choice([1, 2, 2, 3])
            keys = rng.sample(range(12), nk)
            if same_key and base not in keys:
                keys[rng.randrange(nk)] = base
            signers = sorted(rng.sample(range(nk), rng.randint(1, nk)))
            checks.append(_mc_cms(keys, signers, [ht() for _ in signers], v))
    P = {"checks": checks, "gaps": {}, "fin": rng.choice(["plain", "plain", "v1"]), "kf": rng.randrange(3)}
    for g in range(n + 1):
        if rng.random() < (0.3 if 0 < g < n else 0.12):
            P["gaps"].setdefault(g, []).append(("sep", rng.choice(list(MC_SEPS))))
    cs = [i for i in range(n) if checks[i]["op"] == "cs"]
    if len(cs) >= 2 and rng.random() < 0.45:
        a, b = sorted(rng.sample(cs, 2))
        checks[b]["keys"], checks[b]["hts"] = list(checks[a]["keys"]), list(checks[a]["hts"])
        P["dup"] = (rng.choice(["same_sig", "two_sigs", "two_sigs"]), a, b)
    if rng.random() < 0.75:
        j = rng.randrange(n)
        t = rng.randrange(len(checks[j]["signers"]))
        if P.get("dup") and P["dup"][0] == "same_sig" and j == P["dup"][2]:
            j, t = P["dup"][1], 0
        P["emb"] = (j, t)
        for _ in range(1 if rng.random() < 0.75 else 2):
            form = rng.choice(MC_EMB_FORMS) if rng.random() < 0.5 else "direct"
            lst = P["gaps"].setdefault(rng.randrange(n + 1), [])
            lst.insert(rng.randint(0, len(lst)), ("emb", form))
    return P


def _mc_tampers(P, rng=None):
    """the tampered versions of a plan: one signature made for another position's script code, every signature made as
    if the embedded one were deleted everywhere, one signature made for another hash type"""
    checks, emb = P["checks"], P.get("emb")
    n = len(checks)
    slots = [(i, t) for i in range(n) for t in range(len(checks[i]["signers"])) if (i, t) != emb]
    if P.get("dup") and P["dup"][0] == "same_sig":
        slots = [sl for sl in slots if sl != (P["dup"][2], 0)] or slots      # that slot reuses the other one's signature
    out = []
    for k, (i, t) in enumerate(slots):
        others = [b for b in range(n) if b != i]
        # prefer the position of the embedded signature: its deletion set is the one that differs
        b = emb[0] if (emb is not None and emb[0] != i) else others[(k + i) % len(others)]
        out.append(("swap", i, t, b))
    if emb is not None:
        out.append(("fad_all",))
    i, t = slots[-1] if rng is None else rng.choice(slots)
    ht = checks[i]["hts"][t]
    out.append(("swap_ht", i, t, {1: 0x81, 2: 3, 3: 2, 0x81: 1, 0x82: 0x83, 0x83: 0x82}[ht]))
    return out


MC_FLAGS_BASE = [0, FL["P2SH"], FL["NULLFAIL"], FL["P2SH"] | FL["STRICTENC"] | FL["DERSIG"] | FL["LOW_S"] | FL["NULLFAIL"] | FL["NULLDUMMY"],
                 FL["P2SH"] | FL["WITNESS"] | FL["CLEANSTACK"] | FL["SIGPUSHONLY"] | FL["STRICTENC"], FL["P2SH"] | FL["DERSIG"]]
MC_FLAGS_WIT = [FL["P2SH"] | FL["WITNESS"], FL["P2SH"] | FL["WITNESS"] | FL["NULLFAIL"] | FL["WITNESS_PUBKEYTYPE"] | FL["MINIMALIF"],
                FL["P2SH"] | FL["WITNESS"] | FL["CLEANSTACK"] | FL["STRICTENC"] | FL["DERSIG"] | FL["LOW_S"] | FL["NULLDUMMY"]]


def _mc_expect(container, flags, ok, nonmin):
    runs = (container == "bare" or (container == "p2sh" and flags & FL["P2SH"])
            or (container in ("p2wsh", "p2sh_p2wsh") and flags & FL["WITNESS"]))
    if not runs:
        return "ok"                              # the script with the signature checks is never evaluated
    return "ok" if ok and not (nonmin and flags & FL["MINIMALDATA"]) else "fail"


def _mc_tx(rng):
    tx = rand_tx(rng)
    nin = rng.randrange(len(tx.vin))
    if rng.random() < 0.1 and len(tx.vout) > 1:
        tx.vout = tx.vout[:1]                    # SIGHASH_SINGLE without a matching output (legacy digest "one")
    return tx, nin, rng.choice([0, 1, 12345, 10 ** 8, 21 * 10 ** 14])


def _mc_emit(name, P, tampers, containers, tx, nin, amount, flag_f, with_eval):
    """yields SpendCases (and the single-script EvalCases) of plan P: untampered and tampered, in the containers"""
    for tamper in [("none",)] + list(tampers):
        Pt = dict(P, tamper=tamper)
        for sv in ("B", "W"):
            conts = [c for c in containers if (c in ("bare", "p2sh")) == (sv == "B")]
            if not conts:
                continue
            script, items, ok, nonmin = _mc_construct(Pt, sv, tx, nin, amount)
            for cont in conts:
                if cont == "p2sh" and len(script) > 520:
                    continue
                ssig, wit = b"", []
                if cont == "bare":
                    spk, ssig = script, b"".join(push_min(x) for x in items)
                elif cont == "p2sh":
                    spk, ssig = b"\xa9\x14" + hash160(script) + b"\x87", b"".join(push_min(x) for x in items) + push_raw(script)
                else:
                    prog = b"\x00\x20" + sha256(script)
                    wit = items + [script]
                    spk = prog
                    if cont == "p2sh_p2wsh":
                        spk, ssig = b"\xa9\x14" + hash160(prog) + b"\x87", push_raw(prog)
                for fi, fl in enumerate(flag_f(cont)):
                    t1 = SynTx(tx.version, [list(v) for v in tx.vin], tx.vout, tx.locktime)
                    t1.vin[nin][2], t1.vin[nin][4] = ssig, list(wit)
                    tag = "mc/%s/%s/%s" % (cont, name, "-".join(str(x) for x in tamper))
                    yield SpendCase(fl, t1, nin, spk, amount, tag + "|expect=" + _mc_expect(cont, fl, ok, nonmin))
                    if with_eval and fi == 0 and cont != "p2sh":
                        # single-script level (final stack compared); a failing final CHECKSIG is not an error here
                        ex = "|expect=ok" if ok and not (nonmin and fl & FL["MINIMALDATA"]) else ""
                        yield EvalCase(fl, sv, script, items, t1, nin, amount, tag + "/eval" + ex)


def multi_check_cases(rng, tier, part="all"):
    """2-4 CHECKSIG / CHECKSIGVERIFY / CHECKMULTISIG(VERIFY) operations in one scriptPubKey, redeem script or witness
    script, real signatures (see the comment above).  part: "core" = the deterministic plans, "random", "all"."""
    quick = tier == "quick"
    if part in ("core", "all"):
        for pi, (name, P) in enumerate(_mc_core_plans()):
            tx, nin, amount = _mc_tx(rng)
            tampers = _mc_tampers(P)
            if quick:
                # all position swaps are kept (they are what a stale digest accepts), the rest rotates
                sw = [t for t in tampers if t[0] == "swap"][:2]
                rest = [t for t in tampers if t[0] != "swap"]
                tampers = sw + rest[pi % len(rest):][:1]

            def flag_f(cont, pi=pi):
                if cont in ("bare", "p2sh"):
                    fls = [MC_FLAGS_BASE[(pi + (cont == "p2sh")) % len(MC_FLAGS_BASE)] | (FL["P2SH"] if cont == "p2sh" else 0)]
                else:
                    fls = [MC_FLAGS_WIT[pi % len(MC_FLAGS_WIT)]]
                return fls if quick else fls + [rand_flags(rng), close_flags(ALL_FLAGS)]
            conts = ["bare", "p2sh", "p2wsh"] + ([] if quick and pi % 4 else ["p2sh_p2wsh"])
            for c in _mc_emit(name, P, tampers, conts, tx, nin, amount, flag_f, with_eval=True):
                yield c
    if part in ("random", "all"):
        for ri in range(45 if quick else 600):
            P = _mc_random_plan(rng)
            tx, nin, amount = _mc_tx(rng)
            tampers = _mc_tampers(P, rng)
            tampers = [rng.choice(tampers)] if quick else rng.sample(tampers, min(len(tampers), 3))

            def flag_f(cont, ri=ri):
                need = FL["P2SH"] if cont == "p2sh" else (FL["P2SH"] | FL["WITNESS"] if cont != "bare" else 0)
                return [close_flags(subset(CORE6_SIG, rng.getrandbits(6)) | need | (FL["CLEANSTACK"] if ri % 5 == 0 else 0)), rand_flags(rng)]
            conts = ["bare", "p2sh", "p2wsh"] if ri % 6 else ["bare", "p2sh", "p2wsh", "p2sh_p2wsh"]
            if quick:
                conts = [conts[ri % 3], conts[(ri + 1 + ri // 3 % 2) % 3]]
            for c in _mc_emit("random", P, tampers, conts, tx, nin, amount, flag_f, with_eval=not quick or ri % 3 == 0):
                yield c


def _expectation_failure(tag, spec, level):
    """cases built for a known verdict carry it in the tag: the SPEC must give that verdict (guards the generators
    against silent degeneration, e.g. signatures that stopped being valid)"""
    if tag.startswith("mc/"):
        STATS["multi_check"] += 1
        STATS["multi_check_spec_ok"] += spec[0] == "ok"
    if "|expect=" not in tag:
        return None
    want = tag.rsplit("|expect=", 1)[1]
    if want in ("ok", "fail") and spec[0] != want:
        return {"kind": "construction", "level": level, "detail": "the case was constructed to be %s by consensus, the extracted spec says %s"
                % (want, _show(spec)), "spec": _show(spec)}
    return None


def derived_eval_cases(sp: SpendCase):
    """the last script of a spend as a single-script case (initial stack = what the pipeline would pass)"""
    tx, nin = sp.tx, sp.nin
    ssig, wit = tx.vin[nin][2], tx.vin[nin][4]
    spk = sp.script_pubkey
    if len(spk) == 34 and spk[:2] == b"\x00\x20" and wit and sha256(wit[-1]) == spk[2:]:
        yield EvalCase(sp.flags, "W", wit[-1], wit[:-1], tx, nin, sp.amount, "derived/" + sp.tag)
    elif len(spk) == 22 and spk[:2] == b"\x00\x14" and len(wit) == 2:
        yield EvalCase(sp.flags, "W", b"\x76\xa9\x14" + spk[2:] + b"\x88\xac", wit, tx, nin, sp.amount, "derived/" + sp.tag)


def lax_cases(rng, tier):
    """signatures only Core's lax parser accepts, with NONE of DERSIG/LOW_S/STRICTENC set: outside the agreement
    theorem; differences are counted (informational), never reported as failures"""
    n = 150 if tier == "quick" else 3000
    for i in range(n):
        kind = rng.choice(["p2pk", "p2pk_not", "p2pkh", "ms", "p2sh_ms", "p2wpkh", "p2wsh_ms", "p2wsh_p2pk"])
        var = LAX_VARIANTS[i % len(LAX_VARIANTS)]
        fl = rand_flags(rng) & ~DER_FLAGS
        yield var, build_spend(rng, kind, [var], close_flags(fl), "none", lax=True)


# ================================================================================================
# the differential: PropCase stream, classification, replay, search
# ================================================================================================
def _show(r):
    if r[0] == "ok":
        return {"result": "ok", "stack": None if r[1] is None else [x.hex() for x in r[1]][-8:], "depth": None if r[1] is None else len(r[1])}
    return {"result": r[0], "detail": r[1]}


def _agree(spec, impl):
    if spec[0] == "ok":
        return impl[0] == "ok" and spec[1] == impl[1]
    return impl[0] == "fail"


def chk_eval(c: EvalCase):
    R = runner()
    spec = _decode(R.run(c), False)
    lax, sigs = R.lax_used, list(R.sigs_seen)
    impl = impl_eval(c)
    STATS["eval"] += 1
    if spec[0] == "ok":
        STATS["eval_ok"] += 1
    if _agree(spec, impl):
        return _expectation_failure(c.tag, spec, "eval")
    if lax and impl[0] != "crash":
        STATS["lax_region_diffs_in_main_stream"] += 1
        return None
    kind = "crash" if impl[0] == "crash" else ("verdict" if spec[0] != impl[0] else "stack")
    return {"kind": kind, "level": "eval", "impl": _show(impl), "spec": _show(spec), "flags": flag_names(c.flags),
            "sigs": [x.hex() for x in sigs][:4]}


def chk_spend(c: SpendCase):
    R = runner()
    spec = _decode(R.run(c), True)
    lax, sigs = R.lax_used, list(R.sigs_seen)
    impl = impl_verify(c)
    STATS["spend"] += 1
    if spec[0] == "ok":
        STATS["spend_ok"] += 1
    if _agree(spec, impl):
        return _expectation_failure(c.tag, spec, "spend")
    if lax and impl[0] != "crash":
        STATS["lax_region_diffs_in_main_stream"] += 1
        return None
    kind = "crash" if impl[0] == "crash" else "verdict"
    return {"kind": kind, "level": "spend", "impl": _show(impl), "spec": _show(spec), "flags": flag_names(c.flags),
            "sigs": [x.hex() for x in sigs][:4]}


def chk_lax(var, c: SpendCase):
    """informational only"""
    spec = spec_verify([c])[0]
    impl = impl_verify(c)
    LAX_STATS["cases"] += 1
    d = LAX_STATS["by_variant"].setdefault(var, {"agree": 0, "differ": 0, "crash": 0})
    if impl[0] == "crash":
        LAX_STATS["crash"] += 1
        d["crash"] += 1
        return {"kind": "crash", "level": "spend-lax", "impl": _show(impl), "spec": _show(spec), "flags": flag_names(c.flags)}
    if spec[0] == impl[0]:
        LAX_STATS["agree"] += 1
        d["agree"] += 1
    else:
        LAX_STATS["differ"] += 1
        d["differ"] += 1
        if var not in KNOWN_LAX_SHAPES:
            # the open finding `lax-der-parser` is these two shapes and nothing else: any other lax-DER shape on which
            # pycoin and Core's lax parser part ways is a new violation (seed C03-e1: non-minimal length octets refused)
            return {"kind": "verdict", "level": "spend-lax", "variant": var, "impl": _show(impl), "spec": _show(spec),
                    "flags": flag_names(c.flags)}
    return None


# the signature shapes of the open finding lax-der-parser (KNOWN_FINDINGS.txt): a wrong SEQUENCE length octet and the 30 80
# indefinite form.  Measured on the unchanged tree: every other generated lax shape agrees with Core's lax parser.
KNOWN_LAX_SHAPES = {"seq_len_wrong", "long_form_zero_len"}


def lax_report():
    return dict(LAX_STATS)


def stats_report():
    r = runner()
    d = dict(STATS)
    d.update({"checksig_oracle_calls": r.checksig_calls, "checksig_true": r.checksig_true, "oracle_calls": r.oracle_calls})
    return d


def chk_vectors():
    rep = validate_spec_on_vectors()
    if rep["failures"] or rep["not_run"]:
        f = (rep["failures"] + rep["not_run"])[0]
        f = {k: v for k, v in f.items() if k != "case"}
        return {"kind": "spec-vector", "detail": "the extracted spec disagrees with Core's vectors", "first": f,
                "n": len(rep["failures"])}
    return None


def vector_differential():
    """the REAL implementation on Core's vectors, against the spec (redundant with /repo's own tests, kept as a
    cheap sanity tie between the two sides)"""
    for idx, c, expected, comment in script_test_vectors():
        c.tag = "script_tests/%d" % idx
        yield c


def _child_rng(rng, label):
    import random
    return random.Random(int.from_bytes(hashlib.sha256((label + repr(rng.getstate())).encode()).digest()[:16], "big"))


def _mixed_prop_case(c):
    if isinstance(c, EvalCase):
        return PropCase("eval", c.to_json(), (lambda c=c: chk_eval(c)))
    return PropCase("spend", c.to_json(), (lambda c=c: chk_spend(c)))


def prop_cases(rng, tier):
    yield PropCase("spec_vectors", {}, chk_vectors)
    for c in vector_differential():
        yield PropCase("spend", c.to_json(), (lambda c=c: chk_spend(c)))
    # several signature checks in one script: its own random stream (derived from the state of rng without drawing from
    # it, so the streams of the other generators are what they were); the deterministic plans come early in both tiers,
    # the thorough tier's random volume after the ordinary spends
    mc_rng = _child_rng(rng, "multi-check")
    for c in multi_check_cases(mc_rng, tier, "all" if tier == "quick" else "core"):
        yield _mixed_prop_case(c)
    for c in eval_cases(rng, tier):
        yield PropCase("eval", c.to_json() if len(c.stack) < 50 and len(c.script) < 2000 else _compact_json(c), (lambda c=c: chk_eval(c)))
    for c in spend_cases(rng, tier):
        yield PropCase("spend", c.to_json(), (lambda c=c: chk_spend(c)))
        for e in derived_eval_cases(c):
            yield PropCase("eval", e.to_json(), (lambda e=e: chk_eval(e)))
    if tier != "quick":
        for c in multi_check_cases(mc_rng, tier, "random"):
            yield _mixed_prop_case(c)
    for c in list(cms_opcount_cases(rng, tier)) + list(junk_sig_batches(rng, tier)):
        if isinstance(c, EvalCase):
            yield PropCase("eval", c.to_json(), (lambda c=c: chk_eval(c)))
        else:
            yield PropCase("spend", c.to_json(), (lambda c=c: chk_spend(c)))
    for var, c in lax_cases(rng, tier):
        yield PropCase("lax", dict(c.to_json(), variant=var), (lambda var=var, c=c: chk_lax(var, c)))


def _compact_json(c: EvalCase):
    """big regular cases: run-length form of script and stack"""
    d = c.to_json()
    d["script"] = _rle(c.script)
    d["stack"] = [[x.hex(), 1] for x in c.stack] if len(c.stack) < 50 else _rle_list(c.stack)
    d["compact"] = True
    return d


def _rle(b: bytes):
    out = []
    for x in b:
        if out and out[-1][0] == x and True:
            out[-1][1] += 1
        else:
            out.append([x, 1])
    return out


def _unrle(l):
    return b"".join(bytes([x]) * n for x, n in l)


def _rle_list(items):
    out = []
    for x in items:
        h = x.hex()
        if out and out[-1][0] == h:
            out[-1][1] += 1
        else:
            out.append([h, 1])
    return out


def _eval_from_json(d):
    if d.get("compact"):
        d = dict(d)
        d["script"] = _unrle(d["script"]).hex()
        st = []
        for h, n in d["stack"]:
            st += [h] * n
        d["stack"] = st
    return EvalCase.from_json(d)


def replay_input(check, inp):
    if check == "eval":
        return chk_eval(_eval_from_json(inp))
    if check == "spend":
        return chk_spend(SpendCase.from_json(inp))
    if check == "lax":
        return chk_lax(inp.get("variant", "?"), SpendCase.from_json(inp))
    if check == "spec_vectors":
        return chk_vectors()
    return {"kind": "unknown-check"}


# ---- known findings ------------------------------------------------------------------------------
# The only listed finding is the lax-DER region (informational stream, never yields a failure), so no failure of
# the eval / spend checks is attributable to a known finding: every difference is a VIOLATION.
# (cltv-csv-reencodes-operand, initial-stack-over-1000 and low-s-overflowed-scalar were fixed in /repo by
# 10542fa, b1c8714 and 5ddfba8; their predicates were removed so that a regression is reported.)
def classify(pc, r):
    return None


def _replay_lax():
    """a valid signature whose DER sequence length byte is off by one, no DER flag: Core's lax parser accepts it"""
    rng = rng_for(0, "C03", "replay-lax")
    for _ in range(20):
        c = build_spend(rng, "p2pk", ["seq_len_wrong"], 0, "none")
        spec, impl = spec_verify([c])[0], impl_verify(c)
        if spec[0] == "ok" and impl[0] != "ok":
            return {"kind": "verdict", "level": "spend-lax", "impl": _show(impl), "spec": _show(spec), "case": c.to_json()}
    return None


KNOWN_REPLAYS = {
    "lax-der-parser": _replay_lax,
}


def search(rng, tier, disagreements, known_ids):
    """after a proof/correspondence break: look for an input on which pycoin and the spec differ.
    Neighbourhood first: disagreeing driver lines of the form `eval ...` / `verify ...` (either driver) are re-run
    as differential cases, together with single-opcode perturbations; then the generic generator."""
    cands = []
    for d in disagreements[:60]:
        toks = d.get("case", "").split(" ")
        try:
            if toks[0] == "eval" and len(toks) >= 8:
                fl = int(toks[1][1:], 16)
                tx = SynTx(int(toks[3][1:], 16), [[b"\x11" * 32, 0, b"", int(toks[5][1:], 16), []]], [[0, b""]], int(toks[4][1:], 16))
                script = bytes.fromhex(toks[6][1:])
                body = toks[7][1:-1]
                st = [bytes.fromhex(t[1:]) for t in body.split(",")] if body else []
                base = EvalCase(fl, toks[2], script, st, tx, 0, 0, "search")
                cands.append(base)
                for f2 in (0, fl ^ FL["MINIMALDATA"], close_flags(ALL_FLAGS)):
                    cands.append(EvalCase(f2, toks[2], script, st, tx, 0, 0, "search"))
                for k in range(min(len(script), 12)):
                    cands.append(EvalCase(fl, toks[2], script[:k] + script[k + 1:], st, tx, 0, 0, "search"))
                for extra in NUM_OPERANDS[:12]:
                    cands.append(EvalCase(fl, toks[2], script, st + [extra], tx, 0, 0, "search"))
            elif toks[0] == "verify" and len(toks) >= 8:
                fl = int(toks[1][1:], 16)
                body = toks[7][1:-1]
                wit = [bytes.fromhex(t[1:]) for t in body.split(",")] if body else []
                tx = SynTx(int(toks[2][1:], 16), [[b"\x11" * 32, 0, bytes.fromhex(toks[5][1:]), int(toks[4][1:], 16), wit]],
                           [[0, b""]], int(toks[3][1:], 16))
                cands.append(SpendCase(fl, tx, 0, bytes.fromhex(toks[6][1:]), 0, "search"))
        except Exception:
            continue
    for c in cands:
        name = "eval" if isinstance(c, EvalCase) else "spend"
        pc = PropCase(name, c.to_json(), None)
        try:
            r = chk_eval(c) if name == "eval" else chk_spend(c)
        except Exception as e:  # noqa
            r = {"kind": "raises", "detail": str(e)}
        if r is not None and classify(pc, r) not in known_ids:
            return {"check": name, "input": pc.inp, "failure": r}
    for pc in prop_cases(rng, tier):
        if pc.name in ("spec_vectors", "lax"):
            continue
        try:
            r = pc.thunk()
        except Exception as e:  # noqa
            r = {"kind": "raises", "detail": str(e)}
        if r is not None and classify(pc, r) not in known_ids:
            return {"check": pc.name, "input": pc.inp, "failure": r}
    return None


# ================================================================================================
# build helper and stand-alone self test
# ================================================================================================
_DRIVER_READY = False


def ensure_spec_driver():
    """build Extract/ExtractC03spec.vo and ml/driver_c03spec under the common build lock (idempotent).
    harness/c03.py may instead list "Extract/ExtractC03spec.vo" in EXTRA_TARGETS and call build_driver itself."""
    global _DRIVER_READY
    if _DRIVER_READY:
        return
    import fcntl
    os.makedirs(ML, exist_ok=True)
    with open(LOCK, "w") as lk:
        fcntl.flock(lk, fcntl.LOCK_EX)
        ensure_makefile()
        rc, out = sh("timeout 1500 make -j8 Extract/ExtractC03spec.vo", cwd=COQ, timeout=1600)
        if rc != 0:
            raise RuntimeError("ExtractC03spec.vo does not build: " + out[-1500:])
        rc, out = build_driver(DRIVER_SPEC)
        if rc != 0:
            raise RuntimeError("driver_c03spec does not build: " + out[-1500:])
    _DRIVER_READY = True


_orig_start = SpecRunner.start


def _start_with_build(self):
    ensure_spec_driver()
    _orig_start(self)


SpecRunner.start = _start_with_build


def self_test(tier="quick", seed=0):
    """what ./check C03 does with this module's share: vectors through the spec, the differential, known-finding
    replays.  Returns 0 when every difference is a listed finding."""
    import time
    t0 = time.time()
    rep = validate_spec_on_vectors()
    print("[C03spec] Core vectors through the extracted spec: script_tests %d/%d (error class %d/%d), tx_valid %d/%d, "
          "tx_invalid %d/%d (%d by CheckTransaction only), not run: %d" % (
              rep["script_tests_pass"], rep["script_tests"], rep["script_tests_errclass_pass"], rep["script_tests"],
              rep["tx_valid_pass"], rep["tx_valid"], rep["tx_invalid_pass"], rep["tx_invalid"],
              rep["tx_invalid_by_checktransaction"], len(rep["not_run"])))
    known = load_known("C03")
    n, hits, new = 0, {}, []
    hist = {}
    for pc in prop_cases(rng_for(seed, "C03", "prop"), tier):
        n += 1
        hist[pc.name] = hist.get(pc.name, 0) + 1
        try:
            r = pc.thunk()
        except Exception as e:  # noqa
            r = {"kind": "harness-exception", "detail": "%s: %s" % (type(e).__name__, e)}
        if r is not None:
            k = classify(pc, r)
            if k in known:
                hits[k] = hits.get(k, 0) + 1
            else:
                new.append((pc, r, k))
    print("[C03spec] differential: %d checks %s, known-finding hits %s, unexplained %d, %.1fs" % (n, hist, hits, len(new), time.time() - t0))
    print("[C03spec] stats %s" % json.dumps(stats_report()))
    print("[C03spec] lax-DER stream (informational): %s" % json.dumps({k: v for k, v in lax_report().items() if k != "by_variant"}))
    for kid, text in sorted(known.items()):
        rp = KNOWN_REPLAYS.get(kid)
        still = rp() if rp else None
        print(("KNOWN-FINDING: property=C03 id=%s %s" % (kid, text[:160])) if still else "[C03spec] note: listed finding %s no longer reproduces" % kid)
    if new or rep["failures"] or rep["not_run"]:
        for pc, r, k in new[:5]:
            print("VIOLATION property=C03 check=%s input=%s failure=%s" % (pc.name, json.dumps(pc.inp)[:700], json.dumps(r)[:500]))
        for f in rep["failures"][:5]:
            print("SPEC-VECTOR-FAILURE", json.dumps({k: v for k, v in f.items() if k != "case"})[:500])
        return 1
    return 0


if __name__ == "__main__":
    import sys
    sys.exit(self_test(sys.argv[1] if len(sys.argv) > 1 else "quick", int(os.environ.get("VERIF_SEED", "0") or 0)))
