"""C03 (spec half) — the extracted Bitcoin Core interpreter (coq/Spec/VMcore.v, driver_c03spec) and the
implementation-vs-spec differential.

Exports (used by harness/c03.py, owned by the coordinator):
  spec_eval(cases) / spec_verify(cases)        batch runs of the extracted spec
  prop_cases(rng, tier)                        PropCase stream: REAL pycoin vs spec (eval level and spend level)
  classify / KNOWN_REPLAYS / replay_input / search
  validate_spec_on_vectors()                   Core's own script_tests.json / tx_valid.json / tx_invalid.json
  lax_report()                                 informational counts of the lax-DER stream

Case formats
  eval case  : EvalCase(flags, sv, script, stack, tx, nin, amount)   sv in "B","W"; stack top LAST
  spend case : SpendCase(flags, tx, nin, script_pubkey, amount)      scriptSig / witness are tx.vin[nin]'s
  results    : ("ok", [stack items]) | ("ok", None) for verify | ("fail", CORE_ERROR_NAME)

The checksig oracle of the spec is answered HERE, independently of pycoin's checker: a Core-style
SignatureHash (legacy serializer / BIP143) over the synthetic transaction's raw fields, Core's lax DER
parser, Core's public-key parser, and ECDSA verification (pycoin's secp256k1 generator is used for the
curve arithmetic only).
"""
from __future__ import annotations
import atexit, hashlib, json, os, re, subprocess
from common import *          # noqa: F401,F403  (PropCase, ML, REPO, rng_for ...)

from pycoin.satoshi import flags as PF
from pycoin.ecdsa.secp256k1 import secp256k1_generator as _G

DRIVER_SPEC = "C03spec"

# ------------------------------------------------------------------------------------------------
# flags: bit positions are pycoin's (the flags word is pycoin's API); names are Core's
FLAG_NAMES = ["P2SH", "STRICTENC", "DERSIG", "LOW_S", "NULLDUMMY", "SIGPUSHONLY", "MINIMALDATA",
              "DISCOURAGE_UPGRADABLE_NOPS", "CLEANSTACK", "CHECKLOCKTIMEVERIFY", "CHECKSEQUENCEVERIFY", "WITNESS",
              "DISCOURAGE_UPGRADABLE_WITNESS_PROGRAM", "MINIMALIF", "NULLFAIL", "WITNESS_PUBKEYTYPE"]
FL = {n: getattr(PF, "VERIFY_" + n) for n in FLAG_NAMES}
ALL_FLAGS = 0
for _v in FL.values():
    ALL_FLAGS |= _v
DER_FLAGS = FL["DERSIG"] | FL["LOW_S"] | FL["STRICTENC"]


def parse_flags(s: str) -> int:
    v = 0
    for f in s.split(","):
        f = f.strip()
        if f and f != "NONE":
            v |= FL[f]
    return v


def flag_names(v: int) -> str:
    return ",".join(n for n in FLAG_NAMES if v & FL[n]) or "NONE"


def close_flags(v: int) -> int:
    """close a flag word under Core's requirements: WITNESS => P2SH, CLEANSTACK => P2SH and WITNESS"""
    if v & FL["CLEANSTACK"]:
        v |= FL["WITNESS"] | FL["P2SH"]
    if v & FL["WITNESS"]:
        v |= FL["P2SH"]
    return v


# ------------------------------------------------------------------------------------------------
# synthetic transactions (raw fields only) and Core-style serialization
def sha256(b):
    return hashlib.sha256(b).digest()


def dsha256(b):
    return hashlib.sha256(hashlib.sha256(b).digest()).digest()


def ripemd160(b):
    h = hashlib.new("ripemd160")
    h.update(b)
    return h.digest()


def hash160(b):
    return ripemd160(sha256(b))


def compact_size(n: int) -> bytes:
    if n < 253:
        return bytes([n])
    if n <= 0xFFFF:
        return b"\xfd" + n.to_bytes(2, "little")
    if n <= 0xFFFFFFFF:
        return b"\xfe" + n.to_bytes(4, "little")
    return b"\xff" + n.to_bytes(8, "little")


def ser_string(b: bytes) -> bytes:
    return compact_size(len(b)) + b


class SynTx:
    """version (unsigned 32), vin = [[prev_hash(32 bytes as serialized), prev_index, script_sig, sequence, witness]],
    vout = [[value, script]], locktime"""
    __slots__ = ("version", "vin", "vout", "locktime")

    def __init__(self, version, vin, vout, locktime):
        self.version = version
        self.vin = [list(i) for i in vin]
        self.vout = [list(o) for o in vout]
        self.locktime = locktime

    def serialize_legacy(self) -> bytes:
        out = [self.version.to_bytes(4, "little"), compact_size(len(self.vin))]
        for h, n, s, q, _w in self.vin:
            out.append(h + n.to_bytes(4, "little") + ser_string(s) + q.to_bytes(4, "little"))
        out.append(compact_size(len(self.vout)))
        for v, s in self.vout:
            out.append((v & 0xFFFFFFFFFFFFFFFF).to_bytes(8, "little") + ser_string(s))
        out.append(self.locktime.to_bytes(4, "little"))
        return b"".join(out)

    def txid(self) -> bytes:
        return dsha256(self.serialize_legacy())

    def to_json(self):
        return {"version": self.version, "locktime": self.locktime,
                "vin": [[h.hex(), n, s.hex(), q, [w.hex() for w in wit]] for h, n, s, q, wit in self.vin],
                "vout": [[v, s.hex()] for v, s in self.vout]}

    @staticmethod
    def from_json(d):
        return SynTx(d["version"], [[bytes.fromhex(h), n, bytes.fromhex(s), q, [bytes.fromhex(w) for w in wit]]
                                    for h, n, s, q, wit in d["vin"]],
                     [[v, bytes.fromhex(s)] for v, s in d["vout"]], d["locktime"])


def parse_tx(raw: bytes) -> SynTx:
    """independent parser of the (BIP144) wire format, for tx_valid.json / tx_invalid.json"""
    pos = 0

    def rd(n):
        nonlocal pos
        b = raw[pos:pos + n]
        if len(b) != n:
            raise ValueError("short tx")
        pos += n
        return b

    def rcs():
        f = rd(1)[0]
        if f < 253:
            return f
        return int.from_bytes(rd({253: 2, 254: 4, 255: 8}[f]), "little")

    version = int.from_bytes(rd(4), "little")
    n_in = rcs()
    segwit = False
    if n_in == 0:
        flag = rd(1)[0]
        if flag != 0:
            segwit = True
            n_in = rcs()
        else:       # really no inputs and no outputs
            pos -= 1
    vin = []
    for _ in range(n_in):
        h = rd(32)
        n = int.from_bytes(rd(4), "little")
        s = rd(rcs())
        q = int.from_bytes(rd(4), "little")
        vin.append([h, n, s, q, []])
    vout = []
    for _ in range(rcs()):
        v = int.from_bytes(rd(8), "little")
        vout.append([v, rd(rcs())])
    if segwit:
        for i in range(n_in):
            vin[i][4] = [rd(rcs()) for _ in range(rcs())]
    lt = int.from_bytes(rd(4), "little")
    return SynTx(version, vin, vout, lt)


# ---- script decoding as Core's GetOp (used by the sighash serializer; NOT pycoin's get_opcode)
OP_CODESEPARATOR = 0xAB


def get_op(script: bytes, pc: int):
    """returns (ok, opcode, data, new_pc); on failure new_pc is where Core's iterator stops"""
    if pc >= len(script):
        return False, 0xFF, b"", pc
    op = script[pc]
    pc += 1
    if op <= 0x4E:
        if op < 0x4C:
            n = op
        elif op == 0x4C:
            if len(script) - pc < 1:
                return False, 0xFF, b"", pc
            n = script[pc]
            pc += 1
        elif op == 0x4D:
            if len(script) - pc < 2:
                return False, 0xFF, b"", pc
            n = int.from_bytes(script[pc:pc + 2], "little")
            pc += 2
        else:
            if len(script) - pc < 4:
                return False, 0xFF, b"", pc
            n = int.from_bytes(script[pc:pc + 4], "little")
            pc += 4
        if len(script) - pc < n:
            return False, 0xFF, b"", pc
        return True, op, script[pc:pc + n], pc + n
    return True, op, b"", pc


def serialize_script_code_legacy(code: bytes) -> bytes:
    """CTransactionSignatureSerializer::SerializeScriptCode: OP_CODESEPARATORs at opcode boundaries dropped"""
    nsep = 0
    pc = 0
    while True:
        ok, op, _, pc = get_op(code, pc)
        if not ok:
            break
        if op == OP_CODESEPARATOR:
            nsep += 1
    out = [compact_size(len(code) - nsep)]
    begin = 0
    pc = 0
    while True:
        ok, op, _, pc = get_op(code, pc)
        if not ok:
            break
        if op == OP_CODESEPARATOR:
            out.append(code[begin:pc - 1])
            begin = pc
    if begin != len(code):
        out.append(code[begin:pc])
    return b"".join(out)


SIGHASH_NONE, SIGHASH_SINGLE, SIGHASH_ANYONECANPAY = 2, 3, 0x80
ONE = b"\x01" + b"\x00" * 31


def sighash_legacy(code: bytes, tx: SynTx, nin: int, hashtype: int) -> bytes:
    if nin >= len(tx.vin):
        return ONE
    base = hashtype & 0x1F
    if base == SIGHASH_SINGLE and nin >= len(tx.vout):
        return ONE
    acp = bool(hashtype & SIGHASH_ANYONECANPAY)
    out = [tx.version.to_bytes(4, "little")]
    idxs = [nin] if acp else list(range(len(tx.vin)))
    out.append(compact_size(len(idxs)))
    for i in idxs:
        h, n, _s, q, _w = tx.vin[i]
        out.append(h + n.to_bytes(4, "little"))
        if i != nin:
            out.append(b"\x00")
            out.append((0 if base in (SIGHASH_NONE, SIGHASH_SINGLE) else q).to_bytes(4, "little"))
        else:
            out.append(serialize_script_code_legacy(code))
            out.append(q.to_bytes(4, "little"))
    n_out = 0 if base == SIGHASH_NONE else (nin + 1 if base == SIGHASH_SINGLE else len(tx.vout))
    out.append(compact_size(n_out))
    for j in range(n_out):
        if base == SIGHASH_SINGLE and j != nin:
            out.append(b"\xff" * 8 + b"\x00")
        else:
            v, s = tx.vout[j]
            out.append((v & 0xFFFFFFFFFFFFFFFF).to_bytes(8, "little") + ser_string(s))
    out.append(tx.locktime.to_bytes(4, "little"))
    out.append(hashtype.to_bytes(4, "little"))
    return dsha256(b"".join(out))


def sighash_bip143(code: bytes, tx: SynTx, nin: int, hashtype: int, amount: int) -> bytes:
    base = hashtype & 0x1F
    acp = bool(hashtype & SIGHASH_ANYONECANPAY)
    z = b"\x00" * 32
    hp = z if acp else dsha256(b"".join(h + n.to_bytes(4, "little") for h, n, _s, _q, _w in tx.vin))
    hs = z if (acp or base in (SIGHASH_NONE, SIGHASH_SINGLE)) else dsha256(
        b"".join(q.to_bytes(4, "little") for _h, _n, _s, q, _w in tx.vin))
    if base not in (SIGHASH_NONE, SIGHASH_SINGLE):
        ho = dsha256(b"".join((v & 0xFFFFFFFFFFFFFFFF).to_bytes(8, "little") + ser_string(s) for v, s in tx.vout))
    elif base == SIGHASH_SINGLE and nin < len(tx.vout):
        v, s = tx.vout[nin]
        ho = dsha256((v & 0xFFFFFFFFFFFFFFFF).to_bytes(8, "little") + ser_string(s))
    else:
        ho = z
    h, n, _s, q, _w = tx.vin[nin]
    pre = (tx.version.to_bytes(4, "little") + hp + hs + h + n.to_bytes(4, "little") + ser_string(code)
           + (amount & 0xFFFFFFFFFFFFFFFF).to_bytes(8, "little") + q.to_bytes(4, "little") + ho
           + tx.locktime.to_bytes(4, "little") + hashtype.to_bytes(4, "little"))
    return dsha256(pre)


# ---- keys and signatures as Core / libsecp256k1 parse them
P = 2 ** 256 - 2 ** 32 - 977
N_ORDER = 0xFFFFFFFFFFFFFFFFFFFFFFFFFFFFFFFEBAAEDCE6AF48A03BBFD25E8CD0364141


def parse_pubkey(k: bytes):
    """CPubKey(vch) + IsValid + secp256k1_ec_pubkey_parse; None = unusable"""
    if len(k) == 0:
        return None
    h = k[0]
    want = 33 if h in (2, 3) else (65 if h in (4, 6, 7) else 0)
    if want == 0 or len(k) != want:
        return None
    x = int.from_bytes(k[1:33], "big")
    if x >= P:
        return None
    if want == 33:
        y2 = (pow(x, 3, P) + 7) % P
        y = pow(y2, (P + 1) // 4, P)
        if (y * y) % P != y2:
            return None
        if (y & 1) != (h & 1):
            y = P - y
        return (x, y)
    y = int.from_bytes(k[33:65], "big")
    if y >= P:
        return None
    if (y * y - (pow(x, 3, P) + 7)) % P != 0:
        return None
    if h in (6, 7) and (y & 1) != (h & 1):
        return None
    return (x, y)


def parse_der_lax(sig: bytes):
    """ecdsa_signature_parse_der_lax of Core's pubkey.cpp; returns (r, s) (zeroed on overflow) or None"""
    n = len(sig)
    pos = 0
    if pos == n or sig[pos] != 0x30:
        return None
    pos += 1
    if pos == n:
        return None
    lenbyte = sig[pos]
    pos += 1
    if lenbyte & 0x80:
        lenbyte -= 0x80
        if pos + lenbyte > n:
            return None
        pos += lenbyte
    vals = []
    for _ in range(2):
        if pos == n or sig[pos] != 0x02:
            return None
        pos += 1
        if pos == n:
            return None
        lenbyte = sig[pos]
        pos += 1
        if lenbyte & 0x80:
            lenbyte -= 0x80
            if pos + lenbyte > n:
                return None
            while lenbyte > 0 and sig[pos] == 0:
                pos += 1
                lenbyte -= 1
            if lenbyte >= 8:
                return None
            ln = 0
            while lenbyte > 0:
                ln = (ln << 8) + sig[pos]
                pos += 1
                lenbyte -= 1
        else:
            ln = lenbyte
        if ln > n - pos:
            return None
        vals.append(sig[pos:pos + ln])
        pos += ln
    overflow = False
    ints = []
    for v in vals:
        v = v.lstrip(b"\x00")
        if len(v) > 32:
            overflow = True
        i = int.from_bytes(v, "big")
        if i >= N_ORDER:
            overflow = True
        ints.append(i)
    if overflow:
        return (0, 0)
    return (ints[0], ints[1])


def is_strict_der(sig: bytes) -> bool:
    """IsValidSignatureEncoding (whole blob incl. hash type byte)"""
    ls = len(sig)
    if ls < 9 or ls > 73 or sig[0] != 0x30 or sig[1] != ls - 3:
        return False
    lr = sig[3]
    if 5 + lr >= ls:
        return False
    lsn = sig[5 + lr]
    if lr + lsn + 7 != ls or sig[2] != 2 or lr == 0 or sig[4] & 0x80:
        return False
    if lr > 1 and sig[4] == 0 and not sig[5] & 0x80:
        return False
    if sig[lr + 4] != 2 or lsn == 0 or sig[lr + 6] & 0x80:
        return False
    if lsn > 1 and sig[lr + 6] == 0 and not sig[lr + 7] & 0x80:
        return False
    return True


def ecdsa_verify(pub, e: int, r: int, s: int) -> bool:
    if not (1 <= r < N_ORDER and 1 <= s < N_ORDER):
        return False
    try:
        return bool(_G.verify(pub, e, (r, s)))
    except Exception:
        return False


def core_checksig(sig: bytes, pubkey: bytes, code: bytes, sv: str, tx: SynTx, nin: int, amount: int) -> bool:
    """TransactionSignatureChecker::CheckSig"""
    pub = parse_pubkey(pubkey)
    if pub is None or len(sig) == 0:
        return False
    hashtype = sig[-1]
    rs = parse_der_lax(sig[:-1])
    if rs is None:
        return False
    if sv == "W":
        digest = sighash_bip143(code, tx, nin, hashtype, amount)
    else:
        digest = sighash_legacy(code, tx, nin, hashtype)
    return ecdsa_verify(pub, int.from_bytes(digest, "big"), rs[0], rs[1])


# ------------------------------------------------------------------------------------------------
# cases
DEFAULT_TX_JSON = {"version": 1, "locktime": 0, "vin": [["11" * 32, 0, "", 0xFFFFFFFF, []]], "vout": [[0, ""]]}


class EvalCase:
    __slots__ = ("flags", "sv", "script", "stack", "tx", "nin", "amount", "tag")

    def __init__(self, flags, sv, script, stack=(), tx=None, nin=0, amount=0, tag=""):
        self.flags, self.sv, self.script, self.stack = flags, sv, bytes(script), [bytes(x) for x in stack]
        self.tx = tx if tx is not None else SynTx.from_json(DEFAULT_TX_JSON)
        self.nin, self.amount, self.tag = nin, amount, tag

    def line(self):
        tx = self.tx
        return "eval %s %s %s %s %s %s %s" % (arg(self.flags), self.sv, arg(tx.version), arg(tx.locktime),
                                              arg(tx.vin[self.nin][3]), arg(self.script), arg(self.stack))

    def to_json(self):
        return {"flags": self.flags, "flag_names": flag_names(self.flags), "sv": self.sv, "script": self.script.hex(),
                "stack": [x.hex() for x in self.stack], "tx": self.tx.to_json(), "nin": self.nin, "amount": self.amount,
                "tag": self.tag}

    @staticmethod
    def from_json(d):
        return EvalCase(d["flags"], d["sv"], bytes.fromhex(d["script"]), [bytes.fromhex(x) for x in d["stack"]],
                        SynTx.from_json(d["tx"]), d["nin"], d["amount"], d.get("tag", ""))


class SpendCase:
    __slots__ = ("flags", "tx", "nin", "script_pubkey", "amount", "tag")

    def __init__(self, flags, tx, nin, script_pubkey, amount=0, tag=""):
        self.flags, self.tx, self.nin, self.script_pubkey, self.amount, self.tag = flags, tx, nin, bytes(script_pubkey), amount, tag

    def line(self):
        tx = self.tx
        h, n, ssig, seq, wit = tx.vin[self.nin]
        return "verify %s %s %s %s %s %s %s" % (arg(self.flags), arg(tx.version), arg(tx.locktime), arg(seq),
                                                arg(bytes(ssig)), arg(self.script_pubkey), arg([bytes(w) for w in wit]))

    def to_json(self):
        return {"flags": self.flags, "flag_names": flag_names(self.flags), "tx": self.tx.to_json(), "nin": self.nin,
                "script_pubkey": self.script_pubkey.hex(), "amount": self.amount, "tag": self.tag}

    @staticmethod
    def from_json(d):
        return SpendCase(d["flags"], SynTx.from_json(d["tx"]), d["nin"], bytes.fromhex(d["script_pubkey"]), d["amount"],
                         d.get("tag", ""))


# ------------------------------------------------------------------------------------------------
# runner for the extracted spec: a persistent process; oracles answered here
class SpecRunner:
    def __init__(self):
        self.p = None
        self.oracle_calls = 0
        self.checksig_calls = 0
        self.checksig_true = 0
        self.cur = None            # case being evaluated (for the checksig oracle)
        self.lax_used = False      # a non-empty, non-strict-DER signature reached CheckSig without a DER flag
        self.sigs_seen = []

    def start(self):
        exe = os.path.join(ML, "driver_" + DRIVER_SPEC.lower())
        self.p = subprocess.Popen(["bash", "-c", "ulimit -s unlimited 2>/dev/null; exec " + exe],
                                  stdin=subprocess.PIPE, stdout=subprocess.PIPE, stderr=subprocess.PIPE)

    def close(self):
        if self.p is not None:
            try:
                self.p.stdin.close()
                self.p.wait(timeout=10)
            except Exception:
                self.p.kill()
            self.p = None

    def _checksig(self, blob: bytes) -> bytes:
        parts = []
        pos = 0
        for _ in range(3):
            n = int.from_bytes(blob[pos:pos + 4], "big")
            parts.append(blob[pos + 4:pos + 4 + n])
            pos += 4 + n
        sv = "W" if blob[pos] == 1 else "B"
        sig, pk, code = parts
        c = self.cur
        self.checksig_calls += 1
        self.sigs_seen.append(sig)
        if len(sig) > 0 and not is_strict_der(sig) and not (c.flags & DER_FLAGS):
            self.lax_used = True
        ok = core_checksig(sig, pk, code, sv, c.tx, c.nin, c.amount)
        if ok:
            self.checksig_true += 1
        return b"\x01" if ok else b"\x00"

    def run(self, case) -> str:
        if self.p is None:
            self.start()
        self.cur = case
        self.lax_used = False
        self.sigs_seen = []
        p = self.p
        p.stdin.write((case.line() + "\n").encode())
        p.stdin.flush()
        while True:
            r = p.stdout.readline()
            if not r:
                self.p = None
                return "!DRIVER_DIED"
            r = r.decode().rstrip("\n")
            if r.startswith("?"):
                name, _, hx = r[1:].partition(" ")
                self.oracle_calls += 1
                data = bytes.fromhex(hx.strip())
                ans = self._checksig(data) if name == "checksig" else ORACLES[name](data)
                p.stdin.write((ans.hex() + "\n").encode())
                p.stdin.flush()
            elif r.startswith("="):
                return r[1:]

    def raw(self, line: str) -> str:
        """a helper command without transaction context (find_and_delete, cast_to_bool, ...)"""
        class _L:
            flags = 0
            tx = None
            nin = 0
            amount = 0

            def line(self_inner):
                return line
        return self.run(_L())


_RUNNER = None


def runner() -> SpecRunner:
    global _RUNNER
    if _RUNNER is None:
        _RUNNER = SpecRunner()
        atexit.register(_RUNNER.close)
    return _RUNNER


def _decode(res: str, verify: bool):
    if res.startswith("!"):
        return ("fail", res[1:])
    if verify:
        return ("ok", None)
    body = res.strip()[1:-1].strip()
    return ("ok", [bytes.fromhex(t[1:]) for t in body.split()] if body else [])


def spec_eval(cases):
    """cases: iterable of EvalCase; returns [("ok", stack) | ("fail", CORE_ERROR)]"""
    r = runner()
    return [_decode(r.run(c), False) for c in cases]


def spec_verify(cases):
    """cases: iterable of SpendCase; returns [("ok", None) | ("fail", CORE_ERROR)]"""
    r = runner()
    return [_decode(r.run(c), True) for c in cases]


# ------------------------------------------------------------------------------------------------
# the implementation side
def _pycoin():
    from pycoin.symbols.btc import network
    from pycoin.coins.bitcoin.VM import BitcoinVM
    from pycoin.coins.bitcoin.SolutionChecker import BitcoinSolutionChecker
    from pycoin.coins.SolutionChecker import ScriptError
    return network, BitcoinVM, BitcoinSolutionChecker, ScriptError


def pycoin_tx(tx: SynTx, spent: dict):
    """the real pycoin Tx mirroring a SynTx; spent = {input index: (amount, script_pubkey)}"""
    network = _pycoin()[0]
    T = network.tx
    txs_in = []
    for h, n, s, q, wit in tx.vin:
        ti = T.TxIn(h, n, s, sequence=q)
        ti.witness = list(wit)
        txs_in.append(ti)
    txs_out = [T.TxOut(v, s) for v, s in tx.vout]
    t = T(tx.version, txs_in, txs_out, tx.locktime)
    unspents = []
    for i in range(len(tx.vin)):
        a, spk = spent.get(i, (0, b""))
        unspents.append(T.TxOut(a, spk))
    t.set_unspents(unspents)
    return t


_ERRNAME = None


def _errname(e):
    global _ERRNAME
    if _ERRNAME is None:
        from pycoin.satoshi import errno
        _ERRNAME = {getattr(errno, k): k for k in dir(errno) if k.isupper() and isinstance(getattr(errno, k), int)}
    try:
        return _ERRNAME.get(e.error_code(), "UNKNOWN_ERROR")
    except Exception:
        return "UNKNOWN_ERROR"


def impl_eval(c: EvalCase):
    """BitcoinVM(script, tx_context, sighash_f, flags, initial_stack).eval_script() — called the way pycoin's own
    pipeline calls it: base scripts never see MINIMALIF / WITNESS_PUBKEYTYPE and use the legacy digest, witness
    scripts keep the flags and use the BIP143 digest."""
    network, BitcoinVM, Checker, ScriptError = _pycoin()
    t = pycoin_tx(c.tx, {c.nin: (c.amount, b"")})
    chk = Checker(t)
    ctx = chk.tx_context_for_idx(c.nin)
    if c.sv == "W":
        flags = c.flags
        sighash_f = chk._make_witness_sighash_f(c.nin)
    else:
        flags = c.flags & ~(FL["MINIMALIF"] | FL["WITNESS_PUBKEYTYPE"])
        sighash_f = chk._make_sighash_f(c.nin)
    try:
        vm = BitcoinVM(c.script, ctx, sighash_f, flags, initial_stack=list(c.stack))
        st = vm.eval_script()
        return ("ok", [bytes(x) for x in st])
    except ScriptError as e:
        return ("fail", _errname(e))
    except Exception as e:  # noqa
        return ("crash", type(e).__name__ + ": " + str(e)[:120])


def impl_verify(c: SpendCase):
    network, BitcoinVM, Checker, ScriptError = _pycoin()
    t = pycoin_tx(c.tx, {c.nin: (c.amount, c.script_pubkey)})
    try:
        t.check_solution(c.nin, flags=c.flags)
        return ("ok", None)
    except ScriptError as e:
        return ("fail", _errname(e))
    except Exception as e:  # noqa
        return ("crash", type(e).__name__ + ": " + str(e)[:120])


# ------------------------------------------------------------------------------------------------
# Core's script assembly syntax (core_read.cpp ParseScript) — for the vectors
_OPNAMES = {
    0x50: "OP_RESERVED", 0x61: "OP_NOP", 0x62: "OP_VER", 0x63: "OP_IF", 0x64: "OP_NOTIF", 0x65: "OP_VERIF",
    0x66: "OP_VERNOTIF", 0x67: "OP_ELSE", 0x68: "OP_ENDIF", 0x69: "OP_VERIFY", 0x6A: "OP_RETURN",
    0x6B: "OP_TOALTSTACK", 0x6C: "OP_FROMALTSTACK", 0x6D: "OP_2DROP", 0x6E: "OP_2DUP", 0x6F: "OP_3DUP",
    0x70: "OP_2OVER", 0x71: "OP_2ROT", 0x72: "OP_2SWAP", 0x73: "OP_IFDUP", 0x74: "OP_DEPTH", 0x75: "OP_DROP",
    0x76: "OP_DUP", 0x77: "OP_NIP", 0x78: "OP_OVER", 0x79: "OP_PICK", 0x7A: "OP_ROLL", 0x7B: "OP_ROT",
    0x7C: "OP_SWAP", 0x7D: "OP_TUCK", 0x7E: "OP_CAT", 0x7F: "OP_SUBSTR", 0x80: "OP_LEFT", 0x81: "OP_RIGHT",
    0x82: "OP_SIZE", 0x83: "OP_INVERT", 0x84: "OP_AND", 0x85: "OP_OR", 0x86: "OP_XOR", 0x87: "OP_EQUAL",
    0x88: "OP_EQUALVERIFY", 0x89: "OP_RESERVED1", 0x8A: "OP_RESERVED2", 0x8B: "OP_1ADD", 0x8C: "OP_1SUB",
    0x8D: "OP_2MUL", 0x8E: "OP_2DIV", 0x8F: "OP_NEGATE", 0x90: "OP_ABS", 0x91: "OP_NOT", 0x92: "OP_0NOTEQUAL",
    0x93: "OP_ADD", 0x94: "OP_SUB", 0x95: "OP_MUL", 0x96: "OP_DIV", 0x97: "OP_MOD", 0x98: "OP_LSHIFT",
    0x99: "OP_RSHIFT", 0x9A: "OP_BOOLAND", 0x9B: "OP_BOOLOR", 0x9C: "OP_NUMEQUAL", 0x9D: "OP_NUMEQUALVERIFY",
    0x9E: "OP_NUMNOTEQUAL", 0x9F: "OP_LESSTHAN", 0xA0: "OP_GREATERTHAN", 0xA1: "OP_LESSTHANOREQUAL",
    0xA2: "OP_GREATERTHANOREQUAL", 0xA3: "OP_MIN", 0xA4: "OP_MAX", 0xA5: "OP_WITHIN", 0xA6: "OP_RIPEMD160",
    0xA7: "OP_SHA1", 0xA8: "OP_SHA256", 0xA9: "OP_HASH160", 0xAA: "OP_HASH256", 0xAB: "OP_CODESEPARATOR",
    0xAC: "OP_CHECKSIG", 0xAD: "OP_CHECKSIGVERIFY", 0xAE: "OP_CHECKMULTISIG", 0xAF: "OP_CHECKMULTISIGVERIFY",
    0xB0: "OP_NOP1", 0xB1: "OP_CHECKLOCKTIMEVERIFY", 0xB2: "OP_CHECKSEQUENCEVERIFY", 0xB3: "OP_NOP4",
    0xB4: "OP_NOP5", 0xB5: "OP_NOP6", 0xB6: "OP_NOP7", 0xB7: "OP_NOP8", 0xB8: "OP_NOP9", 0xB9: "OP_NOP10",
    0xFF: "OP_INVALIDOPCODE",
}
_OPMAP = {}
for _k, _n in _OPNAMES.items():
    _OPMAP[_n] = _k
    _OPMAP[_n[3:]] = _k
_OPMAP.update({"OP_NOP2": 0xB1, "NOP2": 0xB1, "OP_NOP3": 0xB2, "NOP3": 0xB2})


def scriptnum(v: int) -> bytes:
    """CScriptNum::serialize"""
    if v == 0:
        return b""
    neg = v < 0
    a = abs(v)
    out = bytearray()
    while a:
        out.append(a & 0xFF)
        a >>= 8
    if out[-1] & 0x80:
        out.append(0x80 if neg else 0)
    elif neg:
        out[-1] |= 0x80
    return bytes(out)


def push_raw(d: bytes) -> bytes:
    """CScript << vector: the plain push encoding (not BIP62-minimal for 1-byte values)"""
    n = len(d)
    if n < 0x4C:
        return bytes([n]) + d
    if n <= 0xFF:
        return b"\x4c" + bytes([n]) + d
    if n <= 0xFFFF:
        return b"\x4d" + n.to_bytes(2, "little") + d
    return b"\x4e" + n.to_bytes(4, "little") + d


def push_int(n: int) -> bytes:
    """CScript << int64"""
    if n == -1 or 1 <= n <= 16:
        return bytes([n + 0x50])
    if n == 0:
        return b"\x00"
    return push_raw(scriptnum(n))


def push_min(d: bytes) -> bytes:
    """the BIP62-minimal push of d"""
    if len(d) == 0:
        return b"\x00"
    if len(d) == 1 and 1 <= d[0] <= 16:
        return bytes([0x50 + d[0]])
    if len(d) == 1 and d[0] == 0x81:
        return b"\x4f"
    return push_raw(d)


def parse_script(s: str) -> bytes:
    out = bytearray()
    for w in re.split(r"[ \t\n]+", s):
        if not w:
            continue
        if re.fullmatch(r"-?[0-9]+", w):
            out += push_int(int(w))
        elif w.startswith("0x") and len(w) > 2 and re.fullmatch(r"[0-9a-fA-F]+", w[2:]) and len(w) % 2 == 0:
            out += bytes.fromhex(w[2:])
        elif len(w) >= 2 and w[0] == "'" and w[-1] == "'":
            out += push_raw(w[1:-1].encode("latin1"))
        elif w in _OPMAP:
            out.append(_OPMAP[w])
        else:
            raise ValueError("script parse error: %r" % w)
    return bytes(out)


# ------------------------------------------------------------------------------------------------
# validation of the SPEC on Core's own vectors (validates the transcription; proves nothing)
VEC_DIR = os.path.join(REPO, "tests", "btc", "data")


def _script_test_spend(script_sig: bytes, script_pubkey: bytes, witness, amount: int, flags: int) -> SpendCase:
    credit = SynTx(1, [[b"\x00" * 32, 0xFFFFFFFF, b"\x00\x00", 0xFFFFFFFF, []]], [[amount, script_pubkey]], 0)
    spend = SynTx(1, [[credit.txid(), 0, script_sig, 0xFFFFFFFF, list(witness)]], [[amount, b""]], 0)
    return SpendCase(flags, spend, 0, script_pubkey, amount)


def script_test_vectors():
    """yields (index, SpendCase, expected error name or "OK", comment)"""
    data = json.load(open(os.path.join(VEC_DIR, "script_tests.json")))
    idx = 0
    for row in data:
        if len(row) < 4:
            continue
        wit, amount = [], 0
        if isinstance(row[0], list):
            wit = [bytes.fromhex(w) for w in row[0][:-1]]
            amount = int(round(row[0][-1] * 1e8))
            row = row[1:]
        ssig, spk, fl, expected = row[:4]
        yield idx, _script_test_spend(parse_script(ssig), parse_script(spk), wit, amount, parse_flags(fl)), expected, "/".join(row[4:])
        idx += 1


def _check_transaction(tx: SynTx):
    """Core's context-free CheckTransaction, enough of it to explain tx_invalid.json entries"""
    if not tx.vin:
        return "bad-txns-vin-empty"
    if not tx.vout:
        return "bad-txns-vout-empty"
    total = 0
    for v, _s in tx.vout:
        if v >= 1 << 63:
            return "bad-txns-vout-negative"
        if v > 21000000 * 10 ** 8:
            return "bad-txns-vout-toolarge"
        total += v
        if total > 21000000 * 10 ** 8:
            return "bad-txns-txouttotal-toolarge"
    seen = set()
    for h, n, _s, _q, _w in tx.vin:
        if (h, n) in seen:
            return "bad-txns-inputs-duplicate"
        seen.add((h, n))
    null = [h == b"\x00" * 32 and n == 0xFFFFFFFF for h, n, _s, _q, _w in tx.vin]
    if len(tx.vin) == 1 and null[0]:
        if not 2 <= len(tx.vin[0][2]) <= 100:
            return "bad-cb-length"
    elif any(null):
        return "bad-txns-prevout-null"
    return None


def tx_test_vectors(name):
    """yields (index, SynTx, [SpendCase per input or None when the prevout is not given], flags)"""
    data = json.load(open(os.path.join(VEC_DIR, name)))
    idx = 0
    for row in data:
        if len(row) != 3 or not isinstance(row[0], list):
            continue
        prev = {}
        for p in row[0]:
            h = bytes.fromhex(p[0])[::-1]
            n = p[1] & 0xFFFFFFFF
            prev[(h, n)] = (parse_script(p[2]), p[3] if len(p) > 3 else 0)
        tx = parse_tx(bytes.fromhex(row[1]))
        flags = parse_flags(row[2])
        cases = []
        for i, (h, n, _s, _q, _w) in enumerate(tx.vin):
            if (h, n) in prev:
                spk, amt = prev[(h, n)]
                cases.append(SpendCase(flags, tx, i, spk, amt))
            else:
                cases.append(None)
        yield idx, tx, cases, flags
        idx += 1


def validate_spec_on_vectors(verbose=False):
    """runs the extracted spec on every vector; returns a report dict.  `failures` must be empty."""
    rep = {"script_tests": 0, "script_tests_pass": 0, "script_tests_errclass_pass": 0,
           "tx_valid": 0, "tx_valid_pass": 0, "tx_invalid": 0, "tx_invalid_pass": 0,
           "tx_invalid_by_checktransaction": 0, "failures": [], "not_run": []}
    for idx, c, expected, comment in script_test_vectors():
        rep["script_tests"] += 1
        kind, err = spec_verify([c])[0]
        got = "OK" if kind == "ok" else err
        if (got == "OK") == (expected == "OK"):
            rep["script_tests_pass"] += 1
            if got == expected:
                rep["script_tests_errclass_pass"] += 1
            else:
                rep["failures"].append({"file": "script_tests.json", "index": idx, "expected": expected, "got": got,
                                        "what": "error class", "comment": comment, "case": c.to_json()})
        else:
            rep["failures"].append({"file": "script_tests.json", "index": idx, "expected": expected, "got": got,
                                    "what": "verdict", "comment": comment, "case": c.to_json()})
    for name, want_ok in (("tx_valid.json", True), ("tx_invalid.json", False)):
        key = name[:-5]
        for idx, tx, cases, flags in tx_test_vectors(name):
            rep[key] += 1
            ct = _check_transaction(tx)
            bad = []
            missing = [i for i, c in enumerate(cases) if c is None]
            if missing:
                # Core's test fails such a vector ("bad test"); no vector in the repository has this shape
                rep["not_run"].append({"file": name, "index": idx, "why": "prevout of input %s not listed" % missing})
                continue
            for i, c in enumerate(cases):
                kind, err = spec_verify([c])[0]
                if kind != "ok":
                    bad.append((i, err))
            if want_ok:
                if ct is None and not bad:
                    rep[key + "_pass"] += 1
                else:
                    rep["failures"].append({"file": name, "index": idx, "expected": "valid", "got": {"check": ct, "inputs": bad}})
            else:
                if ct is not None and not bad:
                    rep["tx_invalid_by_checktransaction"] += 1
                if ct is not None or bad:
                    rep[key + "_pass"] += 1
                else:
                    rep["failures"].append({"file": name, "index": idx, "expected": "invalid", "got": "all inputs verify",
                                            "flags": flag_names(flags)})
    if verbose:
        print(json.dumps({k: v for k, v in rep.items() if k != "failures"}, indent=1))
        for f in rep["failures"][:40]:
            f = dict(f)
            f.pop("case", None)
            print("  FAIL", json.dumps(f)[:600])
    return rep
