"""C12 — script integers, data pushes, script text."""
from common import *
from pycoin.satoshi.IntStreamer import IntStreamer
from pycoin.coins.bitcoin.ScriptStreamer import BitcoinScriptStreamer as S
from pycoin.coins.bitcoin.ScriptTools import BitcoinScriptTools as T
from pycoin.satoshi import opcodes as _opc

PROP = "C12"
DRIVER = "C12"
RULE = ("correspondence: one driver line per call of int_to_script_bytes / int_from_script_bytes / compile_push_data / "
        "get_opcode; distinct = distinct line; non-trivial = model returns a value (not an exception)")
PARTIAL = ["text level: str.split / str.upper / binascii are Python's; tied by the compile(disassemble(s)) direct check only"]
TRUSTED = ["struct.pack/unpack '<B' '<H' '<L' modelled as fixed-width little-endian (checked by gen_tables.py)"]


def _ints(rng, tier):
    step = 1 if tier == "thorough" else 7
    for v in range(-70000, 70001, step):
        yield v
    for k in range(0, 81):
        for d in (-1, 0, 1):
            yield (1 << k) + d
            yield -((1 << k) + d)
    for _ in range(2000 if tier == "quick" else 50000):
        yield rng.getrandbits(rng.choice([7, 8, 15, 16, 23, 24, 31, 32, 33, 63, 64, 71, 72])) * rng.choice([1, -1])


def _blobs(rng, tier):
    yield b""
    for a in range(256):
        yield bytes([a])
    for a in range(256):
        for b in (range(256) if tier == "thorough" else (0, 1, 0x7f, 0x80, 0x81, 0xff)):
            yield bytes([a, b])
            yield bytes([b, a])
    for _ in range(3000 if tier == "quick" else 60000):
        n = rng.randint(1, 9)
        b = bytearray(rng.getrandbits(8) for _ in range(n))
        if rng.random() < 0.5:
            b[-1] = rng.choice([0, 0x80, 1, 0x81, 0x7f, 0xff])
        if n > 1 and rng.random() < 0.5:
            b[-2] = rng.choice([0, 0x80, 0x7f, 0xff, b[-2]])
        yield bytes(b)


def _datas(rng, tier):
    lens = list(range(0, 301)) + list(range(65530, 65541)) + [70000]
    if tier == "thorough":
        lens += list(range(301, 600)) + [65535 - 256, 100000]
    for n in lens:
        yield bytes(rng.getrandbits(8) for _ in range(n)) if n < 2000 else (bytes([rng.getrandbits(8)]) * n)
    for c in list(range(0, 18)) + [0x80, 0x81, 0x82, 0xff]:
        yield bytes([c])
    yield b"\x00\x00"
    yield b"\x01\x00"


def _scripts(rng, tier):
    """raw scripts for get_opcode: valid pushes, truncations, non-minimal forms, each opcode, random"""
    out = []
    for d in _datas(rng, "quick"):
        if len(d) > 70000:
            continue
        s = S.compile_push_data(d)
        out.append(s)
        if len(d) < 400:
            for cut in range(1, min(len(s), 8)):
                out.append(s[:cut])
            out.append(s[:-1])
        else:
            out.append(s[:-1])
            out.append(s[:2])
            out.append(s[:3])
    # non minimal encodings
    for n in [0, 1, 2, 16, 17, 75, 76, 77, 255]:
        d = bytes([rng.getrandbits(8) | 0x20]) * n
        out.append(b"\x4c" + bytes([n]) + d)
        out.append(b"\x4d" + n.to_bytes(2, "little") + d)
        out.append(b"\x4e" + n.to_bytes(4, "little") + d)
    for n in [256, 257, 65535]:
        d = b"\x33" * n
        out.append(b"\x4d" + n.to_bytes(2, "little") + d)
        out.append(b"\x4e" + n.to_bytes(4, "little") + d)
    for n in [65536, 65537]:
        out.append(b"\x4e" + n.to_bytes(4, "little") + b"\x44" * n)
    for c in list(range(1, 17)) + [0x81, 0x80, 0]:
        out.append(b"\x01" + bytes([c]))
        out.append(b"\x4c\x01" + bytes([c]))
    for o in range(256):
        out.append(bytes([o]))
        out.append(bytes([o, 1]))
        out.append(bytes([o, 1, 2, 3, 4, 5]))
    for _ in range(1500 if tier == "quick" else 40000):
        n = rng.randint(1, 12)
        out.append(bytes(rng.choice([rng.getrandbits(8), 0x4c, 0x4d, 0x4e, 1, 2, 0]) for _ in range(n)))
    return out


def _getop(s, pc, m):
    o, d, npc, ok = S.get_opcode(s, pc, verify_minimal_data=m)
    return (o, None if d is None else bytes(d), npc, ok)


def model_cases(rng, tier):
    for v in _ints(rng, tier):
        yield Case("int_to_script_bytes " + arg(v), (lambda v=v: call(IntStreamer.int_to_script_bytes, v)))
    for b in _blobs(rng, tier):
        for m in (False, True):
            yield Case("int_from_script_bytes %s %s" % (arg(b), arg(m)),
                       (lambda b=b, m=m: call(IntStreamer.int_from_script_bytes, b, m)))
    for d in _datas(rng, tier):
        yield Case("compile_push_data " + arg(d), (lambda d=d: call(S.compile_push_data, d)))
    for s in _scripts(rng, tier):
        pcs = {0, len(s) - 1, len(s)} if len(s) < 40 else {0}
        if len(s) < 14:
            pcs |= set(range(len(s)))
        for pc in sorted(p for p in pcs if p >= 0):
            for m in (False, True):
                yield Case("get_opcode %s %s %s" % (arg(s), arg(pc), arg(m)),
                           (lambda s=s, pc=pc, m=m: call(_getop, s, pc, m)))
    for c in text_cases(rng, tier):
        yield c


def _toks(script):
    """T.opcode_list as canonical tokens: '[hex]' -> bytes, names -> str"""
    out = []
    for t in T.opcode_list(script):
        if t.startswith("["):
            out.append(bytes.fromhex(t[1:-1]))
        else:
            out.append(t)
    return out


def _compile_toks(toks):
    return T.compile(" ".join(("[%s]" % t.hex()) if isinstance(t, bytes) else t for t in toks))


def text_cases(rng, tier):
    scripts = [_gen_script(rng) for _ in range(800 if tier == "quick" else 20000)]
    scripts += [bytes([o]) for o in range(256)]
    scripts += [bytes(rng.getrandbits(8) for _ in range(rng.randint(1, 12))) for _ in range(500 if tier == "quick" else 10000)]
    for s in scripts:
        yield Case("disassemble " + arg(s), (lambda s=s: call(_toks, s)))
    for s in scripts[:600 if tier == "quick" else 15000]:
        try:
            toks = _toks(s)
        except Exception:
            continue
        if any(isinstance(t, str) and (not t or " " in t) for t in toks) or not toks:
            continue
        yield Case("compile " + arg(toks), (lambda toks=toks: call(_compile_toks, toks)))


# ---- direct property checks -----------------------------------------------------------------
def chk_int_roundtrip(v):
    b = IntStreamer.int_to_script_bytes(v)
    try:
        w = IntStreamer.int_from_script_bytes(b, require_minimal=True)
    except Exception as e:
        return {"kind": "minimal-form-rejected", "detail": "%s" % e, "enc": b.hex()}
    if w != v or IntStreamer.int_from_script_bytes(b, require_minimal=False) != v:
        return {"kind": "int-roundtrip", "enc": b.hex(), "got": w}
    return None


def chk_minimal_iff(b):
    try:
        v = IntStreamer.int_from_script_bytes(b, require_minimal=True)
    except Exception:
        # rejected: must not be the minimal form of its lax value
        v = IntStreamer.int_from_script_bytes(b, require_minimal=False)
        if IntStreamer.int_to_script_bytes(v) == b:
            return {"kind": "minimal-form-rejected", "enc": b.hex()}
        return None
    if IntStreamer.int_to_script_bytes(v) != b:
        return {"kind": "non-minimal-accepted", "enc": b.hex(), "value": v}
    return None


def chk_push(d):
    s = S.compile_push_data(d)
    # shortest: compare with the consensus-minimal form
    n = len(d)
    if n == 0:
        exp = b"\x00"
    elif n == 1 and 1 <= d[0] <= 16:
        exp = bytes([0x50 + d[0]])
    elif n == 1 and d[0] == 0x81:
        exp = b"\x4f"
    elif n <= 75:
        exp = bytes([n]) + d
    elif n <= 255:
        exp = b"\x4c" + bytes([n]) + d
    elif n <= 65535:
        exp = b"\x4d" + n.to_bytes(2, "little") + d
    else:
        exp = b"\x4e" + n.to_bytes(4, "little") + d
    if s != exp:
        return {"kind": "push-not-shortest", "len": n, "got": s[:12].hex()}
    for m in (False, True):
        try:
            o, dd, pc, ok = S.get_opcode(s, 0, verify_minimal_data=m)
        except Exception as e:
            return {"kind": "push-rejected-by-minimal-rule" if m else "push-decode-raises", "len": n, "detail": str(e)}
        if not ok or bytes(dd) != d or pc != len(s):
            return {"kind": "push-decode-mismatch", "len": n, "verify_minimal": m}
    return None


def chk_truncated(d, cut):
    s = S.compile_push_data(d)
    if not (1 <= cut < len(s)) or s[0] > 0x4e or s[0] == 0:
        return None
    t = s[:cut]
    try:
        o, dd, pc, ok = S.get_opcode(t, 0, verify_minimal_data=False)
    except Exception as e:
        return {"kind": "truncated-raises", "detail": str(e), "script": t[:12].hex()}
    if ok:
        return {"kind": "truncated-push-reported-ok", "script": t[:12].hex(), "len": len(t), "cut": cut,
                "lenfield_cut": cut < 1 + {0x4c: 1, 0x4d: 2, 0x4e: 4}.get(s[0], 0)}
    return None


KNOWN_OPS = sorted(set(v for _, v in _opc.OPCODE_LIST))
NONPUSH_OPS = [o for o in KNOWN_OPS if o > 0x4e or o == 0]


def _gen_script(rng):
    parts = []
    for _ in range(rng.randint(0, 10)):
        if rng.random() < 0.5:
            parts.append(bytes([rng.choice(NONPUSH_OPS)]))
        else:
            n = rng.choice([1, 1, 2, 3, 20, 32, 33, 65, 75, 76, 77, 255, 256, 257, 520, rng.randint(1, 300)])
            d = bytes(rng.getrandbits(8) for _ in range(n))
            parts.append(S.compile_push_data(d))
    return b"".join(parts)


def chk_text(s):
    try:
        t = T.disassemble(s)
        back = T.compile(t)
    except Exception as e:
        return {"kind": "text-raises", "detail": "%s: %s" % (type(e).__name__, e), "script": s.hex()[:200]}
    if back != s:
        return {"kind": "text-roundtrip", "script": s.hex()[:400], "text": t[:200], "back": back.hex()[:400]}
    return None


def prop_cases(rng, tier):
    for v in _ints(rng, "quick"):
        yield PropCase("int_roundtrip", {"v": v}, (lambda v=v: chk_int_roundtrip(v)))
    for b in _blobs(rng, tier):
        yield PropCase("minimal_iff", {"b": b.hex()}, (lambda b=b: chk_minimal_iff(b)))
    for d in _datas(rng, tier):
        yield PropCase("push", {"len": len(d), "d": d.hex() if len(d) < 100 else None, "fill": d[:1].hex()},
                       (lambda d=d: chk_push(d)))
        cuts = range(1, 7) if len(d) > 6 else range(1, len(d) + 2)
        for cut in cuts:
            yield PropCase("truncated", {"len": len(d), "fill": d[:1].hex(), "cut": cut, "d": d.hex() if len(d) < 100 else None},
                           (lambda d=d, cut=cut: chk_truncated(d, cut)))
    for _ in range(1500 if tier == "quick" else 60000):
        s = _gen_script(rng)
        yield PropCase("text", {"script": s.hex()}, (lambda s=s: chk_text(s)))
    for o in NONPUSH_OPS:
        yield PropCase("text", {"script": "%02x" % o}, (lambda o=o: chk_text(bytes([o]))))


def _data_of(inp):
    if inp.get("d") is not None:
        return bytes.fromhex(inp["d"])
    return bytes.fromhex(inp["fill"]) * inp["len"]


def replay_input(check, inp):
    if check == "int_roundtrip":
        return chk_int_roundtrip(int(inp["v"]))
    if check == "minimal_iff":
        return chk_minimal_iff(bytes.fromhex(inp["b"]))
    if check == "push":
        return chk_push(_data_of(inp))
    if check == "truncated":
        return chk_truncated(_data_of(inp), inp["cut"])
    if check == "text":
        return chk_text(bytes.fromhex(inp["script"]))
    return {"kind": "unknown-check"}


def classify(pc, r):
    if pc.name == "push" and r["kind"] == "push-rejected-by-minimal-rule" and pc.inp["len"] in (256, 65536):
        return "pushdata-boundary-256-65536"
    if pc.name == "truncated" and r["kind"] == "truncated-push-reported-ok" and r.get("lenfield_cut"):
        return "truncated-length-field"
    return None


KNOWN_REPLAYS = {
    "pushdata-boundary-256-65536": lambda: chk_push(b"\xaa" * 256),
    "truncated-length-field": lambda: chk_truncated(b"\xaa" * 300, 2),
}


def search(rng, tier, disagreements, known_ids):
    """after a proof/correspondence break: look for an input on which the property itself fails"""
    # 1. neighbourhood of the disagreeing cases
    cands = []
    for d in disagreements[:50]:
        toks = d["case"].split(" ")
        fn = toks[0]
        if fn == "int_to_script_bytes":
            v = int(toks[1][1:], 16) if not toks[1].startswith("i-") else -int(toks[1][2:], 16)
            for dv in (-1, 0, 1):
                cands.append(PropCase("int_roundtrip", {"v": v + dv}, (lambda v=v + dv: chk_int_roundtrip(v))))
        elif fn == "int_from_script_bytes":
            b = bytes.fromhex(toks[1][1:])
            cands.append(PropCase("minimal_iff", {"b": b.hex()}, (lambda b=b: chk_minimal_iff(b))))
            try:
                v = IntStreamer.int_from_script_bytes(b)
                cands.append(PropCase("int_roundtrip", {"v": v}, (lambda v=v: chk_int_roundtrip(v))))
            except Exception:
                pass
        elif fn == "compile_push_data":
            dd = bytes.fromhex(toks[1][1:])
            cands.append(PropCase("push", {"len": len(dd), "d": dd.hex() if len(dd) < 100 else None, "fill": dd[:1].hex()},
                                  (lambda dd=dd: chk_push(dd))))
        elif fn == "get_opcode":
            s = bytes.fromhex(toks[1][1:])
            cands.append(PropCase("text", {"script": s.hex()}, (lambda s=s: chk_text(s))))
            # treat as a push of its own payload
            for n in {len(s), max(0, len(s) - 1), max(0, len(s) - 2), max(0, len(s) - 3), max(0, len(s) - 5)}:
                dd = b"\x5a" * n
                cands.append(PropCase("push", {"len": n, "d": None, "fill": "5a"}, (lambda dd=dd: chk_push(dd))))
                for cut in range(1, 7):
                    cands.append(PropCase("truncated", {"len": n, "fill": "5a", "cut": cut, "d": None},
                                          (lambda dd=dd, cut=cut: chk_truncated(dd, cut))))
    cands += list(prop_cases(rng, "thorough" if tier == "thorough" else "quick"))
    for pc in cands:
        try:
            r = pc.thunk()
        except Exception as e:
            r = {"kind": "raises", "detail": str(e)}
        if r is not None and classify(pc, r) not in known_ids:
            return {"check": pc.name, "input": pc.inp, "failure": r}
    return None
