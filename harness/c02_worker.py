"""c02_worker.py — runs a batch of C02 operations in a fresh interpreter (PYCOIN_NATIVE is read at import time).
stdin: JSON list of ops (see c02_ops.run_op); stdout: JSON {"config": ..., "mro": ..., "results": [...]}."""
import sys, os, json
sys.path.insert(0, os.path.dirname(os.path.abspath(__file__)))
sys.set_int_max_str_digits(0)
import c02_ops


def main():
    ops = json.load(sys.stdin)
    res = [c02_ops.run_op(op) for op in ops]
    from pycoin.ecdsa.secp256k1 import secp256k1_generator as g
    info = {"config": os.environ.get("PYCOIN_NATIVE"), "native_classes": [k.__qualname__ for k in type(g).__mro__],
            "results": res}
    json.dump(info, sys.stdout)


if __name__ == "__main__":
    main()
