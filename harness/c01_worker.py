"""c01_worker.py — runs ECDSA operations of /repo on the production curves in ONE arithmetic configuration.
PYCOIN_NATIVE is read by pycoin at import time, so the harness starts one worker process per
configuration (PYCOIN_NATIVE=openssl / none).  stdin: one JSON list of cases; stdout: one JSON object
{"backend": ..., "results": [canonical strings]}."""
import sys, json, os


def main():
    from common import call, canon
    from pycoin.ecdsa.secp256k1 import secp256k1_generator
    from pycoin.ecdsa.secp256r1 import secp256r1_generator
    from pycoin.ecdsa.rfc6979 import deterministic_generate_k
    from pycoin.ecdsa.native.openssl import OpenSSL
    from pycoin.ecdsa.native.secp256k1 import libsecp256k1
    gens = {"secp256k1": secp256k1_generator, "secp256r1": secp256r1_generator}
    mro = [k.__name__ for k in type(secp256k1_generator).__mro__]
    # which multiply / inverse_mod / sign / verify is actually bound
    backend = {
        "PYCOIN_NATIVE": os.environ.get("PYCOIN_NATIVE"),
        "libcrypto_loaded": bool(OpenSSL),
        "libsecp256k1_loaded": bool(libsecp256k1),
        "multiply_from": type(secp256k1_generator).multiply.__qualname__,
        "inverse_mod_from": type(secp256k1_generator).inverse_mod.__qualname__,
        "sign_from": type(secp256k1_generator).sign.__qualname__,
        "verify_from": type(secp256k1_generator).verify.__qualname__,
        "mro": mro,
    }
    cases = json.load(sys.stdin)
    out = []
    btc = None
    import hashlib
    from pycoin.ecdsa.Generator import Generator
    toy = {}

    def gen_for(cur):
        if isinstance(cur, str) or cur is None:
            return gens.get(cur)
        key = tuple(cur)
        if key not in toy:
            p, a, b, gx, gy, n = key
            toy[key] = Generator(p, a, b, (gx, gy), n, lambda k: b"\x5a" * k)
        return toy[key]

    for c in cases:
        op = c["op"]
        g = gen_for(c.get("curve"))
        if op == "sign":
            out.append(call(lambda: tuple(g.sign_with_recid(c["d"], c["z"]))))
        elif op == "sign_plain":
            out.append(call(lambda: tuple(g.sign(c["d"], c["z"]))))
        elif op == "verify":
            q = tuple(c["q"]) if c["q"] is not None else (None, None)
            out.append(call(lambda: g.verify(q, c["z"], (c["r"], c["s"]))))
        elif op == "recover":
            out.append(call(lambda: [tuple(P) for P in g.possible_public_pairs_for_signature(c["z"], (c["r"], c["s"]), c.get("yp"))]))
        elif op == "pub":
            out.append(call(lambda: tuple(c["d"] * g)))
        elif op == "gen_k":
            if c.get("hashf"):
                out.append(call(lambda: deterministic_generate_k(c["n"], c["d"], c["z"], getattr(hashlib, c["hashf"]))))
            else:
                out.append(call(lambda: deterministic_generate_k(c["n"], c["d"], c["z"])))
        elif op in ("keysign", "keyverify"):
            if btc is None:
                from pycoin.symbols.btc import network as btc
            if op == "keysign":
                out.append(call(lambda: btc.keys.private(c["d"]).sign(bytes.fromhex(c["h"]))))
            else:
                def kv():
                    if "d" in c:
                        k = btc.keys.private(c["d"])
                    else:
                        k = btc.keys.public(tuple(c["q"]))
                    return k.verify(bytes.fromhex(c["h"]), bytes.fromhex(c["sig"]))
                out.append(call(kv))
        else:
            out.append("!HARNESS:unknown-op")
    json.dump({"backend": backend, "results": out}, sys.stdout)


if __name__ == "__main__":
    main()
