"""c19_worker.py — runs pycoin.encoding.hash in ONE configuration (the configuration is read by pycoin at import
time, so every configuration needs its own process).  Started by harness/c19.py.

Configuration (environment):
  PYCOIN_USE_PYTHON_RIPEMD160   passed through untouched (unset / "" / "0" / "1" ...): the real switch
  C19_NO_AVAIL=1        simulate a hashlib that does not list ripemd160 in algorithms_available
  C19_NATIVE_RAISES=1   simulate an OpenSSL without ripemd160 (Ubuntu 22): hashlib.new("ripemd160") raises
  C19_FAKE_CRYPTO=1     make `from Crypto.Hash.RIPEMD import RIPEMD160Hash` succeed (class backed by the real hashlib)
stdin : one query per line  `<fn> <hex>`   fn in ripemd160 | hash160 | double_sha256 | choice | info
stdout: one canonical answer per line (x<hex>, i<n>, !E_...)
"""
import sys, os, hashlib, types

_real_new = hashlib.new
_real_avail = set(hashlib.algorithms_available)

if os.environ.get("C19_NO_AVAIL"):
    hashlib.algorithms_available = set(a for a in _real_avail if a.lower() != "ripemd160")

if os.environ.get("C19_NATIVE_RAISES"):
    def _new(name, data=b"", **kw):
        if isinstance(name, str) and name.lower() == "ripemd160":
            raise ValueError("unsupported hash type ripemd160")
        return _real_new(name, data, **kw)
    hashlib.new = _new

if os.environ.get("C19_FAKE_CRYPTO"):
    class RIPEMD160Hash(object):
        def __init__(self, data=b""):
            self._h = _real_new("ripemd160", data)

        def digest(self):
            return self._h.digest()
    m0, m1, m2 = types.ModuleType("Crypto"), types.ModuleType("Crypto.Hash"), types.ModuleType("Crypto.Hash.RIPEMD")
    m2.RIPEMD160Hash = RIPEMD160Hash
    m1.RIPEMD = m2
    m0.Hash = m1
    sys.modules["Crypto"], sys.modules["Crypto.Hash"], sys.modules["Crypto.Hash.RIPEMD"] = m0, m1, m2
else:
    # make sure an installed PyCrypto/pycryptodome does not change the configuration silently
    sys.modules["Crypto"] = None

import pycoin.encoding.hash as H  # noqa: E402  (the configuration is fixed here)

CHOICE = {"ripemd160_native": 0, "RIPEMD160Hash": 1, "_PurePythonRIPEMD160": 2}


def tag(e):
    n = type(e).__name__
    return "!" + {"ValueError": "E_VALUE", "TypeError": "E_TYPE", "IndexError": "E_INDEX", "AssertionError": "E_ASSERT",
                  "error": "E_STRUCT"}.get(n, "E_OTHER:" + n)


def present(data, kind):
    """the same byte string as another buffer type"""
    if kind == "bytearray":
        return bytearray(data)
    if kind == "memoryview":
        return memoryview(data)
    if kind == "bytes_subclass":
        return type("B", (bytes,), {})(data)
    return data


def answer(fn, data):
    kind = None
    if "@" in fn:
        fn, _, kind = fn.partition("@")
        data = bytearray(data) if kind == "wiped" else present(data, kind)
    if fn == "ripemd160" and isinstance(data, bytearray) and kind == "wiped":
        # the digest object is made, THEN the caller's buffer is overwritten (a reused read buffer, a wiped secret): the
        # digest is of what was passed when the object was made, as with hashlib (seed C19-e1 hashed lazily, by reference)
        h = H.ripemd160(data)
        for i in range(len(data)):
            data[i] ^= 0xA5
        return "x" + h.digest().hex()
    if fn == "ripemd160":
        return "x" + H.ripemd160(data).digest().hex()
    if fn == "hash160":
        return "x" + H.hash160(data).hex()
    if fn == "double_sha256":
        r = H.double_sha256(data)
        if not isinstance(r, bytes):
            return "!E_TYPE"
        return "x" + bytes(r).hex()
    if fn == "choice":
        return "i%d" % CHOICE.get(getattr(H.ripemd160, "__name__", "?"), 99)
    if fn == "info":
        return "s" + repr((H.__file__, getattr(H.ripemd160, "__name__", "?")))
    return "!E_OTHER:unknown-query"


def main():
    out = []
    for line in sys.stdin:
        line = line.strip()
        if not line:
            continue
        fn, _, hx = line.partition(" ")
        try:
            out.append(answer(fn, bytes.fromhex(hx)))
        except Exception as e:  # noqa
            out.append(tag(e))
    sys.stdout.write("\n".join(out) + "\n")


main()
