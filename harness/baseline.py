#!/usr/bin/env python3
"""Run /repo's baseline test suite (command from /root/.vp/BASELINE.json) and compare with stable_pass.
Exit 0 iff every stable_pass test passes."""
import json, subprocess, sys, tempfile, os, xml.etree.ElementTree as ET
B = json.load(open("/root/.vp/BASELINE.json"))
fd, path = tempfile.mkstemp(suffix=".junit.xml", dir="/var/tmp"); os.close(fd)
repo = sys.argv[1] if len(sys.argv) > 1 else "/repo"
cmd = B["cmd"].replace("<file>", path).replace("cd /repo", "cd " + repo)
env = dict(os.environ); env.pop("PYCOIN_VERIF", None)
if repo != "/repo":
    env["PYTHONPATH"] = repo
p = subprocess.run(cmd, shell=True, stdout=subprocess.PIPE, stderr=subprocess.STDOUT, env=env)
passed = set()
try:
    for tc in ET.parse(path).getroot().iter("testcase"):
        if not any(ch.tag in ("failure", "error", "skipped") for ch in tc):
            passed.add("%s::%s" % (tc.get("classname"), tc.get("name")))
finally:
    os.unlink(path)
missing = [t for t in B["stable_pass"] if t not in passed]
print("baseline: %d stable tests, %d passed now, %d missing" % (len(B["stable_pass"]), len(passed), len(missing)))
for t in missing[:30]:
    print("  NOT PASSING:", t)
if missing:
    print(p.stdout.decode()[-3000:])
sys.exit(1 if missing else 0)
