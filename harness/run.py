import sys, os, importlib
sys.path.insert(0, os.path.dirname(os.path.abspath(__file__)))
import common


def main(argv):
    if len(argv) >= 2 and argv[1] == "setup":
        import setup_all
        return setup_all.main()
    if len(argv) >= 2 and argv[1] == "fingerprints":
        out = common.record_fingerprints()
        print("recorded fingerprints for %d properties" % len(out))
        return 0
    if len(argv) >= 2 and argv[1] == "baseline":
        n = common.record_baseline_tables()
        print("baseline tables: %s" % n)
        return 0 if n else 1
    if len(argv) >= 3 and argv[1] == "replay":
        return common.replay_file(argv[2])
    if len(argv) < 2:
        print("usage: check <Cxx> [quick|thorough] | replay <file> | setup")
        return 2
    prop = argv[1].upper()
    tier = argv[2] if len(argv) > 2 else os.environ.get("VERIF_TIER", "quick")
    if tier not in ("quick", "thorough"):
        tier = "quick"
    try:
        mod = importlib.import_module(prop.lower())
        return common.run_property(mod, tier)
    except Exception as e:
        # the harness itself could not run against this tree (e.g. it introspects something a change removed): the correspondence
        # is broken and no input was found; say so in the prescribed form instead of dying with a traceback
        import traceback, json, time, hashlib
        tb = traceback.format_exc()
        sys.stdout.write(tb)
        os.makedirs(os.path.join(common.VERIF, "findings"), exist_ok=True)
        path = os.path.join(common.VERIF, "findings", "%s-harness-%s.json" % (prop, hashlib.sha1(tb.encode()).hexdigest()[:12]))
        json.dump({"property": prop, "kind": "no-failing-input-found", "tier": tier,
                   "broken_obligation": "correspondence harness could not run: %s: %s" % (type(e).__name__, e), "traceback": tb[-3000:]},
                  open(path, "w"), indent=1)
        print("VIOLATION property=%s replay=%s no-failing-input-found" % (prop, path))
        return 1


if __name__ == "__main__":
    sys.exit(main(sys.argv))
