import sys, os, importlib
sys.path.insert(0, os.path.dirname(os.path.abspath(__file__)))
import common


def main(argv):
    if len(argv) >= 2 and argv[1] == "setup":
        import setup_all
        return setup_all.main()
    if len(argv) >= 2 and argv[1] == "fingerprints":
        out = common.record_fingerprints()
        print("recorded fingerprints for %d properties" % len(out))
        return 0
    if len(argv) >= 3 and argv[1] == "replay":
        return common.replay_file(argv[2])
    if len(argv) < 2:
        print("usage: check <Cxx> [quick|thorough] | replay <file> | setup")
        return 2
    prop = argv[1].upper()
    tier = argv[2] if len(argv) > 2 else os.environ.get("VERIF_TIER", "quick")
    if tier not in ("quick", "thorough"):
        tier = "quick"
    mod = importlib.import_module(prop.lower())
    return common.run_property(mod, tier)


if __name__ == "__main__":
    sys.exit(main(sys.argv))
