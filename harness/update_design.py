#!/usr/bin/env python3
"""(re)insert section 0 of DESIGN.md from harness/design_section0.md + the generated status and seed tables"""
import os, subprocess, re
V = os.path.dirname(os.path.dirname(os.path.abspath(__file__)))
sec = open(os.path.join(V, "harness", "design_section0.md")).read()
tab = subprocess.run(["python3", os.path.join(V, "harness", "design_tables.py")], capture_output=True, text=True).stdout
seeds = subprocess.run(["python3", os.path.join(V, "harness", "seed_summary.py")], capture_output=True, text=True).stdout
block = "<!-- BEGIN SECTION 0 -->\n" + sec + tab + "\n### 0.8 Seeded changes and what caught them\n\n" + seeds + "\n<!-- END SECTION 0 -->\n"
p = os.path.join(V, "DESIGN.md")
s = open(p).read()
if "<!-- BEGIN SECTION 0 -->" in s:
    s = re.sub(r"<!-- BEGIN SECTION 0 -->.*?<!-- END SECTION 0 -->\n", lambda m: block, s, flags=re.S)
else:
    marker = "---------------------------------------------------------------------------------------------------\n\n## 1. Why proof"
    assert marker in s
    s = s.replace(marker, "---------------------------------------------------------------------------------------------------\n\n" + block + "\n" + marker, 1)
    s = s.replace("Contents\n\n1. Why proof", "Contents\n\n0. What was built (status of the build; read this first)\n1. Why proof", 1)
    s = s.replace("Status of this document: written **before** any framework code,", "Status of this document: sections 1–9 and the appendices were written **before** any framework code (section 0 was\nadded during the build and describes the tree as committed),", 1)
open(p, "w").write(s)
print("DESIGN.md updated")
