"""C06 — validation is tamper-evident: signatures bind what their hash type commits; an unknown spent output is never
valid; re-validation of one object gives the verdict of a fresh object.

Correspondence (model_cases): extracted Model/Commit.v vs BitcoinSolutionChecker._signature_hash,
_segwit_signature_preimage, _signature_for_hash_type_segwit, tx_context_for_idx, Tx.missing_unspent,
Tx.is_solution_ok, Tx.bad_solution_count (the last two with a stub script checker).
Direct checks (prop_cases): transactions signed by pycoin's own signer (P2PKH, P2WPKH, P2SH-P2WPKH, P2SH and P2WSH
2-of-3 multisig; one hash type per input) are mutated in every single field and structurally; tx.is_solution_ok(i)
must stay True exactly when the model says input i still feeds the hash with the same strings (the proved
classification `committed` is cross-checked for the single-field mutations); missing unspents; histories of
mutate / validate / undo on ONE object against fresh objects rebuilt from bytes.
"""
from common import *
import copy, io, struct
from pycoin.symbols.btc import network as _net
from pycoin.coins.bitcoin.SolutionChecker import BitcoinSolutionChecker as BSC
from pycoin.coins.SolutionChecker import ScriptError
from pycoin.coins.bitcoin.ScriptTools import BitcoinScriptTools as ST
from pycoin.solve.utils import build_hash160_lookup, build_p2sh_lookup
from pycoin.ecdsa.secp256k1 import secp256k1_generator as _G
from pycoin.encoding.sec import public_pair_to_sec

PROP = "C06"
EXTRA_PROPS = ["C06compose"]   # composition theorems (see DESIGN.md section 0)
DRIVER = "C06"
INTERACTIVE = True
RULE = ("correspondence: one driver line per call (legacy_sighash / segwit_preimage / segwit_sighash on random "
        "transactions x hash types incl. all 256 bytes, tx_context / missing_unspent / is_solution_ok / "
        "bad_solution_count on random unspents); distinct = distinct line; non-trivial = the model returns a value. "
        "direct checks: one per (signed transaction, mutation, input) — verdict of tx.is_solution_ok against the model's "
        "same-hash-input verdict — plus missing-unspent and history checks")
PARTIAL = [
    "statelessness: the model is a pure function; that the implementation keeps no state between calls is tested "
    "(histories of mutate/validate/undo on one object vs fresh objects), not proved",
    "verdict level: C06_tamper_fails_partial leaves the signature check abstract: after a committed change the old "
    "signature verifies only if a hash anomaly is exhibited or the same signature verifies under two different digests; "
    "that ECDSA allows this for a negligible set of digests only (C01's verify_iff) is not imported — the direct mutation "
    "checks cover it on the implementation",
    "script code: delete_subscript / FindAndDelete (C04) is not modelled; the model takes the script code after it",
]
TRUSTED = ["struct.pack '<L'/'<Q' and the '#' field (v[:32]) as observed by harness/gens/commit_c06.py",
           "pycoin's own signer and secp256k1/OpenSSL ECDSA are used to produce the signed transactions of the direct checks"]
ASSUMPTIONS = ["C06_digest_commits: dsha256 has 32-byte output (explicit hypothesis); hash collisions / zero-preimages appear "
               "as an explicit disjunct, never assumed away"]

Tx = _net.tx
TxIn, TxOut = Tx.TxIn, Tx.TxOut
_C = _net.contract

HT_STD = [1, 2, 3, 0x81, 0x82, 0x83]
HT_ODD = [0, 4, 0x1f, 0x20, 0x41, 0x42, 0x43, 0x7f, 0x80, 0x84, 0xc3, 0xe2, 0xff]


# ------------------------------------------------------------------------------------------------
# plain-data transaction states (JSON-able; pycoin objects are always built fresh from them)
def st_new(version, lock, ins, outs, unspents=None):
    return {"version": version, "lock": lock, "ins": ins, "outs": outs,
            "unspents": unspents if unspents is not None else [None] * len(ins)}


def st_in(h, index, script=b"", seq=0xFFFFFFFF, witness=()):
    return {"hash": h.hex(), "index": index, "script": script.hex(), "seq": seq, "witness": [w.hex() for w in witness]}


def st_out(amount, script):
    return {"amount": amount, "script": script.hex()}


def build_tx(st, cls=Tx):
    ins = []
    for i in st["ins"]:
        t = cls.TxIn(bytes.fromhex(i["hash"]), i["index"], bytes.fromhex(i["script"]), i["seq"])
        t.witness = tuple(bytes.fromhex(w) for w in i["witness"])
        ins.append(t)
    outs = [cls.TxOut(o["amount"], bytes.fromhex(o["script"])) for o in st["outs"]]
    tx = cls(st["version"], ins, outs, st["lock"])
    tx.unspents = [None if u is None else cls.TxOut(u["amount"], bytes.fromhex(u["script"])) for u in st["unspents"]]
    return tx


def st_from_tx(tx):
    return st_new(tx.version, tx.lock_time,
                  [st_in(i.previous_hash, i.previous_index, i.script, i.sequence, i.witness) for i in tx.txs_in],
                  [st_out(o.coin_value, o.script) for o in tx.txs_out],
                  [None if u is None else st_out(u.coin_value, u.script) for u in tx.unspents])


def tok_tx(st):
    ins = ["%s:%x:%s:%x:%s" % (i["hash"], i["index"], i["script"], i["seq"], "".join("~" + w for w in i["witness"]))
           for i in st["ins"]]
    outs = ["%x:%s" % (o["amount"], o["script"]) for o in st["outs"]]
    return "%s [%s] [%s] %s" % (arg(st["version"]), ",".join(ins), ",".join(outs), arg(st["lock"]))


def tok_unspents(st):
    return "[" + ",".join("N" if u is None else "%x:%s" % (u["amount"], u["script"]) for u in st["unspents"]) + "]"


# ------------------------------------------------------------------------------------------------
# correspondence
def _rand_script(rng, allow_sep=False):
    """(script as passed to the implementation, script code the model gets).  Without 0xab bytes they are equal
    (delete_subscript is the identity there); with allow_sep, whole OP_CODESEPARATOR opcodes are inserted between
    elements and the model gets the script without them."""
    n = rng.choice([0, 0, 1, 2, 3, 5, 25, 25, 35, 71, 105, 250, 251, 252, 253, 254, 300, rng.randint(0, 600)])
    if rng.random() < 0.5:
        b = bytes(rng.getrandbits(8) for _ in range(n)).replace(b"\xab", b"\xac")
        return b, b
    elems = []
    while sum(len(e) for e in elems) < n:
        if rng.random() < 0.5:
            d = bytes(rng.getrandbits(8) for _ in range(rng.choice([1, 2, 20, 32, 33, 65, 71, 72]))).replace(b"\xab", b"\xac")
            elems.append(ST.compile_push_data_list([d]))
        else:
            elems.append(bytes([rng.choice([0x51, 0x76, 0xa9, 0x88, 0xac, 0xae, 0x87, 0x52, 0x53, 0x75, 0x00])]))
    code = b"".join(elems)
    if allow_sep and any(b"\xab" in e for e in elems) is False:
        k = rng.randint(1, 3)
        with_sep = list(elems)
        for _ in range(k):
            with_sep.insert(rng.randint(0, len(with_sep)), b"\xab")
        return b"".join(with_sep), code
    return code, code


def _rand_u32(rng):
    return rng.choice([0, 1, 2, 0x7FFFFFFF, 0x80000000, 0xFFFFFFFE, 0xFFFFFFFF, rng.getrandbits(32), rng.getrandbits(8)])


def _rand_amount(rng):
    return rng.choice([0, 1, 546, 21 * 10 ** 14, 2 ** 63 - 1, 2 ** 63, 2 ** 64 - 1, rng.getrandbits(64), rng.getrandbits(40)])


def _rand_state(rng, malformed=False):
    n_in = rng.choice([1, 1, 2, 2, 3, 4, 5]) if not malformed else rng.choice([0, 1, 2, 3])
    n_out = rng.choice([0, 1, 1, 2, 2, 3, 4, 5])
    ins = []
    for _ in range(n_in):
        hl = 32
        if malformed and rng.random() < 0.4:
            hl = rng.choice([0, 1, 31, 33, 40, 64])
        ins.append(st_in(bytes(rng.getrandbits(8) for _ in range(hl)), _rand_u32(rng),
                         bytes(rng.getrandbits(8) for _ in range(rng.choice([0, 0, 1, 23, 107]))),
                         _rand_u32(rng),
                         [bytes(rng.getrandbits(8) for _ in range(rng.choice([0, 1, 33, 72])))
                          for _ in range(rng.choice([0, 0, 1, 2]))]))
    outs = [st_out(_rand_amount(rng), bytes(rng.getrandbits(8) for _ in range(rng.choice([0, 1, 22, 25, 34, 252, 253, 260]))))
            for _ in range(n_out)]
    version = _rand_u32(rng)
    lock = _rand_u32(rng)
    if malformed:
        r = rng.random()
        if r < 0.15:
            version = rng.choice([2 ** 32, 2 ** 32 + 1, 2 ** 40])
        elif r < 0.3:
            lock = rng.choice([2 ** 32, 2 ** 63])
        elif r < 0.45 and ins:
            rng.choice(ins)["index" if rng.random() < 0.5 else "seq"] = rng.choice([2 ** 32, 2 ** 33 + 5])
        elif r < 0.6 and outs:
            rng.choice(outs)["amount"] = rng.choice([2 ** 64, 2 ** 64 + 1, 2 ** 70])
    return st_new(version, lock, ins, outs)


def _impl_legacy(st, script, idx, ht):
    tx = build_tx(st)
    return BSC(tx)._signature_hash(script, idx, ht)


def _impl_segwit(st, script, amount, idx, ht, what):
    tx = build_tx(st)
    tx.unspents = [TxOut(amount, b"") for _ in tx.txs_in] + [TxOut(amount, b"")] * 8
    sc = BSC(tx)
    if what == "preimage":
        return sc._segwit_signature_preimage(script, idx, ht)
    return sc._signature_for_hash_type_segwit(script, idx, ht)


def _sig_cases(rng, tier):
    n_tx = 60 if tier == "quick" else 1200
    for t in range(n_tx):
        malformed = (t % 5 == 4)
        st = _rand_state(rng, malformed)
        n_in, n_out = len(st["ins"]), len(st["outs"])
        idxs = sorted(set([0, max(0, n_in - 1), rng.randrange(0, max(1, n_in)), n_out, n_in, max(0, n_out - 1)]))
        if t % 20 == 0:
            hts = list(range(256))                      # exhaustive hash-type byte
            idxs = idxs[:2] if tier == "quick" else idxs
        else:
            hts = HT_STD + rng.sample(HT_ODD, 3) + [rng.getrandbits(8), rng.choice([0x101, 0x183, 0x1ff02, 2 ** 32 - 1, 2 ** 32, 2 ** 32 + 3])]
        tok = tok_tx(st)
        for idx in idxs:
            script, code = _rand_script(rng, allow_sep=(t % 7 == 3))
            amount = _rand_amount(rng) if rng.random() < 0.9 else 2 ** 64 + rng.getrandbits(8)
            for ht in hts:
                yield Case("legacy_sighash %s %s %s %s" % (tok, arg(code), arg(idx), arg(ht)),
                           (lambda st=st, s=script, i=idx, h=ht: call(_impl_legacy, st, s, i, h)))
                # the segwit entry does not strip code separators: it gets the script as it is
                yield Case("segwit_preimage %s %s %s %s %s" % (tok, arg(script), arg(amount), arg(idx), arg(ht)),
                           (lambda st=st, s=script, a=amount, i=idx, h=ht: call(_impl_segwit, st, s, a, i, h, "preimage")))
                if ht in (1, 3, 0x82) or ht > 255:
                    yield Case("segwit_sighash %s %s %s %s %s" % (tok, arg(script), arg(amount), arg(idx), arg(ht)),
                               (lambda st=st, s=script, a=amount, i=idx, h=ht: call(_impl_segwit, st, s, a, i, h, "digest")))


class _StubChecker(BSC):
    def check_solution(self, tx_context, *a, **k):
        p = self.tx._presets[tx_context.tx_in_idx]
        if p == "ok":
            return
        raise {"script": ScriptError("preset", 1), "value": ValueError("preset"), "index": IndexError("preset"),
               "type": TypeError("preset")}[p]


class _StubTx(Tx):
    SolutionChecker = _StubChecker


def _impl_context(st, idx):
    tx = build_tx(st)
    c = BSC(tx).tx_context_for_idx(idx)
    return (c.lock_time, c.version, c.puzzle_script, c.solution_script, [bytes(w) for w in c.witness_solution_stack],
            c.sequence, c.tx_in_idx)


def _impl_ok(st, idx, preset):
    tx = build_tx(st, _StubTx)
    tx._presets = [preset] * (len(tx.txs_in) + 1)
    return tx.is_solution_ok(idx)


def _impl_bad(st, presets):
    tx = build_tx(st, _StubTx)
    tx._presets = presets
    return tx.bad_solution_count()


_ZERO = bytes(32)


def _validation_cases(rng, tier):
    n = 250 if tier == "quick" else 5000
    for t in range(n):
        st = _rand_state(rng)
        n_in = len(st["ins"])
        r = rng.random()
        if r < 0.25:           # a coinbase or a near-coinbase
            st["ins"][0]["hash"] = _ZERO.hex() if rng.random() < 0.8 else (bytes(31) + b"\x01").hex()
            st["ins"][0]["index"] = 0xFFFFFFFF if rng.random() < 0.8 else rng.choice([0, 0xFFFFFFFE])
            if rng.random() < 0.7:
                st["ins"] = st["ins"][:1]
                n_in = 1
        k = rng.choice([0, max(0, n_in - 1), n_in, n_in, n_in, n_in + 1])
        st["unspents"] = [None if rng.random() < 0.3 else st_out(rng.choice([0, 1, rng.getrandbits(30)]),
                                                                bytes(rng.getrandbits(8) for _ in range(rng.choice([0, 1, 25]))))
                          for _ in range(k)]
        tok = tok_tx(st) + " " + tok_unspents(st)
        for idx in range(0, n_in + 2):
            yield Case("tx_context %s %s" % (tok, arg(idx)), (lambda st=st, i=idx: call(_impl_context, st, i)))
            yield Case("missing_unspent %s %s" % (tok, arg(idx)), (lambda st=st, i=idx: call(build_tx(st).missing_unspent, i)))
            for p in ("ok", "script", "value"):
                yield Case("is_solution_ok %s %s %s" % (tok, arg(idx), p), (lambda st=st, i=idx, p=p: call(_impl_ok, st, i, p)))
        presets = [rng.choice(["ok", "ok", "script", "script", "value"]) if rng.random() < 0.15 else rng.choice(["ok", "script"])
                   for _ in range(n_in)]
        yield Case("bad_solution_count %s [%s]" % (tok, ",".join(presets)), (lambda st=st, ps=presets: call(_impl_bad, st, ps)))


def model_cases(rng, tier):
    yield from _sig_cases(rng, tier)
    yield from _validation_cases(rng, tier)


def nontrivial(line, r):
    return not r.startswith("!")


# ------------------------------------------------------------------------------------------------
# signed transactions for the direct checks
KINDS = ["p2pkh", "p2wpkh", "p2sh-p2wpkh", "p2sh-ms", "p2wsh-ms"]
SV_OF = {"p2pkh": "L", "p2sh-ms": "L", "p2wpkh": "S", "p2sh-p2wpkh": "S", "p2wsh-ms": "S"}


def _key(rng):
    e = rng.randrange(1, 2 ** 200)
    return e, public_pair_to_sec(e * _G, compressed=True)


def _mk_kind(rng, kind):
    """(spent script, secret exponents to sign with, scripts for the p2sh lookup, script code)"""
    from pycoin.encoding.hash import hash160
    if kind == "p2pkh":
        e, sec = _key(rng)
        s = _C.for_p2pkh(hash160(sec))
        return s, [e], [], s
    if kind == "p2wpkh":
        e, sec = _key(rng)
        return _C.for_p2pkh_wit(hash160(sec)), [e], [], _C.for_p2pkh(hash160(sec))
    if kind == "p2sh-p2wpkh":
        e, sec = _key(rng)
        red = _C.for_p2pkh_wit(hash160(sec))
        return _C.for_p2sh(hash160(red)), [e], [red], _C.for_p2pkh(hash160(sec))
    ks = [_key(rng) for _ in range(3)]
    ms = _C.for_multisig(2, [k[1] for k in ks])
    use = rng.sample([k[0] for k in ks], 2)
    if kind == "p2sh-ms":
        return _C.for_p2sh(hash160(ms)), use, [ms], ms
    return _C.for_p2sh_wit(hashlib.sha256(ms).digest()), use, [ms], ms


def make_signed(rng, kinds, hts, n_out):
    """returns (state, meta) with meta[i] = {kind, ht, sv, code}; every input signed by pycoin's signer"""
    ins, uns, exps, scripts, meta = [], [], [], [], []
    for kind, ht in zip(kinds, hts):
        s, e, p, code = _mk_kind(rng, kind)
        ins.append(TxIn(bytes(rng.getrandbits(8) for _ in range(32)), rng.randrange(0, 5), b"",
                        rng.choice([0xFFFFFFFF, 0xFFFFFFFE, 0, rng.getrandbits(32)])))
        uns.append(TxOut(rng.randrange(1000, 10 ** 9), s))
        exps.append(e)
        scripts += p
        meta.append({"kind": kind, "ht": ht, "sv": SV_OF[kind], "code": code.hex()})
    outs = [TxOut(rng.randrange(1, 10 ** 8), _C.for_p2pkh(bytes(rng.getrandbits(8) for _ in range(20)))) for _ in range(n_out)]
    tx = Tx(rng.choice([1, 2]), ins, outs, rng.choice([0, 0, 500000, rng.getrandbits(31)]))
    tx.set_unspents(uns)
    lookup = build_p2sh_lookup(scripts)
    for i, ht in enumerate(hts):
        tx.sign(build_hash160_lookup(exps[i], [_G]), tx_in_idx_set={i}, hash_type=ht, p2sh_lookup=lookup)
    return st_from_tx(tx), meta


# ------------------------------------------------------------------------------------------------
# mutations: data -> (new state, index map old->new or None, touched fields [(name, j)] for single-field ones)
def apply_mutation(st, m):
    s = copy.deepcopy(st)
    op = m[0]
    n = len(s["ins"])
    ident = list(range(n))
    if op == "version":
        s["version"] = m[1]
        return s, ident, [("version", 0)]
    if op == "lock":
        s["lock"] = m[1]
        return s, ident, [("lock_time", 0)]
    if op == "prev_hash":
        s["ins"][m[1]]["hash"] = m[2]
        return s, ident, [("prev_hash", m[1])]
    if op == "prev_index":
        s["ins"][m[1]]["index"] = m[2]
        return s, ident, [("prev_index", m[1])]
    if op == "seq":
        s["ins"][m[1]]["seq"] = m[2]
        return s, ident, [("sequence", m[1])]
    if op == "out_amount":
        s["outs"][m[1]]["amount"] = m[2]
        return s, ident, [("out_amount", m[1])]
    if op == "out_script":
        s["outs"][m[1]]["script"] = m[2]
        return s, ident, [("out_script", m[1])]
    if op == "script_sig":
        s["ins"][m[1]]["script"] = m[2]
        return s, ident, [("script_sig", m[1])]
    if op == "witness":
        s["ins"][m[1]]["witness"] = m[2]
        return s, ident, [("witness", m[1])]
    if op == "spent_amount":
        s["unspents"][m[1]]["amount"] = m[2]
        return s, ident, [("spent_amount", m[1])]
    if op == "spent_script":
        s["unspents"][m[1]]["script"] = m[2]
        return s, ident, [("spent_script", m[1])]
    if op == "insert_input":
        p = m[1]
        s["ins"].insert(p, m[2])
        s["unspents"].insert(p, m[3])
        return s, [i if i < p else i + 1 for i in range(n)], None
    if op == "remove_input":
        j = m[1]
        del s["ins"][j]
        del s["unspents"][j]
        return s, [None if i == j else (i if i < j else i - 1) for i in range(n)], None
    if op == "perm_inputs":
        perm = m[1]                                    # new position p holds old input perm[p]
        s["ins"] = [st["ins"][q] for q in perm]
        s["unspents"] = [st["unspents"][q] for q in perm]
        return s, [perm.index(i) for i in range(n)], None
    if op == "insert_output":
        s["outs"].insert(m[1], m[2])
        return s, ident, None
    if op == "remove_output":
        del s["outs"][m[1]]
        return s, ident, None
    if op == "perm_outputs":
        s["outs"] = [st["outs"][q] for q in m[1]]
        return s, ident, None
    if op == "swap_unlock":
        a, b = m[1], m[2]
        for f in ("script", "witness"):
            s["ins"][a][f], s["ins"][b][f] = st["ins"][b][f], st["ins"][a][f]
        return s, ident, None
    raise ValueError("mutation " + str(op))


def _flip(v, bit):
    return v ^ (1 << bit)


def _flip_hex(hx, rng):
    b = bytearray(bytes.fromhex(hx))
    if not b:
        return "51"
    k = rng.randrange(len(b) * 8)
    b[k // 8] ^= 1 << (k % 8)
    return bytes(b).hex()


def gen_mutations(rng, st, dense):
    """single-field (bit flips + value changes) and structural mutations of a signed state"""
    n, k = len(st["ins"]), len(st["outs"])
    out = []
    bits32 = list(range(32)) if dense else rng.sample(range(32), 3)
    for b in bits32:
        out.append(["version", _flip(st["version"], b)])
        out.append(["lock", _flip(st["lock"], b)])
    out.append(["version", (st["version"] + 1) % 2 ** 32])
    out.append(["lock", (st["lock"] + 1) % 2 ** 32])
    for j in range(n):
        i = st["ins"][j]
        for _ in range(8 if dense else 2):
            out.append(["prev_hash", j, _flip_hex(i["hash"], rng)])
        out.append(["prev_hash", j, bytes(rng.getrandbits(8) for _ in range(32)).hex()])
        for b in (bits32 if dense else rng.sample(range(32), 2)):
            out.append(["prev_index", j, _flip(i["index"], b)])
            out.append(["seq", j, _flip(i["seq"], b)])
        out.append(["prev_index", j, (i["index"] + 1) % 2 ** 32])
        out.append(["seq", j, (i["seq"] + 1) % 2 ** 32])
        out.append(["seq", j, 0 if i["seq"] != 0 else 7])
        # unlocking data of input j (checked on the OTHER inputs only)
        out.append(["script_sig", j, _flip_hex(i["script"], rng)])
        out.append(["script_sig", j, ""])
        out.append(["witness", j, [_flip_hex(w, rng) for w in i["witness"]] if i["witness"] else ["00"]])
        out.append(["witness", j, []] if i["witness"] else ["witness", j, ["51", ""]])
        u = st["unspents"][j]
        for b in (range(64) if dense else rng.sample(range(64), 2)):
            v = _flip(u["amount"], b)
            if v != 0:
                out.append(["spent_amount", j, v])
        out.append(["spent_amount", j, u["amount"] + 1])
        for _ in range(6 if dense else 2):
            out.append(["spent_script", j, _flip_hex(u["script"], rng)])
    for q in range(k):
        o = st["outs"][q]
        for b in (range(64) if dense else rng.sample(range(64), 3)):
            out.append(["out_amount", q, _flip(o["amount"], b)])
        out.append(["out_amount", q, o["amount"] + 1])
        for _ in range(6 if dense else 2):
            out.append(["out_script", q, _flip_hex(o["script"], rng)])
        out.append(["out_script", q, o["script"] + "51"])
        out.append(["out_script", q, ""] if o["script"] else ["out_script", q, "51"])
    # structure
    for p in sorted(set([0, n, rng.randint(0, n)])):
        out.append(["insert_input", p, st_in(bytes(rng.getrandbits(8) for _ in range(32)), rng.randrange(9), b"", rng.getrandbits(32)),
                    st_out(rng.randrange(1, 10 ** 6), b"\x51")])
    for j in range(n):
        out.append(["remove_input", j])
    if n >= 2:
        a, b = rng.sample(range(n), 2)
        perm = list(range(n))
        perm[a], perm[b] = perm[b], perm[a]
        out.append(["perm_inputs", perm])
        out.append(["perm_inputs", list(range(1, n)) + [0]])
        out.append(["perm_inputs", list(reversed(range(n)))])
        out.append(["swap_unlock", a, b])
        if n >= 3:
            out.append(["swap_unlock", 0, n - 1])
    for p in sorted(set([0, k, rng.randint(0, k)])):
        out.append(["insert_output", p, st_out(rng.randrange(1, 10 ** 6), bytes(rng.getrandbits(8) for _ in range(rng.choice([0, 22, 25]))))])
    for q in range(k):
        out.append(["remove_output", q])
    if k >= 2:
        a, b = rng.sample(range(k), 2)
        perm = list(range(k))
        perm[a], perm[b] = perm[b], perm[a]
        out.append(["perm_outputs", perm])
        out.append(["perm_outputs", list(range(1, k)) + [0]])
    return out


def _ctx_tok(st, meta_i, idx):
    u = st["unspents"][idx]
    return "%s x%s %s" % (tok_tx(st), meta_i["code"], arg(u["amount"] if u is not None else 0))


_DRV = None


def _model(lines):
    """ask the extracted model (no oracle needed for these functions)"""
    global _DRV
    if _DRV is None:
        _DRV = Driver(DRIVER, None, False)
    return _DRV.run(lines)


def _sigs_in(st_in_):
    """signature-looking data items of an input's unlocking data"""
    items = [bytes.fromhex(w) for w in st_in_["witness"]]
    sc = bytes.fromhex(st_in_["script"])
    try:
        for op, data, pc, npc in ST.get_opcodes(sc):
            if data:
                items.append(bytes(data))
                # a pushed redeem script may itself contain nothing signature-like; fine
    except Exception:
        pass
    return [d for d in items if 60 <= len(d) <= 74 and d[0] == 0x30]


def _corrupt_sigs(st, i):
    s = copy.deepcopy(st)
    for sig in _sigs_in(st["ins"][i]):
        bad = bytearray(sig)
        bad[len(bad) // 2 + 4] ^= 0x10
        s["ins"][i]["script"] = bytes.fromhex(s["ins"][i]["script"]).replace(sig, bytes(bad)).hex()
        s["ins"][i]["witness"] = [bytes.fromhex(w).replace(sig, bytes(bad)).hex() if bytes.fromhex(w) == sig else w
                                  for w in s["ins"][i]["witness"]]
    return s


def _ok(st, i):
    return build_tx(st).is_solution_ok(i)


def chk_mutation(st, meta, m, i, model_same=None, model_committed=None):
    """input i of the signed state st after mutation m: is_solution_ok must equal the model's verdict"""
    s2, imap, touched = apply_mutation(st, m)
    i2 = imap[i]
    if i2 is None:
        return None
    mi = meta[i]
    if m[0] == "spent_script" and m[1] == i:
        # the script being satisfied changed: the old signature must not carry over — either the input fails, or the
        # new script accepts the input whatever the signatures are
        if _ok(s2, i2) and not _ok(_corrupt_sigs(s2, i2), i2):
            return {"kind": "signature-survives-spent-script-change", "input": i, "ht": mi["ht"], "input_kind": mi["kind"]}
        return None
    if model_same is None:
        model_same = _model(["same_fed %s %s %s %s %s %s" % (mi["sv"], arg(mi["ht"]), arg(i), _ctx_tok(st, mi, i), arg(i2), _ctx_tok(s2, mi, i2))])[0]
    if model_same not in ("(T T)", "(F T)"):
        return {"kind": "model-not-a-value", "model": model_same}
    if m[0] == "swap_unlock" and i in (m[1], m[2]):
        expect = False                                  # another key's unlocking data
    else:
        expect = model_same == "(T T)"
    com = None
    if touched is not None and len(touched) == 1 and touched[0][0] != "spent_script":
        name, j = touched[0]
        if name == "spent_amount" and j != i:
            com = "F"                                   # other inputs' spent outputs are not even an argument
        else:
            if model_committed is None:
                has_out = i < len(st["outs"])
                model_committed = _model(["committed %s %s %s %s %s %s" % (mi["sv"], arg(mi["ht"]), arg(i), arg(has_out), name, arg(j))])[0]
            com = model_committed
        # single-field change: the proved classification (consensus constants) is the requirement
        expect = com != "T"
    got = _ok(s2, i2)
    if got != expect:
        return {"kind": "committed-change-still-valid" if got else "uncommitted-change-invalidates",
                "input": i, "new_index": i2, "ht": mi["ht"], "input_kind": mi["kind"], "expected": expect, "got": got,
                "model_same_fed": model_same, "model_committed": com}
    if com is not None and (com == "T") == (model_same == "(T T)"):
        # cannot happen while Proofs/CommitP.v compiles (C06_commitment_injective / C06_uncommitted_invariant)
        return {"kind": "model-classification-inconsistent", "committed": com, "same_fed": model_same, "field": list(touched[0])}
    return None


def chk_signed_valid(st, meta):
    tx = build_tx(st)
    bad = [i for i in range(len(st["ins"])) if not tx.is_solution_ok(i)]
    if bad or tx.bad_solution_count() != 0:
        return {"kind": "signed-input-not-valid", "inputs": bad, "meta": [(meta[i]["kind"], meta[i]["ht"]) for i in bad]}
    return None


def chk_missing(st, meta, mode, i):
    """unknown spent output of input i: never valid; the other inputs keep their verdict"""
    n = len(st["ins"])
    s = copy.deepcopy(st)
    if mode == "none":
        s["unspents"][i] = None
    elif mode == "short":
        s["unspents"] = s["unspents"][:i]
    elif mode == "empty":
        s["unspents"] = []
    tx = build_tx(s)
    verdicts = [tx.is_solution_ok(j) for j in range(n)]
    if verdicts[i]:
        return {"kind": "missing-unspent-valid", "mode": mode, "input": i}
    for j in range(n):
        unknown = j >= len(s["unspents"]) or s["unspents"][j] is None
        if unknown and verdicts[j]:
            return {"kind": "missing-unspent-valid", "mode": mode, "input": j}
        # a legacy input does not read other inputs' unspents; a BIP143 one reads only its own
        if not unknown and not verdicts[j]:
            return {"kind": "valid-input-fails-when-another-unspent-is-missing", "mode": mode, "input": j, "missing": i}
    if tx.missing_unspent(i) is not True:
        return {"kind": "missing_unspent-false", "mode": mode, "input": i}
    cnt = tx.bad_solution_count()
    if cnt != sum(1 for v in verdicts if not v):
        return {"kind": "bad_solution_count-mismatch", "count": cnt, "verdicts": verdicts}
    return None


def chk_coinbase_unspent(script_hex, unspent_script_hex):
    """a coinbase input has no spent output (Tx.missing_unspent is True): it must not be reported valid on the
    strength of a recorded unspent"""
    st = st_new(1, 0, [st_in(_ZERO, 0xFFFFFFFF, bytes.fromhex(script_hex))], [st_out(50, b"\x51")],
                [st_out(1, bytes.fromhex(unspent_script_hex))])
    tx = build_tx(st)
    if tx.missing_unspent(0) and tx.is_solution_ok(0):
        return {"kind": "coinbase-input-valid-with-missing-unspent", "missing_unspent": True, "is_solution_ok": True,
                "recorded_script_ignored": unspent_script_hex}
    return None


def _fresh_verdicts(st):
    """verdicts of a FRESH object rebuilt from bytes (transaction from its serialization, unspents rebuilt)"""
    tx0 = build_tx(st)
    tx = Tx.from_bin(tx0.as_bin())
    tx.unspents = [None if u is None else TxOut(u["amount"], bytes.fromhex(u["script"])) for u in st["unspents"]]
    return [tx.is_solution_ok(j) for j in range(len(tx.txs_in))]


def _set_live(tx, st):
    """write state st into the live object tx IN PLACE (same Tx object; field objects replaced or edited)"""
    tx.version = st["version"]
    tx.lock_time = st["lock"]
    # edit existing TxIn objects where possible, so that per-object caches (if any) would be exercised
    while len(tx.txs_in) > len(st["ins"]):
        tx.txs_in.pop()
    for j, i in enumerate(st["ins"]):
        if j < len(tx.txs_in):
            t = tx.txs_in[j]
            t.previous_hash, t.previous_index, t.script, t.sequence = bytes.fromhex(i["hash"]), i["index"], bytes.fromhex(i["script"]), i["seq"]
        else:
            t = TxIn(bytes.fromhex(i["hash"]), i["index"], bytes.fromhex(i["script"]), i["seq"])
            tx.txs_in.append(t)
        t.witness = tuple(bytes.fromhex(w) for w in i["witness"])
    while len(tx.txs_out) > len(st["outs"]):
        tx.txs_out.pop()
    for q, o in enumerate(st["outs"]):
        if q < len(tx.txs_out):
            tx.txs_out[q].coin_value, tx.txs_out[q].script = o["amount"], bytes.fromhex(o["script"])
        else:
            tx.txs_out.append(TxOut(o["amount"], bytes.fromhex(o["script"])))
    us = []
    for j, u in enumerate(st["unspents"]):
        if u is None:
            us.append(None)
        elif j < len(tx.unspents) and tx.unspents[j] is not None:
            tx.unspents[j].coin_value, tx.unspents[j].script = u["amount"], bytes.fromhex(u["script"])
            us.append(tx.unspents[j])
        else:
            us.append(TxOut(u["amount"], bytes.fromhex(u["script"])))
    tx.unspents[:] = us


def chk_history(st, muts, order_seed):
    """mutate / validate / undo on ONE object; after every step its verdicts (queried in a shuffled order, some twice)
    must equal those of a fresh object rebuilt from bytes"""
    r = random.Random(order_seed)
    live = build_tx(st)
    states = [st]
    for m in muts:
        s2, _, _ = apply_mutation(st, m)
        states += [s2, st]                     # mutate, then undo
    for step, s in enumerate(states):
        _set_live(live, s)
        n = len(s["ins"])
        order = list(range(n)) + r.sample(range(n), min(n, 2))
        r.shuffle(order)
        got = {}
        for j in order:
            v = live.is_solution_ok(j)
            if j in got and got[j] != v:
                return {"kind": "verdict-changes-between-two-calls", "step": step, "input": j}
            got[j] = v
        fresh = _fresh_verdicts(s)
        if [got[j] for j in range(n)] != fresh:
            return {"kind": "stale-verdict-on-reused-object", "step": step, "live": [got[j] for j in range(n)], "fresh": fresh,
                    "mutation": muts[(step - 1) // 2] if step else None}
        bc = live.bad_solution_count()
        if bc != sum(1 for v in fresh if not v):
            return {"kind": "bad_solution_count-stale", "step": step, "count": bc, "fresh": fresh}
    return None


# ------------------------------------------------------------------------------------------------
def _signed_batches(rng, tier, hts_pool=None):
    """yield (state, meta) of signed transactions covering kinds x hash types, some with SINGLE and no matching output"""
    n_tx = 24 if tier == "quick" else 520
    pool = hts_pool or HT_STD
    t = 0
    while t < n_tx:
        n_in = rng.choice([2, 3, 3])
        kinds = [KINDS[(t + a * 2) % 5] for a in range(n_in)]
        rng.shuffle(kinds)
        hts = [pool[(t + a) % len(pool)] for a in range(n_in)]
        if hts_pool is None and tier == "thorough" and t % 9 == 8:
            hts = [rng.choice(HT_ODD) for _ in range(n_in)]
        n_out = rng.choice([1, 2, 2, 3, 3, 4])
        if t % 4 == 0:                                  # SIGHASH_SINGLE on an input without a matching output
            n_out = rng.choice([1, n_in - 1])
            hts[-1] = 3 if t % 8 else 0x83
        st, meta = make_signed(rng, kinds, hts, n_out)
        t += 1
        yield st, meta


def _mutation_cases(rng, tier, batches):
    for st, meta in batches:
        inp0 = {"state": st, "meta": meta}
        yield PropCase("signed_valid", inp0, (lambda st=st, meta=meta: chk_signed_valid(st, meta)))
        muts = gen_mutations(rng, st, dense=(tier == "thorough" and rng.random() < 0.15))
        # one driver run for the whole transaction
        lines, keys = [], []
        for mi_, m in enumerate(muts):
            s2, imap, touched = apply_mutation(st, m)
            for i in range(len(st["ins"])):
                if imap[i] is None or (m[0] == "spent_script" and m[1] == i):
                    continue
                mi = meta[i]
                lines.append("same_fed %s %s %s %s %s %s" % (mi["sv"], arg(mi["ht"]), arg(i), _ctx_tok(st, mi, i), arg(imap[i]), _ctx_tok(s2, mi, imap[i])))
                keys.append((mi_, i, "same"))
                if touched is not None and len(touched) == 1 and touched[0][0] != "spent_script" and not (touched[0][0] == "spent_amount" and touched[0][1] != i):
                    lines.append("committed %s %s %s %s %s %s" % (mi["sv"], arg(mi["ht"]), arg(i), arg(i < len(st["outs"])), touched[0][0], arg(touched[0][1])))
                    keys.append((mi_, i, "com"))
        res = dict(zip(keys, _model(lines)))
        for mi_, m in enumerate(muts):
            for i in range(len(st["ins"])):
                if m[0] in ("script_sig", "witness") and m[1] == i:
                    continue                        # own unlocking data: not a mutation of the signed message
                yield PropCase("mutation", {"state": st, "meta": meta, "mutation": m, "input": i},
                               (lambda st=st, meta=meta, m=m, i=i, a=res.get((mi_, i, "same")), b=res.get((mi_, i, "com")):
                                chk_mutation(st, meta, m, i, a, b)))
        for i in range(len(st["ins"])):
            for mode in ("none", "short", "empty"):
                yield PropCase("missing_unspent", {"state": st, "meta": meta, "mode": mode, "input": i},
                               (lambda st=st, meta=meta, mode=mode, i=i: chk_missing(st, meta, mode, i)))
        hm = [m for m in rng.sample(muts, min(len(muts), 10 if tier == "quick" else 14))]
        seed = rng.getrandbits(32)
        yield PropCase("history", {"state": st, "meta": meta, "mutations": hm, "order_seed": seed},
                       (lambda st=st, hm=hm, seed=seed: chk_history(st, hm, seed)))


def _large_index_cases(rng, tier):
    """a transaction with 260 inputs: signed inputs at positions 254..259 — beyond one byte and beyond CPython's small-int
    cache (-5..256), where `is` and `==` on ints part ways (seed C06-e1).  The commitment theorems hold for every index;
    here the implementation is asked about those positions: own sequence / outpoint / output / lock time changes."""
    n_in = 260
    kinds = ["p2pkh"] * n_in
    hts = [HT_STD[a % len(HT_STD)] for a in range(n_in)]
    for j, (kind, ht) in zip(range(254, 260), [("p2pkh", 1), ("p2pkh", 2), ("p2pkh", 3), ("p2sh-ms", 0x82), ("p2pkh", 0x83), ("p2wpkh", 2)]):
        kinds[j], hts[j] = kind, ht
    if tier == "thorough":
        for j in range(0, 254):
            kinds[j] = KINDS[j % 5]
    st, meta = make_signed(rng, kinds, hts, n_in)
    yield PropCase("signed_valid", {"state": st, "meta": meta}, (lambda: chk_signed_valid(st, meta)))
    for i in ([0, 1] + list(range(254, 260))):
        cur = st["ins"][i]
        other = 257 if i != 257 else 3
        muts = [["seq", i, (cur["seq"] + 1) % 2 ** 32], ["seq", i, 0 if cur["seq"] != 0 else 7], ["seq", i, _flip(cur["seq"], 31)],
                ["prev_index", i, (cur["index"] + 1) % 2 ** 32], ["prev_hash", i, _flip_hex(cur["hash"], rng)],
                ["seq", other, (st["ins"][other]["seq"] + 1) % 2 ** 32], ["prev_index", other, (st["ins"][other]["index"] + 1) % 2 ** 32],
                ["out_amount", i, st["outs"][i]["amount"] + 1], ["out_amount", other, st["outs"][other]["amount"] + 1],
                ["lock", (st["lock"] + 1) % 2 ** 32], ["spent_amount", i, st["unspents"][i]["amount"] + 1]]
        for m in muts:
            yield PropCase("mutation", {"state": st, "meta": meta, "mutation": m, "input": i},
                           (lambda m=m, i=i: chk_mutation(st, meta, m, i)))


def prop_cases(rng, tier):
    yield from _mutation_cases(rng, tier, _signed_batches(rng, tier))
    yield from _large_index_cases(rng, tier)
    for sc, us in [("51", "00"), ("51", ""), ("0151", "76a914" + "00" * 20 + "88ac")]:
        yield PropCase("coinbase_unspent", {"script": sc, "unspent_script": us}, (lambda sc=sc, us=us: chk_coinbase_unspent(sc, us)))


def replay_input(check, inp):
    if check == "signed_valid":
        return chk_signed_valid(inp["state"], inp["meta"])
    if check == "mutation":
        return chk_mutation(inp["state"], inp["meta"], inp["mutation"], inp["input"])
    if check == "missing_unspent":
        return chk_missing(inp["state"], inp["meta"], inp["mode"], inp["input"])
    if check == "history":
        return chk_history(inp["state"], inp["mutations"], inp["order_seed"])
    if check == "coinbase_unspent":
        return chk_coinbase_unspent(inp["script"], inp["unspent_script"])
    return {"kind": "unknown-check"}


def classify(pc, r):
    return None


KNOWN_REPLAYS = {}


def search(rng, tier, disagreements, known_ids):
    """after a proof/correspondence break: look for a signed transaction and a mutation on which the property fails.
    First the hash types / signature versions of the disagreeing cases, then the generic generator (larger budget)."""
    hts = []
    for d in disagreements[:200]:
        toks = d["case"].split(" ")
        if toks[0] in ("legacy_sighash", "segwit_preimage", "segwit_sighash"):
            try:
                h = int(toks[-1][1:], 16)
                if 0 <= h < 256 and h not in hts:
                    hts.append(h)
            except ValueError:
                pass
    plans = []
    if hts:
        plans.append(hts[:12])
    plans.append(None)
    for pool in plans:
        for pc in _mutation_cases(rng, "quick" if tier == "quick" else "thorough", _signed_batches(rng, "quick", pool)):
            try:
                r = pc.thunk()
            except Exception as e:
                r = {"kind": "raises", "detail": "%s: %s" % (type(e).__name__, e)}
            if r is not None and classify(pc, r) not in known_ids:
                return {"check": pc.name, "input": pc.inp, "failure": r}
    return None
