"""c02_ops.py — the operations of property C02 executed on the real pycoin objects.

Used in-process (toy curves) and by c02_worker.py (one subprocess per PYCOIN_NATIVE configuration, because the
switch is read at import time).  Every op returns the canonical string of common.canon / an exception tag.
A curve descriptor is either the name of a shipped generator or a tuple
  ("curve", p, a, b, n_or_None)                      -> Curve(p, a, b, order)
  ("gen", p, a, b, Gx, Gy, n, entropy)               -> Generator(p, a, b, (Gx, Gy), n, entropy_f=fixed)
"""
from __future__ import annotations
from common import canon, exn_tag

_cache = {}


def make_generator(p, a, b, basis, n, entropy: int):
    """Generator(p, a, b, basis, n, entropy_f=...) through the public constructor"""
    from pycoin.ecdsa.Generator import Generator
    return Generator(p, a, b, basis, n, entropy_f=entropy_f_for(entropy))


def entropy_f_for(entropy: int):
    def f(nbytes):
        # Generator.__init__ asks for 32 bytes and reads them big-endian; larger test values use more bytes
        width = max(nbytes, (entropy.bit_length() + 7) // 8)
        return entropy.to_bytes(width, "big")
    return f


def get_obj(desc):
    key = desc if isinstance(desc, str) else tuple(desc)
    if key in _cache:
        return _cache[key]
    if isinstance(desc, str):
        if desc == "secp256k1":
            from pycoin.ecdsa.secp256k1 import secp256k1_generator as o
        elif desc == "secp256r1":
            from pycoin.ecdsa.secp256r1 import secp256r1_generator as o
        elif desc == "bls12_381_g1":
            from pycoin.ecdsa.bls12_381_g1 import bls12_381_g1 as o
        else:
            raise KeyError(desc)
    elif desc[0] == "curve":
        from pycoin.ecdsa.Curve import Curve
        _, p, a, b, n = desc
        o = Curve(p, a, b, n)
    elif desc[0] == "gen":
        _, p, a, b, gx, gy, n, ent = desc
        o = make_generator(p, a, b, (gx, gy), n, ent)
    elif desc[0] == "accgen":
        # a Generator of the ACCELERATED class of a shipped curve (type(secp256k1_generator) ...) over the shipped
        # parameters but with ANOTHER basis point: a second generator of the same group (seed C02-d1: the native
        # fixed-base multiplication used the named group's own base point instead of the instance's)
        _, base, hx, hy, ent = desc
        g0 = get_obj(base)
        o = type(g0)(g0._p, g0._a, g0._b, (hx, hy), g0._order, entropy_f=entropy_f_for(ent))
    else:
        raise KeyError(desc)
    _cache[key] = o
    return o


# ---- presentations: which Python OBJECT stands for a point / a scalar -----------------------------------------
# index k of a point presentation (the driver's object-level lines use the same numbering; k >= 3: twin curve object)
PRESENTATIONS = ["canon",       # curve.infinity() / curve.Point(x, y)
                 "ctor",        # Point(x, y, curve), Point(None, None, curve)
                 "rebuilt",     # rebuilt from the coordinates of another object; finite coordinates as int-subclass instances
                 "twin",        # twin.infinity() / twin.Point(x, y): a second Curve/Generator object with the same parameters
                 "twin_ctor",   # Point(x, y, twin)
                 "plain"]       # a plain Curve(p, a, b, n) object with the same parameters (no Generator, no native code)
_twins = {}


class IntSub(int):
    """an int subclass instance: a legal presentation of an integer"""
    pass


def _params(o):
    return (o._p, o._a, o._b, o._order)


def get_twin(desc, plain=False):
    key = (desc if isinstance(desc, str) else tuple(desc), plain)
    if key not in _twins:
        from pycoin.ecdsa.Curve import Curve
        o = get_obj(desc)
        if plain or isinstance(desc, str) or desc[0] == "curve":
            t = Curve(*_params(o))
        else:
            _, p, a, b, gx, gy, n, ent = desc
            t = make_generator(p, a, b, (gx, gy), n, ent + 1)
        _twins[key] = t
    return _twins[key]


def mkpt_pres(desc, P, k):
    from pycoin.ecdsa.Point import Point
    c = get_obj(desc)
    xy = (None, None) if P is None else (P[0], P[1])
    if k == 0:
        return mkpt(c, P)
    if k == 1:
        return Point(xy[0], xy[1], c)
    if k == 2:
        if P is None:
            return Point(*tuple(mkpt(c, None)), c)
        return Point(IntSub(xy[0]), IntSub(xy[1]), c)
    if k == 3:
        t = get_twin(desc)
        return t.infinity() if P is None else t.Point(xy[0], xy[1])
    if k == 4:
        return Point(xy[0], xy[1], get_twin(desc))
    if k == 5:
        return Point(xy[0], xy[1], get_twin(desc, plain=True))
    raise KeyError(k)


def mk_scalar(e, ks):
    """scalar presentations: 0 int, 1 int subclass, 2 bool (only 0 / 1)"""
    if ks == 1:
        return IntSub(e)
    if ks == 2:
        return bool(e)
    return e


def entropy_f_kind(entropy: int, kind: str):
    base = entropy_f_for(entropy)
    if kind == "bytearray":
        return lambda n: bytearray(base(n))
    if kind == "memoryview":
        return lambda n: memoryview(base(n))
    return base


def probe(g, ks, xs):
    """observations on a generator object + the state it carries"""
    obs = [cpt(g * k) for k in ks] + [cpt(k * g) for k in ks[:2]] + [cpt(g.raw_mul(k)) for k in ks[:3]]
    obs += [cpt(g.multiply(g, ks[0])), cpt(-g), cpt(g + g), cpt(g.infinity() + g)]
    for x in xs:
        try:
            p0, p1 = g.points_for_x(x)
            obs.append("(%s %s)" % (cpt(p0), cpt(p1)))
        except Exception as e:  # noqa
            obs.append(tag(e))
    state = [cpt(g), canon(g._bit_count), canon(len(g._powers)), canon([(P[0], P[1]) for P in g._powers[:4]]),
             canon(g._blinding_factor), cpt(g._minus_blinding_factor_g), cpt(g.infinity()), canon(g.infinity() is g._infinity),
             canon(list(_params(g)))]
    return obs, state


def history(desc, seed, ks, xs):
    """observe, run a random history of other calls on the same and on other objects, observe again"""
    import random
    from pycoin.ecdsa.Curve import Curve
    from pycoin.ecdsa.Point import Point
    rng = random.Random(seed)
    g = get_obj(desc)
    before = probe(g, ks, xs)
    p, a, b, n = _params(g)
    other = Curve(23, 1, 1, 7)
    Q = Point(13, 7, other)
    twin = get_twin(desc, plain=True)
    pts = [g * 3, g * 5, twin.Point(g[0], g[1]), twin.infinity(), Point(None, None, g), g.infinity()]
    log = []
    for _ in range(rng.randint(8, 20)):
        act = rng.randrange(12)
        try:
            if act == 0:
                pts.append(g * rng.choice([0, 1, -1, n, n + 1, rng.getrandbits(300), -rng.getrandbits(64), IntSub(7), True]))
            elif act == 1:
                pts.append(g.raw_mul(rng.getrandbits(rng.choice([8, 256, 300])) - rng.getrandbits(8)))
            elif act == 2:
                g.Point(1, 1)                 # off the curve: NoSuchPointError
            elif act == 3:
                g.points_for_x(rng.randrange(p))
            elif act == 4:
                pts.append(rng.choice(pts) + rng.choice(pts))
            elif act == 5:
                pts.append(rng.choice(pts) - rng.choice(pts))
            elif act == 6:
                pts.append(rng.choice(pts) * rng.choice([0, 1, 2, n - 1, -3, rng.getrandbits(70)]))
            elif act == 7:
                (Q + Q) * 5 + other.infinity()   # another curve object in between
            elif act == 8:
                pts.append(-rng.choice(pts))
            elif act == 9:
                g.inverse(rng.randrange(1, n))
            elif act == 10:
                g.multiply(rng.choice(pts), rng.getrandbits(40))
            else:
                g.inverse_mod(0, 0)           # ZeroDivisionError / native error path
            log.append(act)
        except Exception as e:  # noqa
            log.append((act, type(e).__name__))
    after = probe(g, ks, xs)
    return before, after


def tag(e):
    if isinstance(e, ZeroDivisionError):
        return "!E_OTHER"
    return "!" + exn_tag(e)


def mkpt(c, P):
    if P is None:
        return c.infinity()
    return c.Point(P[0], P[1])


def cpt(P):
    """canonical form of a point result; checks it really is a 2-tuple"""
    if not isinstance(P, tuple) or len(P) != 2:
        return "!NOT-A-POINT:" + repr(P)[:60]
    return canon((P[0], P[1]))


def run_op(op):
    """op = [name, curve-descriptor, args...]"""
    name = op[0]
    try:
        if name == "mk_gen":
            # constructor outcome: (basis, bit_count, blinding factor); never cached
            _, p, a, b, gx, gy, n, ent = op
            g = make_generator(p, a, b, (gx, gy), n, ent)
            return "(%s %s %s)" % (cpt(g), canon(g._bit_count), canon(g._blinding_factor))
        if name == "leftmost_bit":
            from pycoin.ecdsa.Curve import _leftmost_bit
            return canon(_leftmost_bit(op[1]))
        if name == "inverse_mod_plain":
            from pycoin.ecdsa.Curve import Curve
            return canon(Curve(23, 1, 1).inverse_mod(op[1], op[2]))
        if name == "mk_gen_bytes":
            from pycoin.ecdsa.Generator import Generator
            _, p, a, b, gx, gy, n, ent, kind = op
            g = Generator(p, a, b, (gx, gy), n, entropy_f=entropy_f_kind(ent, kind))
            return "(%s %s %s %s)" % (cpt(g), canon(g._bit_count), canon(g._blinding_factor), cpt(g * 5))
        if name == "history":
            before, after = history(op[1], op[2], op[3], op[4])
            import json
            return json.dumps([before[0], before[1], after[0], after[1]])
        if name == "x_add":               # operands living on two different curve objects
            return cpt(mkpt(get_obj(op[1]), op[2]) + mkpt(get_obj(op[3]), op[4]))
        if name.startswith("p_"):
            d = op[1]
            if name == "p_add":
                return cpt(mkpt_pres(d, op[2], op[3]) + mkpt_pres(d, op[4], op[5]))
            if name == "p_sub":
                return cpt(mkpt_pres(d, op[2], op[3]) - mkpt_pres(d, op[4], op[5]))
            if name == "p_cadd":
                return cpt(get_obj(d).add(mkpt_pres(d, op[2], op[3]), mkpt_pres(d, op[4], op[5])))
            if name == "p_neg":
                return cpt(-mkpt_pres(d, op[2], op[3]))
            if name == "p_mul":
                return cpt(mkpt_pres(d, op[2], op[3]) * mk_scalar(op[4], op[5]))
            if name == "p_rmul":
                return cpt(mk_scalar(op[4], op[5]) * mkpt_pres(d, op[2], op[3]))
            if name == "p_cmul":
                return cpt(get_obj(d).multiply(mkpt_pres(d, op[2], op[3]), mk_scalar(op[4], op[5])))
            if name == "p_gmul":          # generator * scalar presentations
                return cpt(get_obj(d) * mk_scalar(op[2], op[3]))
            if name == "p_raw_mul":
                return cpt(get_obj(d).raw_mul(mk_scalar(op[2], op[3])))
            return "!UNKNOWN-OP " + name
        c = get_obj(op[1])
        a = op[2:]
        if name == "inverse_mod":
            return canon(c.inverse_mod(a[0], a[1]))
        if name == "contains":
            P = a[0]
            return canon(c.contains_point(*(P if P is not None else (None, None))))
        if name == "point":
            return cpt(c.Point(a[0], a[1]))
        if name == "add":
            return cpt(mkpt(c, a[0]) + mkpt(c, a[1]))
        if name == "curve_add":
            return cpt(c.add(mkpt(c, a[0]), mkpt(c, a[1])))
        if name == "sub":
            return cpt(mkpt(c, a[0]) - mkpt(c, a[1]))
        if name == "neg":
            return cpt(-mkpt(c, a[0]))
        if name == "multiply":            # P * e  (Point.__mul__ -> curve.multiply)
            return cpt(mkpt(c, a[0]) * a[1])
        if name == "rmultiply":           # e * P
            return cpt(a[1] * mkpt(c, a[0]))
        if name == "curve_multiply":      # curve.multiply(P, e)
            return cpt(c.multiply(mkpt(c, a[0]), a[1]))
        if name == "multiply_self":       # curve.multiply(G, e) with G the generator object itself
            return cpt(c.multiply(c, a[0]))
        if name == "raw_mul":
            return cpt(c.raw_mul(a[0]))
        if name == "gmul":                # G * e (blinded)
            return cpt(c * a[0])
        if name == "rgmul":               # e * G
            return cpt(a[0] * c)
        if name == "neg_self":
            return cpt(-c)
        if name == "modular_sqrt":
            return canon(c.modular_sqrt(a[0]))
        if name == "g_inverse":
            return canon(c.inverse(a[0]))
        if name == "points_for_x":
            p0, p1 = c.points_for_x(a[0])
            return "(%s %s)" % (cpt(p0), cpt(p1))
        if name == "shared":
            from pycoin.ecdsa.encrypt import generate_shared_public_key
            return cpt(generate_shared_public_key(a[0], (a[1], a[2]), c))
        if name == "gen_fields":
            return "(%s %s %s)" % (cpt(c), canon(c._bit_count), canon(c._blinding_factor))
        return "!UNKNOWN-OP " + name
    except Exception as e:  # noqa
        return tag(e)
