"""c02_ops.py — the operations of property C02 executed on the real pycoin objects.

Used in-process (toy curves) and by c02_worker.py (one subprocess per PYCOIN_NATIVE configuration, because the
switch is read at import time).  Every op returns the canonical string of common.canon / an exception tag.
A curve descriptor is either the name of a shipped generator or a tuple
  ("curve", p, a, b, n_or_None)                      -> Curve(p, a, b, order)
  ("gen", p, a, b, Gx, Gy, n, entropy)               -> Generator(p, a, b, (Gx, Gy), n, entropy_f=fixed)
"""
from __future__ import annotations
from common import canon, exn_tag

_cache = {}


def make_generator(p, a, b, basis, n, entropy: int):
    """Generator(p, a, b, basis, n, entropy_f=...) through the public constructor"""
    from pycoin.ecdsa.Generator import Generator
    return Generator(p, a, b, basis, n, entropy_f=entropy_f_for(entropy))


def entropy_f_for(entropy: int):
    def f(nbytes):
        # Generator.__init__ asks for 32 bytes and reads them big-endian; larger test values use more bytes
        width = max(nbytes, (entropy.bit_length() + 7) // 8)
        return entropy.to_bytes(width, "big")
    return f


def get_obj(desc):
    key = desc if isinstance(desc, str) else tuple(desc)
    if key in _cache:
        return _cache[key]
    if isinstance(desc, str):
        if desc == "secp256k1":
            from pycoin.ecdsa.secp256k1 import secp256k1_generator as o
        elif desc == "secp256r1":
            from pycoin.ecdsa.secp256r1 import secp256r1_generator as o
        elif desc == "bls12_381_g1":
            from pycoin.ecdsa.bls12_381_g1 import bls12_381_g1 as o
        else:
            raise KeyError(desc)
    elif desc[0] == "curve":
        from pycoin.ecdsa.Curve import Curve
        _, p, a, b, n = desc
        o = Curve(p, a, b, n)
    elif desc[0] == "gen":
        _, p, a, b, gx, gy, n, ent = desc
        o = make_generator(p, a, b, (gx, gy), n, ent)
    else:
        raise KeyError(desc)
    _cache[key] = o
    return o


def tag(e):
    if isinstance(e, ZeroDivisionError):
        return "!E_OTHER"
    return "!" + exn_tag(e)


def mkpt(c, P):
    if P is None:
        return c.infinity()
    return c.Point(P[0], P[1])


def cpt(P):
    """canonical form of a point result; checks it really is a 2-tuple"""
    if not isinstance(P, tuple) or len(P) != 2:
        return "!NOT-A-POINT:" + repr(P)[:60]
    return canon((P[0], P[1]))


def run_op(op):
    """op = [name, curve-descriptor, args...]"""
    name = op[0]
    try:
        if name == "mk_gen":
            # constructor outcome: (basis, bit_count, blinding factor); never cached
            _, p, a, b, gx, gy, n, ent = op
            g = make_generator(p, a, b, (gx, gy), n, ent)
            return "(%s %s %s)" % (cpt(g), canon(g._bit_count), canon(g._blinding_factor))
        if name == "leftmost_bit":
            from pycoin.ecdsa.Curve import _leftmost_bit
            return canon(_leftmost_bit(op[1]))
        if name == "inverse_mod_plain":
            from pycoin.ecdsa.Curve import Curve
            return canon(Curve(23, 1, 1).inverse_mod(op[1], op[2]))
        c = get_obj(op[1])
        a = op[2:]
        if name == "inverse_mod":
            return canon(c.inverse_mod(a[0], a[1]))
        if name == "contains":
            P = a[0]
            return canon(c.contains_point(*(P if P is not None else (None, None))))
        if name == "point":
            return cpt(c.Point(a[0], a[1]))
        if name == "add":
            return cpt(mkpt(c, a[0]) + mkpt(c, a[1]))
        if name == "curve_add":
            return cpt(c.add(mkpt(c, a[0]), mkpt(c, a[1])))
        if name == "sub":
            return cpt(mkpt(c, a[0]) - mkpt(c, a[1]))
        if name == "neg":
            return cpt(-mkpt(c, a[0]))
        if name == "multiply":            # P * e  (Point.__mul__ -> curve.multiply)
            return cpt(mkpt(c, a[0]) * a[1])
        if name == "rmultiply":           # e * P
            return cpt(a[1] * mkpt(c, a[0]))
        if name == "curve_multiply":      # curve.multiply(P, e)
            return cpt(c.multiply(mkpt(c, a[0]), a[1]))
        if name == "multiply_self":       # curve.multiply(G, e) with G the generator object itself
            return cpt(c.multiply(c, a[0]))
        if name == "raw_mul":
            return cpt(c.raw_mul(a[0]))
        if name == "gmul":                # G * e (blinded)
            return cpt(c * a[0])
        if name == "rgmul":               # e * G
            return cpt(a[0] * c)
        if name == "neg_self":
            return cpt(-c)
        if name == "modular_sqrt":
            return canon(c.modular_sqrt(a[0]))
        if name == "g_inverse":
            return canon(c.inverse(a[0]))
        if name == "points_for_x":
            p0, p1 = c.points_for_x(a[0])
            return "(%s %s)" % (cpt(p0), cpt(p1))
        if name == "shared":
            from pycoin.ecdsa.encrypt import generate_shared_public_key
            return cpt(generate_shared_public_key(a[0], (a[1], a[2]), c))
        if name == "gen_fields":
            return "(%s %s %s)" % (cpt(c), canon(c._bit_count), canon(c._blinding_factor))
        return "!UNKNOWN-OP " + name
    except Exception as e:  # noqa
        return tag(e)
