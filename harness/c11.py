"""C11 — Base58, Base58Check, Bech32/Bech32m codecs are exact and detect corruption."""
from common import *
import hashlib as _hashlib
from pycoin.encoding import b58 as _b58
from pycoin.encoding import base_conversion as _bc
from pycoin.encoding.exceptions import EncodingError as _EncodingError
from pycoin.contrib import bech32m as _bm
from pycoin.networks import parseable_str as _ps

import sys as _sys, types as _types


# groestlcoin_hash (optional C extension) is not installed in the sandbox: any 32-byte hash different from double-SHA256
# serves as the Groestlcoin checksum function.  Must be in place BEFORE pycoin.symbols.grs/tgrs are imported.
def _grs_ref(b):
    return _hashlib.sha512(b"groestl-stub" + bytes(b)).digest()[:32]


try:
    import groestlcoin_hash as _gh
except ImportError:
    _gh = _types.ModuleType("groestlcoin_hash")
    _gh.getHash = lambda data, n: _grs_ref(data)
    _sys.modules["groestlcoin_hash"] = _gh


def _grs_hash(b):
    return bytes(_gh.getHash(bytes(b), len(b)))


try:
    from pycoin.coins.groestlcoin import parse as _grsparse
    _grs_parse_f = _grsparse.parse_b58_groestl
except Exception:                                  # renamed internals must not crash the harness at import
    _grsparse = None
    _grs_parse_f = None

ORACLES = {"groestl": _grs_hash}
PROP = "C11"
DRIVER = "C11"
INTERACTIVE = True      # the model asks for double_sha256 over the pipe (?dsha256 <hex>), answered from hashlib
RULE = ("correspondence: one driver line per call of to_long / from_long / b2a_base58 / a2b_base58 / the hashed and "
        "parseable_str variants / bech32_polymod / hrp_expand / create+verify checksum / bech32_encode / bech32_decode / "
        "convertbits / segwit decode / encode / parse_bech32(_or_32m), and one line per HISTORY of observers / cache mutators on one "
        "parseable_str object (parse_b58, parse_b58_double_sha256, parse_b58_groestl, parse_bech32, clear, pop, re-wrap); distinct = distinct line; non-trivial = the model "
        "returns a value other than an exception or None")
PARTIAL = [
    "C11_partial: detection of exactly FOUR changed characters at segwit-address level is proved for errors anywhere in "
    "the string EXCEPT when the witness version moves between 0 and non-zero (exclusion predicate version_flip; "
    "C11_refuted_bech32m_flip shows the exception is real: known finding bech32-bech32m-4-error-flip, inherent to "
    "BIP350); up to three changed characters are rejected without exception (C11_segwit_detects_3_errors)",
]
TRUSTED = [
    "Python str modelled as list of code points; str.encode('utf8') hand-modelled; bytes.decode('utf8') modelled for ASCII "
    "(gen_tables refuses a non-ASCII Base58 alphabet)",
    "double_sha256 is a parameter of the model (oracle answered by hashlib during correspondence)",
    "groestlcoin_hash is not installed: a stand-in 32-byte hash (sha512 of a tagged input) is installed as that module so "
    "that the Groestlcoin Base58Check path runs; the model takes the Groestl hash as a second parameter",
]

B58 = "123456789ABCDEFGHJKLMNPQRSTUVWXYZabcdefghijkmnopqrstuvwxyz"
B32 = "qpzry9x8gf2tvdw0s3jn54khce6mua7l"
M_CONST = 0x2BC830A3


# ---- independent references (written from the Bitcoin wiki / BIP173 / BIP350 text, used by the direct checks) ----
def _dsha(b):
    return _hashlib.sha256(_hashlib.sha256(b).digest()).digest()


def ref_b58enc(b: bytes) -> str:
    n = int.from_bytes(b, "big")
    out = ""
    while n:
        n, r = divmod(n, 58)
        out = B58[r] + out
    z = len(b) - len(b.lstrip(b"\0"))
    return "1" * z + out


def ref_b58dec(s: str):
    """bytes, or None when a character is outside the alphabet"""
    n = 0
    for ch in s:
        k = B58.find(ch) if len(ch) == 1 else -1
        if k < 0:
            return None
        n = n * 58 + k
    z = len(s) - len(s.lstrip("1"))
    body = n.to_bytes((n.bit_length() + 7) // 8, "big")
    return b"\0" * z + body


_GEN = [0x3B6A57B2, 0x26508E6D, 0x1EA119FA, 0x3D4233DD, 0x2A1462B3]


def ref_polymod(values):
    c = 1
    for v in values:
        b = c >> 25
        c = ((c & 0x1FFFFFF) << 5) ^ v
        for i in range(5):
            if (b >> i) & 1:
                c ^= _GEN[i]
    return c


def ref_expand(hrp):
    return [ord(x) >> 5 for x in hrp] + [0] + [ord(x) & 31 for x in hrp]


def ref_bech32_string(hrp, data, const):
    pm = ref_polymod(ref_expand(hrp) + list(data) + [0] * 6) ^ const
    chk = [(pm >> (5 * (5 - i))) & 31 for i in range(6)]
    return hrp + "1" + "".join(B32[d] for d in list(data) + chk)


def ref_to5(prog: bytes):
    """8->5 regrouping through one big integer (padded with zero bits)"""
    nbits = 8 * len(prog)
    n = int.from_bytes(prog, "big")
    m = (nbits + 4) // 5
    n <<= (5 * m - nbits)
    return [(n >> (5 * (m - 1 - i))) & 31 for i in range(m)]


def ref_from5(syms):
    """5->8 strict: bytes or None"""
    m = len(syms)
    n = 0
    for s in syms:
        n = (n << 5) | s
    padbits = (5 * m) % 8
    if padbits >= 5 or (n & ((1 << padbits) - 1)):
        return None
    n >>= padbits
    return n.to_bytes((5 * m) // 8, "big")


def ref_segwit_encode(hrp, ver, prog):
    return ref_bech32_string(hrp, [ver] + ref_to5(bytes(prog)), 1 if ver == 0 else M_CONST)


def ref_segwit_decode(hrp, addr):
    """(ver, prog-bytes) or None, from the BIP173/BIP350 text"""
    if any(ord(c) < 33 or ord(c) > 126 for c in addr):
        return None
    if addr != addr.lower() and addr != addr.upper():
        return None
    a = addr.lower()
    if len(a) > 90 or "1" not in a:
        return None
    h, _, d = a.rpartition("1")
    if len(h) < 1 or len(d) < 6 or any(c not in B32 for c in d):
        return None
    vals = [B32.index(c) for c in d]
    pm = ref_polymod(ref_expand(h) + vals)
    if h != hrp or len(vals) < 7:
        return None
    ver = vals[0]
    prog = ref_from5(vals[1:-6])
    if prog is None or not (2 <= len(prog) <= 40) or ver > 16:
        return None
    if ver == 0 and len(prog) not in (20, 32):
        return None
    if pm != (1 if ver == 0 else M_CONST):
        return None
    return (ver, prog)


# ---- string plumbing -------------------------------------------------------------------------------------------
def cps(s):
    return None if s is None else [ord(c) for c in s]


def S(s):
    return arg([ord(c) for c in s])


def _dec3(s, m=90):
    r = _bm.bech32_decode(s, m)
    if r == (None, None, None):
        return None
    return (cps(r[0]), r[1], r[2])


def _seg_decode(hrp, a):
    r = _bm.decode(hrp, a)
    if r == (None, None):
        return None
    return (r[0], list(r[1]))


def _parse(f, s):
    r = f(s)
    if r is None:
        return None
    return (cps(r[0]), r[1], r[2], r[3])


# ---- generators ------------------------------------------------------------------------------------------------
def _bytes_inputs(rng, tier):
    yield b""
    for a in range(256):
        yield bytes([a])
    second = range(256) if tier == "thorough" else (0, 1, 2, 57, 58, 59, 127, 128, 254, 255)
    for a in range(256):
        for b in second:
            yield bytes([a, b])
            if tier != "thorough":
                yield bytes([b, a])
    for n in range(0, 65):
        yield b"\0" * n
        yield b"\0" * n + b"\x01"
        yield b"\0" * n + b"\xff" * 3
    for _ in range(1500 if tier == "quick" else 40000):
        n = rng.choice([rng.randint(0, 40), rng.randint(0, 200), 20, 21, 25, 32, 33, 34, 37, 38, 78])
        z = rng.choice([0, 0, 0, 1, 2, rng.randint(0, n), n])
        z = min(z, n)
        yield b"\0" * z + bytes(rng.getrandbits(8) for _ in range(n - z))
    for k in range(1, 12):                      # around powers of 58 and 256
        for d in (-1, 0, 1):
            v = 58 ** k + d
            yield v.to_bytes((v.bit_length() + 7) // 8, "big")
            v = 256 ** k + d
            yield v.to_bytes((v.bit_length() + 7) // 8, "big")


BAD_CHARS = ["0", "O", "I", "l", " ", "+", "/", "\n", "\x00", "\x7f", "\x80", "\xe9", "ı", "€", "\U0001f600", "\ud800", "\udfff", "", "￿"]


def _b58_strings(rng, tier):
    yield ""
    for c in B58:
        yield c
        yield "1" + c
        yield c + "1"
    for c in BAD_CHARS:
        yield c
        yield "1" + c
        yield c + "2"
        yield "abc" + c + "def"
    for c in range(0, 130):
        yield chr(c)
    for n in range(0, 40):
        yield "1" * n
        yield "1" * n + "z"
        yield "z" * n
    for _ in range(1500 if tier == "quick" else 40000):
        n = rng.randint(0, rng.choice([5, 40, 120]))
        z = rng.choice([0, 0, 1, 2, rng.randint(0, n)])
        s = "1" * z + "".join(rng.choice(B58) for _ in range(n - z))
        yield s
        if rng.random() < 0.25 and s:
            i = rng.randrange(len(s))
            yield s[:i] + rng.choice(BAD_CHARS) + s[i + (1 if rng.random() < 0.5 else 0):]


def _hashed_strings(rng, tier):
    """valid Base58Check strings, corrupted ones, too-short ones"""
    for n in list(range(0, 40)) + [78, 100]:
        d = bytes(rng.getrandbits(8) for _ in range(n))
        for z in {0, 1, min(n, 3), n}:
            dd = b"\0" * z + d[z:]
            good = ref_b58enc(dd + _dsha(dd)[:4])
            yield good
            raw = bytearray(dd + _dsha(dd)[:4])
            raw[-1] ^= 1
            yield ref_b58enc(bytes(raw))              # wrong checksum byte
            raw = bytearray(dd + _dsha(dd)[:4])
            if n:
                raw[rng.randrange(n)] ^= 0x40
                yield ref_b58enc(bytes(raw))          # payload changed
            if good:
                i = rng.randrange(len(good))
                yield good[:i] + rng.choice(B58) + good[i + 1:]
                yield good[:i] + good[i + 1:]
                yield good + rng.choice(B58)
                yield "1" + good
    for raw in (b"", b"\0", b"\0\0\0", b"\0\0\0\0", b"abc", b"\x01\x02\x03\x04", _dsha(b"")[:4], _dsha(b"")[:3], b"\0" + _dsha(b"")[:4]):
        yield ref_b58enc(raw)
    for _ in range(400 if tier == "quick" else 20000):
        n = rng.choice([0, 1, 4, 20, 21, 33, 34, 37, 78])
        dd = bytes(rng.getrandbits(8) for _ in range(n))
        if rng.random() < 0.3:
            dd = b"\0" * rng.randint(0, n) + dd[:0]
        good = ref_b58enc(dd + _dsha(dd)[:4])
        yield good
        i = rng.randrange(len(good))
        yield good[:i] + rng.choice(B58 + "0OIl") + good[i + 1:]


HRPS = ["bc", "tb", "ltc", "a", "1", "11", "a1b", "bcrt", "?", "~!", "x" * 30, "split", "tb1q"]


def _valid_triples(rng, tier):
    for hrp in HRPS:
        for ver in range(17):
            lens = [20, 32] if ver == 0 else [2, 3, 20, 32, 33, 39, 40]
            for n in lens:
                yield (hrp, ver, bytes(rng.getrandbits(8) for _ in range(n)))
    for n in range(2, 41):
        yield ("bc", 1, bytes(rng.getrandbits(8) for _ in range(n)))
        yield ("tb", 16, b"\xff" * n)
        yield ("tb", 2, b"\x00" * n)
    for _ in range(200 if tier == "quick" else 6000):
        ver = rng.randint(0, 16)
        n = rng.choice([20, 32]) if ver == 0 else rng.randint(2, 40)
        hrp = "".join(chr(rng.choice(list(range(33, 65)) + list(range(91, 127)))) for _ in range(rng.randint(1, 12)))
        yield (hrp, ver, bytes(rng.getrandbits(8) for _ in range(n)))
    for t in letter_free_triples():     # no cased character anywhere: str.islower() and str.isupper() are both False (seed C11-d1)
        yield t
    # longest allowed: len(hrp) + 1 + 1 + ceil(8n/5) + 6 <= 90
    yield ("h" * 18, 1, bytes(40))
    yield ("h" * 19, 1, bytes(40))      # 91 characters: over the limit
    yield ("h" * 83, 0, bytes(0))       # hrp of 83


_LETTER_FREE = None


def letter_free_triples():
    """valid (hrp, version, program) whose address contains no letter at all: the hrp is made of digits/punctuation, the
    version, every 5-bit group of the program and all six checksum symbols map to digit characters of the Bech32 alphabet
    (about one candidate in 2000 has an all-digit checksum; found by a deterministic search, ~1 s, cached)"""
    global _LETTER_FREE
    if _LETTER_FREE is None:
        r = random.Random("C11/letter-free")
        digit_syms = [i for i, c in enumerate(B32) if c.isdigit()]
        found = []
        tries = 0
        while len(found) < 8 and tries < 400000:
            tries += 1
            hrp = r.choice(["2", "42", "?", "7-7", "0", "3.14", "#", "1", "2021"])
            ver = r.choice([v for v in digit_syms if 1 <= v <= 16])
            n = r.choice([5, 5, 10, 15])
            syms = [r.choice(digit_syms) for _ in range(8 * n // 5)]
            prog = bytes(ref_from5(syms))
            a = ref_segwit_encode(hrp, ver, prog)
            if a is not None and not any(ch.isalpha() for ch in a):
                found.append((hrp, ver, prog))
        _LETTER_FREE = found
    return list(_LETTER_FREE)


def _corrupt(rng, s, k, alphabet):
    pos = rng.sample(range(len(s)), min(k, len(s)))
    t = list(s)
    for p in pos:
        c = rng.choice(alphabet)
        while c == t[p]:
            c = rng.choice(alphabet)
        t[p] = c
    return "".join(t)


def _foreign_hrps(rng, hrp):
    """true HRPs that are NOT `hrp` but resemble it: the separator is the LAST '1', so `hrp + "1" + anything` is a
    different HRP whose address merely starts with `hrp + "1"`; prefixes, suffixes, case variants, odd characters"""
    hchars = "".join(chr(c) for c in range(33, 127) if not (65 <= c <= 90))
    out = [hrp + "1", hrp + "1q", hrp + "1p", hrp + "1" + hrp, hrp + "11", hrp + "1" + hrp + "1", hrp + "q", hrp + hrp,
           "1" + hrp, "x" + hrp, hrp + "1" + "".join(rng.choice(hchars + "111") for _ in range(rng.randint(1, 6))),
           hrp + "".join(rng.choice(hchars + "11") for _ in range(rng.randint(1, 4))),
           "".join(rng.choice(hchars) for _ in range(max(1, len(hrp))))]
    for k in range(1, len(hrp)):
        out.append(hrp[:k])                       # proper prefixes
        out.append(hrp[k:])                       # proper suffixes
    if hrp.upper() != hrp:
        out.append(hrp.upper())
        out.append(hrp[0].upper() + hrp[1:])
    if hrp.lower() != hrp:
        out.append(hrp.lower())
    return [h for h in dict.fromkeys(out) if h and h != hrp and len(h) <= 40]


def _foreign_hrp_strings(rng, tier, hrps=None):
    """(expected hrp, string): checksum-valid Bech32 AND Bech32m strings (built with the harness's own checksum code) of
    a foreign HRP resembling the expected one; otherwise perfectly acceptable payloads, so only the HRP comparison can
    reject them.  Also prefix-HRPs whose data part starts with the symbols that continue the expected hrp."""
    out = []
    for hrp in (hrps or HRPS):
        for other in _foreign_hrps(rng, hrp):
            progs = [(0, bytes(rng.getrandbits(8) for _ in range(20))), (1, bytes(rng.getrandbits(8) for _ in range(32))),
                     (16, bytes([1, 2]))]
            if tier == "thorough":
                progs += [(0, bytes(32)), (2, bytes(rng.getrandbits(8) for _ in range(rng.randint(2, 40))))]
            for ver, prog in progs:
                d5 = [ver] + ref_to5(prog)
                good = 1 if ver == 0 else M_CONST
                for const in (good, 1 ^ M_CONST ^ good):
                    st = ref_bech32_string(other, d5, const)
                    if len(st) <= 90:
                        out.append((hrp, st))
                        if const == good and rng.random() < 0.3:
                            out.append((hrp, st.upper()))
                            out.append((other, st))            # and it IS valid for its own hrp
            # a prefix HRP whose data continues with the rest of the expected hrp (where those are charset characters)
            if hrp.startswith(other) and all(c in B32 for c in hrp[len(other):]):
                rest = [B32.index(c) for c in hrp[len(other):]]
                for ver, n in ((0, 20), (1, 20)):
                    d5 = rest + [ver] + ref_to5(bytes(rng.getrandbits(8) for _ in range(n)))
                    out.append((hrp, ref_bech32_string(other, d5, 1 if rest[0] == 0 else M_CONST)))
    return out


_ALIASES = None


def case_aliases():
    """every non-ASCII, non-surrogate code point whose lower() / upper() / casefold() image is or contains a printable
    ASCII character (KELVIN SIGN -> k, LONG S -> S, I WITH DOT -> i + U+0307, ligatures, sharp s, ...): [(char, ascii)]"""
    global _ALIASES
    if _ALIASES is None:
        res = []
        for cp in range(128, 0x110000):
            if 0xD800 <= cp <= 0xDFFF:
                continue
            c = chr(cp)
            seen = set()
            for img in (c.lower(), c.upper(), c.casefold()):
                for a in img:
                    if 33 <= ord(a) <= 126 and a.lower() not in seen:
                        seen.add(a.lower())
                        res.append((c, a.lower()))
        _ALIASES = res
    return _ALIASES


def _unicode_strings(rng, tier, base):
    """valid lower- and upper-case strings with characters replaced by code points of the FULL unicode range: every case
    alias of the replaced ASCII character (one position / all positions), random non-ASCII code points, 0..32 and 127"""
    out = []
    nbase = 3 if tier == "quick" else 12
    picks = base[:: max(1, len(base) // nbase)][:nbase]
    for hrp, s in picks:
        for form in (s, s.upper()):
            low = form.lower()
            for c, a in case_aliases():
                pos = [j for j in range(len(form)) if low[j] == a]
                if pos:
                    j = pos[-1]
                    out.append((hrp, form[:j] + c + form[j + 1:]))
                    out.append((hrp, "".join(c if k in pos else form[k] for k in range(len(form)))))
                else:
                    j = rng.randrange(len(form))
                    out.append((hrp, form[:j] + c + form[j + 1:]))
            for cp in list(range(0, 33)) + [127, 128, 159, 160, 255, 256, 0x2fff, 0xd7ff, 0xe000, 0xffff, 0x10000, 0x10ffff]:
                j = rng.randrange(len(form))
                out.append((hrp, form[:j] + chr(cp) + form[j + 1:]))
            for _ in range(40 if tier == "quick" else 1500):
                cp = rng.choice([rng.randrange(128, 0x800), rng.randrange(0x800, 0xD800), rng.randrange(0xE000, 0x110000)])
                t = list(form)
                for j in rng.sample(range(len(form)), rng.choice([1, 1, 2, 3])):
                    t[j] = chr(cp)
                out.append((hrp, "".join(t)))
    for c, a in case_aliases():                              # in the caller's hrp as well
        out.append(("b" + c, ref_bech32_string("b" + a, [1] + ref_to5(bytes(20)), M_CONST)))
        out.append(("b" + a, ref_bech32_string("b" + a, [1] + ref_to5(bytes(20)), M_CONST).replace("b" + a, "b" + c, 1)))
    return out


def _bech_strings(rng, tier):
    """(hrp, string) pairs: valid, wrong constant, bad length / padding, case, corruptions, junk"""
    out = list(_foreign_hrp_strings(rng, tier))
    triples = list(_valid_triples(rng, tier))
    for hrp, ver, prog in triples:
        s = ref_segwit_encode(hrp, ver, prog)
        out.append((hrp, s))
    base = [(h, s) for h, s in out if len(s) <= 90 and h in ("bc", "tb", "a1b", "11")]
    for hrp, ver, prog in triples[::7]:
        d5 = [ver] + ref_to5(prog)
        out.append((hrp, ref_bech32_string(hrp, d5, M_CONST if ver == 0 else 1)))     # wrong constant for the version
        out.append((hrp, ref_bech32_string(hrp, d5, 1).upper()))
        out.append((hrp.upper(), ref_bech32_string(hrp, d5, 1 if ver == 0 else M_CONST).upper()))
        out.append((hrp, ref_bech32_string(hrp.upper(), d5, 1 if ver == 0 else M_CONST)))
        out.append((hrp, ref_bech32_string(hrp, d5, 0)))
        out.append((hrp, ref_bech32_string(hrp, d5, 1 ^ M_CONST)))
        out.append(("x" + hrp, ref_bech32_string(hrp, d5, 1 if ver == 0 else M_CONST)))
    for ver in (0, 1, 16, 17, 31):
        const = 1 if ver == 0 else M_CONST
        for n in list(range(0, 45)):
            out.append(("bc", ref_bech32_string("bc", [ver] + ref_to5(bytes([0x5a]) * n), const)))
        for m in range(0, 12):                                  # symbol counts with bad padding
            syms = [rng.randrange(32) for _ in range(m)]
            out.append(("bc", ref_bech32_string("bc", [ver] + syms, const)))
            out.append(("bc", ref_bech32_string("bc", [ver] + syms + [0], const)))
            out.append(("bc", ref_bech32_string("bc", [ver] + syms + [1], const)))
    out.append(("a", ref_bech32_string("a", [], 1)))          # empty data part
    out.append(("a", ref_bech32_string("a", [], M_CONST)))
    out.append(("", ref_bech32_string("", [0] + ref_to5(bytes(20)), 1)))
    for hrp, s in base[:: (9 if tier == "quick" else 2)]:
        t = list(s)
        i = rng.randrange(len(s))
        t[i] = t[i].upper() if t[i] != t[i].upper() else "Q"
        out.append((hrp, "".join(t)))                           # mixed case
        out.append((hrp, s.upper()))
        out.append((hrp, s[:-1]))
        out.append((hrp, s + "q"))
        out.append((hrp, s.replace("1", "", 1)))
        out.append((hrp, s[:5] + " " + s[6:]))
        out.append((hrp, s[:5] + "\x7f" + s[6:]))
        out.append((hrp, s[:5] + "b" + s[6:]))
        out.append((hrp, s[:6] + "ı" + s[7:]))
        for odd, plain in (("\u212a", "k"), ("\u017f", "s"), ("\u0130", "i"), ("\uff41", "a"), ("\u00b9", "1")):
            for form in (s, s.upper()):                     # KELVIN SIGN.lower() == 'k', LONG S.upper() == 'S', ...
                j = form.lower().find(plain, len(hrp) + 1)
                if j >= 0:
                    out.append((hrp, form[:j] + odd + form[j + 1:]))
            out.append((hrp, s[:len(hrp)] + odd + s[len(hrp) + 1:]))
            out.append((hrp + odd, ref_bech32_string(hrp + plain, [1] + ref_to5(bytes(20)), M_CONST).replace(hrp + plain, hrp + odd, 1)))
        out.append((hrp, s[:len(hrp) + 3] + "1" + s[len(hrp) + 4:]))
    alpha = B32 + "1bioBQ"
    n1 = 3 if tier == "quick" else 40
    for hrp, s in base[:n1]:                                    # every single-character substitution
        for p in range(len(s)):
            for c in B32:
                if c != s[p]:
                    out.append((hrp, s[:p] + c + s[p + 1:]))
    for _ in range(1500 if tier == "quick" else 60000):
        hrp, s = rng.choice(base)
        out.append((hrp, _corrupt(rng, s, rng.choice([1, 2, 2, 3, 4, 5]), alpha)))
    for s in ["", "1", "a1", "a1qqqqq", "a1qqqqqq", "1qqqqqq", "11qqqqqq", "a" * 91, "a1" + "q" * 88, "a1" + "q" * 89]:
        out.append(("a", s))
    out += _unicode_strings(rng, tier, base)
    return out


def _zlists(rng, tier):
    yield []
    for v in (-33, -32, -1, 0, 1, 31, 32, 255, 256, 1 << 30, -(1 << 31), (1 << 40) + 7):
        yield [v]
        yield [3, v, 5]
    for _ in range(600 if tier == "quick" else 20000):
        n = rng.randint(0, 60)
        yield [rng.randrange(32) for _ in range(n)]


def _convert_cases(rng, tier):
    for n in range(0, 45):
        yield (list(bytes(rng.getrandbits(8) for _ in range(n))), 8, 5, True)
        yield ([rng.randrange(32) for _ in range(n)], 5, 8, False)
        yield ([rng.randrange(32) for _ in range(n)], 5, 8, True)
        yield (list(bytes(rng.getrandbits(8) for _ in range(n))), 8, 5, False)
        yield (ref_to5(bytes(rng.getrandbits(8) for _ in range(n))), 5, 8, False)
    for bad in (-1, 32, 256, 1 << 20, -256):
        yield ([1, bad, 2], 5, 8, False)
        yield ([1, bad, 2], 8, 5, True)
        yield ([bad], 8, 5, True)
    for fb in range(1, 11):
        for tb in range(1, 11):
            for _ in range(3 if tier == "quick" else 40):
                n = rng.randint(0, 12)
                d = [rng.randrange(1 << fb) for _ in range(n)]
                if rng.random() < 0.1 and d:
                    d[rng.randrange(n)] = 1 << fb
                yield (d, fb, tb, rng.random() < 0.5)
    for _ in range(800 if tier == "quick" else 30000):
        n = rng.randint(0, 70)
        if rng.random() < 0.5:
            yield (list(bytes(rng.getrandbits(8) for _ in range(n))), 8, 5, True)
        else:
            d = ref_to5(bytes(rng.getrandbits(8) for _ in range(n)))
            if d and rng.random() < 0.5:
                d[-1] ^= rng.randrange(32)
            if rng.random() < 0.2:
                d.append(rng.randrange(32))
            yield (d, 5, 8, False)


# ---- one parseable_str object through a history of observers and cache mutators -------------------------------------
CACHE_KEYS = {5: "b58", 6: "b58_double_sha256", 7: "b58_groestl", 8: "bech32"}
_NETS = None


def _networks():
    """(symbol, network) in a fixed order; a network that cannot be imported is skipped"""
    global _NETS
    if _NETS is None:
        _NETS = []
        for sym in ("btc", "xtn", "tgrs", "grs", "ltc"):
            try:
                _NETS.append((sym, __import__("pycoin.symbols." + sym, fromlist=["network"]).network))
            except Exception:
                pass
    return _NETS


def _norm(r):
    """comparable, JSON-able rendering of an observer's result"""
    if r is None or isinstance(r, (bool, int, str)):
        return r
    if isinstance(r, (bytes, bytearray)):
        return "x" + bytes(r).hex()
    if isinstance(r, (tuple, list)):
        return [_norm(x) for x in r]
    for attr in ("info", "as_text", "hwif", "wif"):
        f = getattr(r, attr, None)
        if callable(f):
            try:
                v = f()
                if isinstance(v, dict):
                    return [type(r).__name__] + sorted((k, str(x)) for k, x in v.items())
                return [type(r).__name__, str(v)]
            except Exception:
                pass
    return [type(r).__name__, repr(r)]


# observers: code -> (name, function of the string object); 0..3 are the ones the Coq model covers
def _observers():
    obs = {0: ("parse_b58", _ps.parse_b58), 1: ("parse_b58_double_sha256", _ps.parse_b58_double_sha256),
           3: ("parse_bech32", _ps.parse_bech32), 20: ("parse_colon_prefix", _ps.parse_colon_prefix),
           21: ("is_hashed_base58_valid", _b58.is_hashed_base58_valid)}
    if _grs_parse_f is not None:
        obs[2] = ("parse_b58_groestl", _grs_parse_f)
    code = 30
    for sym, net in _networks():
        for what in ("address", "wif", "hierarchical_key", "parse_b58_hashed"):
            f = getattr(net.parse, what, None)
            if f is not None:
                obs[code] = ("%s.parse.%s" % (sym, what), f)
            code += 1
    return obs


def run_history(s, ops):
    """apply ops to ONE parseable_str built from s; returns the list of raw results (None for mutators)"""
    obs = _observers()
    ps = _ps.parseable_str(s)
    out = []
    for o in ops:
        if o == 4:
            ps._cache.clear()
            out.append(None)
        elif o in CACHE_KEYS:
            ps._cache.pop(CACHE_KEYS[o], None)
            out.append(None)
        elif o == 9:
            ps = _ps.parseable_str(ps)
            out.append(None)
        elif o == 10:                               # drop every key, whatever it is called
            for k in list(ps._cache):
                del ps._cache[k]
            out.append(None)
        elif o in obs:
            out.append(obs[o][1](ps))
        else:
            out.append(None)
    return out


def _history_model_form(s, ops):
    res = []
    for o, r in zip(ops, run_history(s, ops)):
        if o == 3 and r is not None:
            r = (cps(r[0]), r[1], r[2], r[3])
        res.append(r)
    return res


def chk_history(s, ops):
    """history independence: every observer answers on the much-used object exactly as on a FRESH str"""
    obs = _observers()
    got = run_history(s, ops)
    for i, o in enumerate(ops):
        if o in obs:
            try:
                want = obs[o][1](str(s))
            except Exception as e:
                want = "raises " + type(e).__name__
            if _norm(got[i]) != _norm(want):
                return {"kind": "history-dependent-answer", "observer": obs[o][0], "step": i,
                        "before": [obs[x][0] if x in obs else "mutator%d" % x for x in ops[:i]],
                        "got": _norm(got[i]), "fresh": _norm(want)}
    return None


def _payloads(rng):
    yield bytes(range(20))
    yield b""
    yield bytes(20)
    yield bytes(rng.getrandbits(8) for _ in range(rng.choice([1, 3, 4, 20, 32, 33, 74])))


def _history_strings(rng, tier):
    """strings valid under double-SHA256, under the Groestl stand-in, under neither; short ones; Bech32; junk"""
    out = []
    for ver in (b"\x00", b"\x6f", b"\x05", b"\xc4", b"\x24", b"\xef", b"\x80", bytes.fromhex("0488b21e"), bytes.fromhex("043587cf")):
        for pl in _payloads(rng):
            d = ver + pl
            out.append(ref_b58enc(d + _dsha(d)[:4]))
            out.append(ref_b58enc(d + _grs_hash(d)[:4]))
            out.append(ref_b58enc(d + bytes(4)))
    for d in (b"", b"\0", b"\0\0\0\0"):
        out.append(ref_b58enc(d + _dsha(d)[:4]))
        out.append(ref_b58enc(d + _grs_hash(d)[:4]))
        out.append(ref_b58enc(_dsha(d)[:3]))
        out.append(ref_b58enc(_grs_hash(d)[:3]))
    for hrp in ("bc", "tb", "grs", "tgrs", "ltc"):
        out.append(ref_segwit_encode(hrp, 0, bytes(range(20))))
        out.append(ref_segwit_encode(hrp, 1, bytes(range(32))).upper())
        out.append(ref_bech32_string(hrp, [], 1))
    out += ["", "1", "0", "not base58 !", "H:aabb", "P:foo", "\u212a", FLIP_BAD]
    for _, net in _networks():
        try:
            out.append(net.keys.private(1 + rng.getrandbits(60)).wif())
            out.append(net.keys.bip32_seed(b"c11").hwif(as_private=rng.random() < 0.5))
            out.append(net.address.for_p2pkh(bytes(rng.getrandbits(8) for _ in range(20))))
            out.append(net.address.for_p2sh(bytes(rng.getrandbits(8) for _ in range(20))))
        except Exception:
            pass
    return out


def _histories(rng, tier, model_only):
    """(string, ops): every ordered pair of observers (with and without a mutator between them), then random histories"""
    obs = sorted(_observers())
    if model_only:
        obs = [o for o in obs if o <= 3]
    muts = [4, 5, 6, 7, 8, 9] + ([] if model_only else [10])
    strings = _history_strings(rng, tier)
    out = []
    pairs = [(a, b) for a in obs for b in obs]
    for i, s in enumerate(strings):
        # all ordered pairs over the whole run, a window of them per string
        k = 6 if tier == "quick" else 40
        for j in range(k):
            a, b = pairs[(i * k + j) % len(pairs)]
            out.append((s, [a, b, a]))
            if j % 3 == 0:
                out.append((s, [a, rng.choice(muts), b, a]))
    # the checksum observers in both orders on every string (the family of seeded/C11-c1)
    hashed = [o for o in obs if o in (1, 2, 21) or o >= 30]
    for s in strings:
        a, b = rng.sample(hashed, 2) if len(hashed) >= 2 else (1, 1)
        out.append((s, [a, b]))
        out.append((s, [b, a]))
        if 2 in obs:
            out.append((s, [2, 1, 2]))
            out.append((s, [1, 2, 1]))
        if not model_only:                        # every ordered pair of networks, per entry point
            names = _observers()
            for what in ("parse_b58_hashed", "address") + (("wif", "hierarchical_key") if tier == "thorough" else ()):
                grp = [o for o in obs if o >= 30 and names[o][0].endswith("." + what)]
                for a in grp:
                    for b in grp:
                        if a != b:
                            out.append((s, [a, b]))
    for _ in range(150 if tier == "quick" else 6000):
        n = rng.randint(2, 9)
        out.append((rng.choice(strings), [rng.choice(obs + muts) if rng.random() < 0.8 else rng.choice(muts) for _ in range(n)]))
    return out


def model_cases(rng, tier):
    for s, ops in _histories(rng, tier, True):
        yield Case("history %s %s" % (S(s), arg(ops)), (lambda s=s, ops=ops: call(_history_model_form, s, ops)))
    # ---- Base58
    for b in _bytes_inputs(rng, tier):
        yield Case("b2a_base58 " + arg(b), (lambda b=b: call(lambda: cps(_b58.b2a_base58(b)))))
    for b in list(_bytes_inputs(rng, "quick"))[::5]:
        yield Case("b2a_hashed_base58 " + arg(b), (lambda b=b: call(lambda: cps(_b58.b2a_hashed_base58(b)))))
        for base in (256, 58, 2, 3, 10, 255, 257):
            yield Case("to_long %s %s" % (arg(base), arg(b)), (lambda b=b, base=base: call(_bc.to_long, base, lambda x: x, b)))
    for v in [0, 1, 57, 58, 59, 255, 256, 257, 58 ** 5, 256 ** 7 - 1, 256 ** 7, (1 << 200) + 12345] + [rng.getrandbits(rng.randint(1, 300)) for _ in range(200)]:
        for prefix in (0, 1, 5, -1):
            for base in (2, 58, 256, 257, 300):
                yield Case("from_long %s %s %s" % (arg(v), arg(prefix), arg(base)),
                           (lambda v=v, prefix=prefix, base=base: call(_bc.from_long, v, prefix, base, lambda x: x)))
    for s in _b58_strings(rng, tier):
        yield Case("a2b_base58 " + S(s), (lambda s=s: call(_b58.a2b_base58, s)))
        yield Case("parse_b58 " + S(s), (lambda s=s: call(_ps.parse_b58, s)))
    for s in _hashed_strings(rng, tier):
        yield Case("a2b_hashed_base58 " + S(s), (lambda s=s: call(_b58.a2b_hashed_base58, s)))
        yield Case("is_hashed_base58_valid " + S(s), (lambda s=s: call(_b58.is_hashed_base58_valid, s)))
        yield Case("parse_b58_double_sha256 " + S(s), (lambda s=s: call(_ps.parse_b58_double_sha256, s)))
    for s in BAD_CHARS:
        yield Case("a2b_hashed_base58 " + S(s), (lambda s=s: call(_b58.a2b_hashed_base58, s)))
        yield Case("is_hashed_base58_valid " + S(s), (lambda s=s: call(_b58.is_hashed_base58_valid, s)))
        yield Case("parse_b58_double_sha256 " + S(s), (lambda s=s: call(_ps.parse_b58_double_sha256, s)))
    # ---- Bech32 internals
    for l in _zlists(rng, tier):
        yield Case("bech32_polymod " + arg(l), (lambda l=l: call(_bm.bech32_polymod, l)))
    for hrp in HRPS + ["", "\xe9", "A", "\U0001f600z"]:
        yield Case("bech32_hrp_expand " + S(hrp), (lambda hrp=hrp: call(_bm.bech32_hrp_expand, hrp)))
        for l in list(_zlists(rng, "quick"))[::40]:
            for spec in (1, 2, 0, 3):
                yield Case("bech32_create_checksum %s %s %s" % (S(hrp), arg(l), arg(spec)),
                           (lambda hrp=hrp, l=l, spec=spec: call(_bm.bech32_create_checksum, hrp, l, spec)))
                yield Case("bech32_encode %s %s %s" % (S(hrp), arg(l), arg(spec)),
                           (lambda hrp=hrp, l=l, spec=spec: call(lambda: cps(_bm.bech32_encode(hrp, l, spec)))))
            yield Case("bech32_verify_checksum %s %s" % (S(hrp), arg(l)),
                       (lambda hrp=hrp, l=l: call(_bm.bech32_verify_checksum, hrp, l)))
    for hrp, ver, prog in list(_valid_triples(rng, tier))[::3]:
        d5 = [ver] + ref_to5(prog)
        for const in (1, M_CONST, 5):
            full = d5 + [B32.index(c) for c in ref_bech32_string(hrp, d5, const)[-6:]]
            yield Case("bech32_verify_checksum %s %s" % (S(hrp), arg(full)),
                       (lambda hrp=hrp, full=full: call(_bm.bech32_verify_checksum, hrp, full)))
    for d, fb, tb, pad in _convert_cases(rng, tier):
        yield Case("convertbits %s %s %s %s" % (arg(d), arg(fb), arg(tb), arg(pad)),
                   (lambda d=d, fb=fb, tb=tb, pad=pad: call(_bm.convertbits, d, fb, tb, pad)))
    # ---- Bech32 strings
    for hrp, s in _bech_strings(rng, tier):
        yield Case("decode %s %s" % (S(hrp), S(s)), (lambda hrp=hrp, s=s: call(_seg_decode, hrp, s)))
        yield Case("bech32_decode %s %s" % (S(s), arg(90)), (lambda s=s: call(_dec3, s)))
        yield Case("parse_bech32_or_32m " + S(s), (lambda s=s: call(_parse, _ps.parse_bech32_or_32m, s)))
        yield Case("parse_bech32 " + S(s), (lambda s=s: call(_parse, _ps.parse_bech32, s)))
    for pc in flip_cases(rng, "quick"):                  # the Bech32 <-> Bech32m switching patterns
        for hrp, s in ((pc.inp["hrp"], pc.inp["s"]), (pc.inp["hrp"], pc.inp["t"])):
            yield Case("decode %s %s" % (S(hrp), S(s)), (lambda hrp=hrp, s=s: call(_seg_decode, hrp, s)))
    for hrp, s in _bech_strings(rng, "quick")[::25]:
        for m in (len(s) - 1, len(s), 0, 1000):
            yield Case("bech32_decode %s %s" % (S(s), arg(m)), (lambda s=s, m=m: call(_dec3, s, m)))
    for hrp, ver, prog in _valid_triples(rng, tier):
        yield Case("encode %s %s %s" % (S(hrp), arg(ver), arg(list(prog))),
                   (lambda hrp=hrp, ver=ver, prog=prog: call(lambda: cps(_bm.encode(hrp, ver, prog)))))
    for hrp in ("bc", "BC", "\xe9", "", "b c", "a1"):
        for ver in (-33, -32, -16, -1, 0, 1, 16, 17, 31, 32):
            for prog in (bytes(20), bytes(32), bytes(2), bytes(1), bytes(41), [1, 2, 256], [-1, 2], []):
                yield Case("encode %s %s %s" % (S(hrp), arg(ver), arg(list(prog))),
                           (lambda hrp=hrp, ver=ver, prog=prog: call(lambda: cps(_bm.encode(hrp, ver, prog)))))


def nontrivial(line, r):
    return not r.startswith("!") and r != "N"


# ---- direct property checks on the implementation -------------------------------------------------------------
def chk_b58_bytes(b: bytes):
    """exact inverse on every byte string + agreement with the reference"""
    t = _b58.b2a_base58(b)
    if t != ref_b58enc(b):
        return {"kind": "b58-encode-differs-from-reference", "got": t, "want": ref_b58enc(b)}
    back = _b58.a2b_base58(t)
    if back != b:
        return {"kind": "b58-roundtrip-bytes", "enc": t, "back": back.hex()}
    h = _b58.b2a_hashed_base58(b)
    if _b58.a2b_hashed_base58(h) != b or not _b58.is_hashed_base58_valid(h) or _ps.parse_b58_double_sha256(h) != b:
        return {"kind": "b58check-roundtrip", "enc": h}
    return None


def chk_b58_string(s: str):
    """decoder accepts exactly the strings over the alphabet, inverts the encoder, rejects with EncodingError"""
    want = ref_b58dec(s)
    try:
        got = _b58.a2b_base58(s)
    except _EncodingError:
        got = None
    except Exception as e:
        return {"kind": "b58-decode-raises-other", "exc": type(e).__name__, "surrogate": any(0xD800 <= ord(c) <= 0xDFFF for c in s)}
    if got != want:
        return {"kind": "b58-decode-differs-from-reference", "got": None if got is None else got.hex(),
                "want": None if want is None else want.hex()}
    if got is not None and _b58.b2a_base58(got) != s:
        return {"kind": "b58-roundtrip-string", "back": _b58.b2a_base58(got)}
    return None


def chk_b58check_string(s: str):
    """is_hashed_base58_valid(s) <=> s decodes and its last four bytes are dsha256 of the rest"""
    raw = ref_b58dec(s)
    want = raw is not None and _dsha(raw[:-4])[:4] == raw[-4:]
    try:
        got = _b58.is_hashed_base58_valid(s)
    except Exception as e:
        return {"kind": "b58check-valid-raises", "exc": type(e).__name__, "surrogate": any(0xD800 <= ord(c) <= 0xDFFF for c in s)}
    if got != want:
        return {"kind": "b58check-accepts-bad-checksum" if got else "b58check-rejects-good", "want": want}
    try:
        d = _b58.a2b_hashed_base58(s)
        ok = True
    except _EncodingError:
        ok = False
    if ok != want or (ok and d != raw[:-4]):
        return {"kind": "b58check-a2b-inconsistent"}
    p = _ps.parse_b58_double_sha256(s)
    wantp = raw[:-4] if (want and raw) else None
    if p != wantp:
        return {"kind": "parse_b58_double_sha256-inconsistent", "got": None if p is None else p.hex()}
    return None


def chk_convert(prog: bytes):
    d5 = _bm.convertbits(prog, 8, 5)
    if d5 != ref_to5(prog):
        return {"kind": "convertbits-8to5-differs-from-reference", "got": d5}
    back = _bm.convertbits(d5, 5, 8, False)
    if back != list(prog):
        return {"kind": "convertbits-roundtrip", "back": back}
    return None


def chk_convert5(syms):
    got = _bm.convertbits(syms, 5, 8, False)
    want = ref_from5(syms)
    if (got is None) != (want is None) or (got is not None and bytes(got) != want):
        return {"kind": "convertbits-5to8-differs-from-reference", "got": got}
    if got is not None and _bm.convertbits(got, 8, 5) != list(syms):
        return {"kind": "convertbits-roundtrip-5", "got": got}
    return None


def _valid_triple(hrp, ver, prog):
    return (1 <= len(hrp) and all(33 <= ord(c) <= 126 and not ("A" <= c <= "Z") for c in hrp) and 0 <= ver <= 16
            and 2 <= len(prog) <= 40 and (ver != 0 or len(prog) in (20, 32))
            and len(hrp) + 1 + 1 + (8 * len(prog) + 4) // 5 + 6 <= 90)


def chk_segwit_triple(hrp, ver, prog: bytes):
    s = _bm.encode(hrp, ver, prog)
    if not _valid_triple(hrp, ver, prog):
        if s is not None:
            return {"kind": "encode-accepts-invalid", "got": s}
        return None
    if s is None:
        return {"kind": "encode-rejects-valid"}
    if s != ref_segwit_encode(hrp, ver, prog):
        return {"kind": "encode-differs-from-reference", "got": s, "want": ref_segwit_encode(hrp, ver, prog)}
    for form in (s, s.upper()):
        if hrp.upper() != hrp and form == s.upper():
            pass
        r = _bm.decode(hrp, form)
        if r != (ver, list(prog)):
            return {"kind": "decode-of-encode", "string": form, "got": str(r)}
    p = _ps.parse_bech32(s)
    if p is None or p[0] != hrp or p[1] != ver or p[2] != bytes(prog) or p[3] != (1 if ver == 0 else 2):
        return {"kind": "parse_bech32-of-encode", "got": str(p)}
    return None


def chk_segwit_string(hrp, s):
    """decode(hrp, s) against the BIP text (mixed case, wrong constant, lengths, padding, range, charset)"""
    want = ref_segwit_decode(hrp, s)
    try:
        r = _bm.decode(hrp, s)
    except Exception as e:
        return {"kind": "decode-raises", "exc": type(e).__name__}
    got = None if r == (None, None) else (r[0], bytes(r[1]))
    if got != want:
        if got is not None and want is None:
            low = s.lower()
            why = "other"
            if s != s.lower() and s != s.upper():
                why = "mixed-case"
            elif len(s) > 90:
                why = "too-long"
            return {"kind": "decode-accepts-invalid", "why": why, "got": str(got)}
        return {"kind": "decode-differs-from-reference", "got": str(got), "want": str(want)}
    if got is not None:
        back = _bm.encode(hrp, got[0], got[1])
        if back != s.lower():
            return {"kind": "encode-of-decode", "back": back}
    return None


def chk_corruption(hrp, s, t):
    """t has the length of the valid string s and differs in 1..4 characters: must be rejected
    (unless it is the same string in the other case)"""
    r0 = _bm.decode(hrp, s)
    if r0 == (None, None):
        return {"kind": "harness-base-string-invalid"}
    k = sum(1 for a, b in zip(s, t) if a != b)
    if len(s) != len(t) or not (1 <= k <= 4) or s.lower() == t.lower():
        return None
    r = _bm.decode(hrp, t)
    if r != (None, None):
        same_prefix = t[:len(hrp) + 1].lower() == s[:len(hrp) + 1].lower()
        return {"kind": "corruption-accepted", "errors": k, "ver_from": r0[0], "ver_to": r[0],
                "hrp_untouched": same_prefix, "got": str(r)}
    return None


# ---- the Bech32 <-> Bech32m switch: the only <=4-character errors a BIP350 decoder can accept ------------------
def _lstep(c):
    top = c >> 25
    c = (c & 0x1FFFFFF) << 5
    for i in range(5):
        if (top >> i) & 1:
            c ^= _GEN[i]
    return c


def c11_flip_patterns():
    """all error patterns of weight <= 4 that change the version symbol between 0 and 1..16 and have syndrome
    1 ^ BECH32M_CONST, for the two data-part lengths a v0 address can have (39, 59): meet-in-the-middle search.
    Each pattern is (L, {distance from the end: xor value})."""
    St = [list(range(32))]
    for d in range(1, 60):
        St.append([_lstep(x) for x in St[-1]])
    C = 1 ^ M_CONST
    pats = set()
    for L in (39, 59):
        Z0 = [(0, None, None)] + [(St[d][b], d, b) for d in range(0, L - 1) for b in range(1, 32)]
        T = {}
        for a in range(1, 17):
            for (x, d, b) in Z0:
                T[St[L - 1][a] ^ C ^ x] = (a, d, b)
        for i in range(len(Z0)):
            u = Z0[i][0]
            for j in range(i + 1, len(Z0)):
                w = u ^ Z0[j][0]
                if w in T:
                    a, d1, b1 = T[w]
                    errs = {L - 1: a}
                    for d, b in ((d1, b1), Z0[i][1:], Z0[j][1:]):
                        if d is not None:
                            errs[d] = errs.get(d, 0) ^ b
                    pats.add((L, tuple(sorted((k, v) for k, v in errs.items() if v))))
        if 0 in T:
            a, d1, b1 = T[0]
            pats.add((L, tuple(sorted([(L - 1, a)] + ([(d1, b1)] if d1 is not None else [])))))
    return sorted(pats)


def _apply_pattern(s, errs):
    t = list(s)
    for d, b in errs:
        i = len(s) - 1 - d
        t[i] = B32[B32.index(t[i]) ^ b]
    return "".join(t)


FLIP_GOOD = "bc1q82qwhphpzr8upm6xumv4ehyxt8d9dqpmjga6lu"
FLIP_BAD = "bc1t82qwhphpzr8upm6xumv4eh2xt8d9dqpmegm6lu"


def ref_parse_bech32(s):
    """what parse_bech32 must return, from the BIP text: (hrp, version, program bytes, 1|2) or None"""
    if any(ord(c) < 33 or ord(c) > 126 for c in s) or (s != s.lower() and s != s.upper()):
        return None
    a = s.lower()
    if len(a) > 90 or "1" not in a:
        return None
    h, _, d = a.rpartition("1")
    if len(h) < 1 or len(d) < 7 or any(c not in B32 for c in d):
        return None
    vals = [B32.index(c) for c in d]
    pm = ref_polymod(ref_expand(h) + vals)
    if pm not in (1, M_CONST):
        return None
    return (h, vals[0], ref_from5(vals[1:-6]) or b"", 1 if pm == 1 else 2)


def chk_spelling_sequence(variants):
    """module-level state: DIFFERENT string objects that are spellings of one another (lower, upper, mixed case, one
    character changed) parsed one after the other: each answer must be what the BIP text says for that very string,
    whatever was parsed before"""
    nets = dict(_networks())
    for i, v in enumerate(variants):
        want = ref_parse_bech32(v)
        try:
            got = _ps.parse_bech32(v)
        except Exception as e:
            return {"kind": "parse_bech32-raises", "exc": type(e).__name__, "step": i}
        if got is not None:
            got = (got[0], got[1], bytes(got[2]), got[3])
        if got != want:
            return {"kind": "spelling-sequence-parse_bech32", "step": i, "string": cps(v), "got": _norm(got), "want": _norm(want)}
        for sym in ("btc", "xtn"):
            net = nets.get(sym)
            if net is None:
                continue
            hrp = "bc" if sym == "btc" else "tb"
            r = net.parse.address(v)
            w = ref_segwit_decode(hrp, v)
            ok_want = w is not None and ((w[0] == 0 and len(w[1]) in (20, 32)) or (w[0] == 1 and len(w[1]) == 32))
            if (r is not None) and w is None:
                return {"kind": "spelling-sequence-address-accepted", "net": sym, "step": i, "string": cps(v)}
            if r is None and ok_want:
                return {"kind": "spelling-sequence-address-refused", "net": sym, "step": i, "string": cps(v)}
    return None


def _spelling_sequences(rng, tier):
    out = []
    for hrp, ver, n in (("bc", 0, 20), ("bc", 1, 32), ("tb", 0, 32), ("tb", 1, 32), ("ltc", 0, 20), ("a1b", 5, 7)):
        for _ in range(3 if tier == "quick" else 60):
            s = ref_segwit_encode(hrp, ver, bytes(rng.getrandbits(8) for _ in range(n)))
            letters = [j for j, c in enumerate(s) if c.isalpha()]
            j = rng.choice(letters)
            mixed = s[:j] + s[j].upper() + s[j + 1:]
            mixed2 = s.upper()[:j] + s[j] + s.upper()[j + 1:]
            k = rng.randrange(len(hrp) + 1, len(s))
            other = s[:k] + rng.choice([c for c in B32 if c != s[k]]) + s[k + 1:]
            forms = [s, s.upper(), mixed, mixed2, other, other.upper(), s.replace("k", "\u212a"), s.upper().replace("K", "\u212a")]
            out.append([s, mixed, s.upper(), mixed2, other, s])
            out.append([mixed, s, mixed])
            out.append([other, s, other.upper(), s.upper()])
            out.append([s.upper(), mixed2, s, mixed])
            out.append([rng.choice(forms) for _ in range(8)])
    return out


class _IntSub(int):
    pass


class _StrSub(str):
    pass


def _same_or_typeerror(f, want, *a):
    """None if f(*a) == want or f refuses the presentation with TypeError; else a description"""
    try:
        got = f(*a)
    except TypeError:
        return None
    except Exception as e:
        return "raises %s" % type(e).__name__
    return None if got == want else "got %r" % (got,)


def chk_presentation(b: bytes, hrp: str, ver: int, prog: bytes):
    """presentation independence: the same value handed over as bytes / bytearray / memoryview / list / tuple, int
    subclasses (bool included) and str subclasses gives the same answer (or a TypeError), never a different one"""
    w58, w58h = _b58.b2a_base58(b), _b58.b2a_hashed_base58(b)
    for P in (bytearray, memoryview, list, tuple):
        for f, want in ((_b58.b2a_base58, w58), (_b58.b2a_hashed_base58, w58h)):
            r = _same_or_typeerror(f, want, P(b))
            if r:
                return {"kind": "presentation-dependent", "f": f.__name__, "as": P.__name__, "detail": r}
    for f, want in ((_b58.a2b_base58, b), (_ps.parse_b58, b)):
        r = _same_or_typeerror(f, want, _StrSub(w58))
        if r:
            return {"kind": "presentation-dependent", "f": f.__name__, "as": "str subclass", "detail": r}
    r = _same_or_typeerror(_b58.a2b_hashed_base58, b, _StrSub(w58h)) or _same_or_typeerror(_ps.parse_b58_double_sha256, b, _StrSub(w58h))
    if r:
        return {"kind": "presentation-dependent", "f": "hashed decode", "as": "str subclass", "detail": r}
    want = _bm.encode(hrp, ver, prog)
    w5 = _bm.convertbits(prog, 8, 5)
    vers = [_IntSub(ver)] + ([bool(ver)] if ver in (0, 1) else [])
    for P in (bytes, bytearray, memoryview, list, tuple):
        r = _same_or_typeerror(_bm.convertbits, w5, P(prog), 8, 5)
        if r:
            return {"kind": "presentation-dependent", "f": "convertbits", "as": P.__name__, "detail": r}
        for v in [ver] + vers:
            r = _same_or_typeerror(_bm.encode, want, _StrSub(hrp), v, P(prog))
            if r:
                return {"kind": "presentation-dependent", "f": "encode", "as": "%s/%s" % (type(v).__name__, P.__name__), "detail": r}
    if want is not None:
        wd = _bm.decode(hrp, want)
        for h, a in ((_StrSub(hrp), _StrSub(want)), (hrp, _ps.parseable_str(want)), (_ps.parseable_str(hrp), want.upper())):
            r = _same_or_typeerror(_bm.decode, wd, h, a)
            if r:
                return {"kind": "presentation-dependent", "f": "decode", "as": type(a).__name__, "detail": r}
    return None


def _pc(name, inp, f):
    return PropCase(name, inp, f)


def prop_cases(rng, tier):
    for b in _bytes_inputs(rng, tier):
        yield _pc("b58_bytes", {"b": b.hex()}, (lambda b=b: chk_b58_bytes(b)))
    for s in _b58_strings(rng, tier):
        yield _pc("b58_string", {"s": cps(s)}, (lambda s=s: chk_b58_string(s)))
    for s in list(_hashed_strings(rng, tier)) + BAD_CHARS:
        yield _pc("b58check_string", {"s": cps(s)}, (lambda s=s: chk_b58check_string(s)))
    for d, fb, tb, pad in _convert_cases(rng, tier):
        if (fb, tb, pad) == (8, 5, True) and all(0 <= x < 256 for x in d):
            yield _pc("convert", {"prog": bytes(d).hex()}, (lambda d=d: chk_convert(bytes(d))))
        if (fb, tb, pad) == (5, 8, False) and all(0 <= x < 32 for x in d):
            yield _pc("convert5", {"syms": d}, (lambda d=d: chk_convert5(d)))
    triples = list(_valid_triples(rng, tier))
    for hrp, ver, prog in triples:
        yield _pc("segwit_triple", {"hrp": hrp, "ver": ver, "prog": prog.hex()},
                  (lambda hrp=hrp, ver=ver, prog=prog: chk_segwit_triple(hrp, ver, prog)))
    for hrp in ("bc", "Bc", "b c", ""):
        for ver in (-1, 0, 1, 16, 17):
            for n in (0, 1, 2, 19, 20, 21, 32, 40, 41):
                prog = bytes([0xa5]) * n
                yield _pc("segwit_triple", {"hrp": hrp, "ver": ver, "prog": prog.hex()},
                          (lambda hrp=hrp, ver=ver, prog=prog: chk_segwit_triple(hrp, ver, prog)))
    for hrp, s in _bech_strings(rng, tier):
        yield _pc("segwit_string", {"hrp": hrp, "s": cps(s)}, (lambda hrp=hrp, s=s: chk_segwit_string(hrp, s)))
    # corruption of up to four characters
    valid = [(h, ref_segwit_encode(h, v, p)) for h, v, p in triples if _valid_triple(h, v, p)]
    alpha_all = B32 + "1bio" + B32.upper()
    n1 = 12 if tier == "quick" else 60
    for hrp, s in valid[::max(1, len(valid) // n1)][:n1]:          # every single substitution by a charset character
        for p in range(len(s)):
            for c in B32:
                t = s[:p] + c + s[p + 1:]
                yield _pc("corruption", {"hrp": hrp, "s": s, "t": t}, (lambda hrp=hrp, s=s, t=t: chk_corruption(hrp, s, t)))
    for hrp, s in valid[:3]:                                         # every double substitution in a window
        for p in range(len(hrp) + 1, len(s) - 1):
            for c in B32[::3]:
                for c2 in B32[1::5]:
                    t = s[:p] + c + c2 + s[p + 2:]
                    yield _pc("corruption", {"hrp": hrp, "s": s, "t": t}, (lambda hrp=hrp, s=s, t=t: chk_corruption(hrp, s, t)))
    for _ in range(20000 if tier == "quick" else 600000):
        hrp, s = rng.choice(valid)
        t = _corrupt(rng, s, rng.choice([1, 2, 3, 3, 4, 4]), B32 if rng.random() < 0.8 else alpha_all)
        yield _pc("corruption", {"hrp": hrp, "s": s, "t": t}, (lambda hrp=hrp, s=s, t=t: chk_corruption(hrp, s, t)))
    for pc in flip_cases(rng, tier):
        yield pc
    tl = list(_valid_triples(rng, "quick"))
    for i, b in enumerate(list(_bytes_inputs(rng, "quick"))[:: (40 if tier == "quick" else 2)]):
        hrp, ver, prog = tl[i % len(tl)]
        yield _pc("presentation", {"b": b.hex(), "hrp": hrp, "ver": ver, "prog": prog.hex()},
                  (lambda b=b, hrp=hrp, ver=ver, prog=prog: chk_presentation(b, hrp, ver, prog)))
    for seq in _spelling_sequences(rng, tier):
        yield _pc("spelling_sequence", {"variants": [cps(v) for v in seq]}, (lambda seq=seq: chk_spelling_sequence(seq)))
    for s, ops in _histories(rng, tier, False):
        yield _pc("history", {"s": cps(s), "ops": ops}, (lambda s=s, ops=ops: chk_history(s, ops)))


def flip_cases(rng, tier):
    """direct checks built from every flip pattern, in both directions (v0 -> vN and vN -> v0)"""
    yield _pc("corruption", {"hrp": "bc", "s": FLIP_GOOD, "t": FLIP_BAD}, (lambda: chk_corruption("bc", FLIP_GOOD, FLIP_BAD)))
    for L, errs in c11_flip_patterns():
        n = 20 if L == 39 else 32
        a = dict(errs)[L - 1]
        for _ in range(2 if tier == "quick" else 20):
            prog = bytes(rng.getrandbits(8) for _ in range(n))
            for hrp, ver in (("bc", 0), ("tb", a)):
                s = ref_segwit_encode(hrp, ver, prog)
                t = _apply_pattern(s, errs)
                yield _pc("corruption", {"hrp": hrp, "s": s, "t": t}, (lambda hrp=hrp, s=s, t=t: chk_corruption(hrp, s, t)))


def _str(x):
    return "".join(chr(c) for c in x)


def replay_input(check, inp):
    if check == "b58_bytes":
        return chk_b58_bytes(bytes.fromhex(inp["b"]))
    if check == "b58_string":
        return chk_b58_string(_str(inp["s"]))
    if check == "b58check_string":
        return chk_b58check_string(_str(inp["s"]))
    if check == "convert":
        return chk_convert(bytes.fromhex(inp["prog"]))
    if check == "convert5":
        return chk_convert5(inp["syms"])
    if check == "segwit_triple":
        return chk_segwit_triple(inp["hrp"], inp["ver"], bytes.fromhex(inp["prog"]))
    if check == "segwit_string":
        return chk_segwit_string(inp["hrp"], _str(inp["s"]))
    if check == "corruption":
        return chk_corruption(inp["hrp"], inp["s"], inp["t"])
    if check == "presentation":
        return chk_presentation(bytes.fromhex(inp["b"]), inp["hrp"], inp["ver"], bytes.fromhex(inp["prog"]))
    if check == "spelling_sequence":
        return chk_spelling_sequence([_str(v) for v in inp["variants"]])
    if check == "history":
        return chk_history(_str(inp["s"]), list(inp["ops"]))
    return {"kind": "unknown-check"}


def classify(pc, r):
    if pc.name == "corruption" and r.get("kind") == "corruption-accepted" and r.get("errors") == 4 \
            and (r.get("ver_from") == 0) != (r.get("ver_to") == 0) and r.get("hrp_untouched"):
        return "bech32-bech32m-4-error-flip"
    return None


KNOWN_REPLAYS = {
    "bech32-bech32m-4-error-flip": lambda: chk_corruption("bc", FLIP_GOOD, FLIP_BAD),
}


def search(rng, tier, disagreements, known_ids):
    """after a proof/correspondence break: look for an input on which the property itself fails"""
    cands = []

    def toks_str(t):
        body = t[1:-1]
        return "".join(chr(int(x[1:], 16)) for x in body.split(",")) if body else ""

    def toks_zl(t):
        body = t[1:-1]
        return [(-int(x[2:], 16) if x.startswith("i-") else int(x[1:], 16)) for x in body.split(",")] if body else []

    for d in disagreements[:60]:
        toks = d["case"].split(" ")
        fn = toks[0]
        try:
            if fn in ("b2a_base58", "b2a_hashed_base58"):
                b = bytes.fromhex(toks[1][1:])
                for bb in {b, b"\0" + b, b[1:], b + b"\0"}:
                    cands.append(_pc("b58_bytes", {"b": bb.hex()}, (lambda bb=bb: chk_b58_bytes(bb))))
            elif fn == "to_long":
                b = bytes.fromhex(toks[2][1:])
                cands.append(_pc("b58_bytes", {"b": b.hex()}, (lambda b=b: chk_b58_bytes(b))))
            elif fn in ("a2b_base58", "parse_b58"):
                s = toks_str(toks[1])
                cands.append(_pc("b58_string", {"s": cps(s)}, (lambda s=s: chk_b58_string(s))))
            elif fn in ("a2b_hashed_base58", "is_hashed_base58_valid", "parse_b58_double_sha256"):
                s = toks_str(toks[1])
                cands.append(_pc("b58check_string", {"s": cps(s)}, (lambda s=s: chk_b58check_string(s))))
            elif fn == "convertbits":
                dd = toks_zl(toks[1])
                if all(0 <= x < 256 for x in dd):
                    cands.append(_pc("convert", {"prog": bytes(dd).hex()}, (lambda dd=dd: chk_convert(bytes(dd)))))
                if all(0 <= x < 32 for x in dd):
                    cands.append(_pc("convert5", {"syms": dd}, (lambda dd=dd: chk_convert5(dd))))
            elif fn == "history":
                st, ops = toks_str(toks[1]), toks_zl(toks[2])
                allobs = sorted(_observers())
                variants = [ops, ops[::-1]] + [[a] + ops for a in allobs] + [ops + [a] for a in allobs] \
                    + [[a, b] for a in allobs for b in ops if b in allobs]
                for v in variants:
                    cands.append(_pc("history", {"s": cps(st), "ops": v}, (lambda st=st, v=v: chk_history(st, v))))
            elif fn == "decode":
                hrp, s = toks_str(toks[1]), toks_str(toks[2])
                cands.append(_pc("segwit_string", {"hrp": hrp, "s": cps(s)}, (lambda hrp=hrp, s=s: chk_segwit_string(hrp, s))))
                true_hrp = s.lower().rpartition("1")[0]
                for h in {hrp, true_hrp, true_hrp.partition("1")[0]}:
                    if h and all(33 <= ord(c) <= 126 for c in h):
                        for h2, s2 in _foreign_hrp_strings(rng, "quick", [h]):
                            cands.append(_pc("segwit_string", {"hrp": h2, "s": cps(s2)}, (lambda h2=h2, s2=s2: chk_segwit_string(h2, s2))))
            elif fn in ("bech32_decode", "parse_bech32", "parse_bech32_or_32m"):
                s = toks_str(toks[1])
                for seq in ([s.lower(), s], [s.upper(), s], [s, s.lower(), s.upper()], [s.lower(), s.upper(), s, s.lower()]):
                    cands.append(_pc("spelling_sequence", {"variants": [cps(v) for v in seq]}, (lambda seq=seq: chk_spelling_sequence(seq))))
                hrp = s.lower().rpartition("1")[0]
                cands.append(_pc("segwit_string", {"hrp": hrp, "s": cps(s)}, (lambda hrp=hrp, s=s: chk_segwit_string(hrp, s))))
            elif fn == "encode":
                hrp, ver, prog = toks_str(toks[1]), toks_zl("[" + toks[2] + "]")[0], toks_zl(toks[3])
                if all(0 <= x < 256 for x in prog):
                    prog = bytes(prog)
                    cands.append(_pc("segwit_triple", {"hrp": hrp, "ver": ver, "prog": prog.hex()},
                                     (lambda hrp=hrp, ver=ver, prog=prog: chk_segwit_triple(hrp, ver, prog))))
        except Exception:
            pass
    for pc in cands:
        try:
            r = pc.thunk()
        except Exception as e:
            r = {"kind": "raises", "detail": "%s: %s" % (type(e).__name__, e)}
        if r is not None and classify(pc, r) not in known_ids:
            return {"check": pc.name, "input": pc.inp, "failure": r}
    for pc in prop_cases(rng, "quick"):
        try:
            r = pc.thunk()
        except Exception as e:
            r = {"kind": "raises", "detail": "%s: %s" % (type(e).__name__, e)}
        if r is not None and classify(pc, r) not in known_ids:
            return {"check": pc.name, "input": pc.inp, "failure": r}
    return None
