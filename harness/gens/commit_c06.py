"""harness/gens/commit_c06.py — table generator for C06 (coq/Gen/GenCommitC06.v).

Constants the commitment model (coq/Model/Commit.v) takes from /repo, dumped from the LIVE modules and cross-checked
against the source AST (fail-closed).  Independent of the C04 generator on purpose.
  * SIGHASH_NONE / SIGHASH_SINGLE / SIGHASH_ANYONECANPAY (flags.py literal = imported value);
  * the literal masks of every `hash_type & <int>` in BitcoinSolutionChecker._signature_hash and in
    SegwitChecker._hash_sequence / _hash_outputs (one value per function required);
  * `a << b` of the SIGHASH_SINGLE out-of-range value, the blank output amount, ZERO32;
  * the struct layouts of TxIn.stream ("#LSL") and TxOut.stream ("QS") and what "#", "L", "Q" write
    (observed on the live SATOSHI_STREAMER: truncation length of "#", little-endian widths);
  * the coinbase outpoint (TxIn.coinbase_tx_in).
Proofs/CommitP.v proves `gen06_consts_ok` (every constant has its consensus value) by reflexivity: a changed
constant breaks that named lemma.
"""
import ast, io, os
import gen_tables as G


def _cls_func(rel, cls, name):
    tree = ast.parse(open(os.path.join(G.REPO, rel)).read())
    for node in tree.body:
        if isinstance(node, ast.ClassDef) and node.name == cls:
            for f in node.body:
                if isinstance(f, ast.FunctionDef) and f.name == name:
                    return f
    raise G.GenError("%s.%s not found in %s" % (cls, name, rel))


def _int_masks(f, what, expect_count):
    """int literals and-ed with the name hash_type in f"""
    res = []
    for n in ast.walk(f):
        if isinstance(n, ast.BinOp) and isinstance(n.op, ast.BitAnd):
            for a, b in ((n.left, n.right), (n.right, n.left)):
                if isinstance(a, ast.Name) and a.id == "hash_type" and isinstance(b, ast.Constant) and type(b.value) is int:
                    res.append(b.value)
    if len(res) != expect_count or len(set(res)) != 1:
        raise G.GenError("%s: integer masks of hash_type %r (expected %d equal ones)" % (what, res, expect_count))
    return res[0]


def _named_masks(f, what, expect):
    """names and-ed with hash_type (as truth values), sorted"""
    res = []
    for n in ast.walk(f):
        if isinstance(n, ast.BinOp) and isinstance(n.op, ast.BitAnd) and isinstance(n.left, ast.Name) \
                and n.left.id == "hash_type" and isinstance(n.right, ast.Name):
            res.append(n.right.id)
    if sorted(res) != sorted(expect):
        raise G.GenError("%s: named masks of hash_type %r, expected %r" % (what, res, expect))


def _stream_format(rel, cls):
    f = _cls_func(rel, cls, "stream")
    fmts = [n.args[0].value for n in ast.walk(f) if isinstance(n, ast.Call) and isinstance(n.func, ast.Name)
            and n.func.id == "stream_struct" and n.args and isinstance(n.args[0], ast.Constant)]
    if len(fmts) != 1 or not isinstance(fmts[0], str):
        raise G.GenError("%s.stream: expected one stream_struct call with a literal format" % cls)
    return fmts[0]


def gen_commit():
    from pycoin.satoshi import flags
    from pycoin.satoshi.satoshi_struct import stream_struct
    from pycoin.coins.bitcoin import SegwitChecker as SWM
    from pycoin.coins.bitcoin.TxIn import TxIn
    vals = {}
    for n in ["SIGHASH_ALL", "SIGHASH_NONE", "SIGHASH_SINGLE", "SIGHASH_ANYONECANPAY"]:
        lit = G.ast_literal_of("pycoin/satoshi/flags.py", n)
        if lit != getattr(flags, n) or type(lit) is not int:
            raise G.GenError("flags.%s literal/live mismatch" % n)
        vals[n] = lit
    rel = "pycoin/coins/bitcoin/SolutionChecker.py"
    f = _cls_func(rel, "BitcoinSolutionChecker", "_signature_hash")
    m_leg = _int_masks(f, "_signature_hash", 2)
    _named_masks(f, "_signature_hash", ["SIGHASH_ANYONECANPAY"])
    lsh = [(n.left.value, n.right.value) for n in ast.walk(f) if isinstance(n, ast.BinOp) and isinstance(n.op, ast.LShift)
           and isinstance(n.left, ast.Constant) and isinstance(n.right, ast.Constant)]
    if len(lsh) != 1:
        raise G.GenError("_signature_hash: expected exactly one literal shift")
    big = [n.value for n in ast.walk(f) if isinstance(n, ast.Constant) and type(n.value) is int and n.value > 0xFFFF]
    if len(big) != 1:
        raise G.GenError("_signature_hash: expected exactly one large literal (blank output amount), got %r" % big)
    rel = "pycoin/coins/bitcoin/SegwitChecker.py"
    m_seq = _int_masks(_cls_func(rel, "SegwitChecker", "_hash_sequence"), "_hash_sequence", 2)
    m_out = _int_masks(_cls_func(rel, "SegwitChecker", "_hash_outputs"), "_hash_outputs", 2)
    _named_masks(_cls_func(rel, "SegwitChecker", "_hash_prevouts"), "_hash_prevouts", ["SIGHASH_ANYONECANPAY"])
    _named_masks(_cls_func(rel, "SegwitChecker", "_hash_sequence"), "_hash_sequence", ["SIGHASH_ANYONECANPAY"])
    _named_masks(_cls_func(rel, "SegwitChecker", "_hash_outputs"), "_hash_outputs", [])
    z = SWM.ZERO32
    if not isinstance(z, bytes):
        raise G.GenError("ZERO32 not bytes")
    fin = _stream_format("pycoin/coins/bitcoin/TxIn.py", "TxIn")
    fout = _stream_format("pycoin/coins/bitcoin/TxOut.py", "TxOut")
    if fin != "#LSL" or fout != "QS":
        raise G.GenError("TxIn/TxOut stream formats %r %r" % (fin, fout))

    def emitted(ch, v):
        b = io.BytesIO()
        stream_struct(ch, b, v)
        return b.getvalue()
    long_hash = bytes(range(40))
    trunc = len(emitted("#", long_hash))
    if emitted("#", long_hash) != long_hash[:trunc] or emitted("#", b"ab") != b"ab":
        raise G.GenError('"#" does not write v[:n]')
    wl, wq = len(emitted("L", 1)), len(emitted("Q", 1))
    if emitted("L", 0x01020304 % (1 << (8 * wl))) != (0x01020304 % (1 << (8 * wl))).to_bytes(wl, "little") \
            or emitted("Q", 0x0102030405060708) != (0x0102030405060708).to_bytes(wq, "little"):
        raise G.GenError('"L"/"Q" are not little-endian')
    cb = TxIn.coinbase_tx_in(b"")
    t = G.HEADER
    t += "(* pycoin/satoshi/flags.py *)\n"
    t += "Definition gen06_sighash_all : N := %s.\n" % G.coq_N(vals["SIGHASH_ALL"])
    t += "Definition gen06_sighash_none : N := %s.\n" % G.coq_N(vals["SIGHASH_NONE"])
    t += "Definition gen06_sighash_single : N := %s.\n" % G.coq_N(vals["SIGHASH_SINGLE"])
    t += "Definition gen06_sighash_anyonecanpay : N := %s.\n" % G.coq_N(vals["SIGHASH_ANYONECANPAY"])
    t += "(* literal masks of `hash_type & C` in _signature_hash, _hash_sequence, _hash_outputs *)\n"
    t += "Definition gen06_mask_legacy : N := %s.\n" % G.coq_N(m_leg)
    t += "Definition gen06_mask_sequence : N := %s.\n" % G.coq_N(m_seq)
    t += "Definition gen06_mask_outputs : N := %s.\n" % G.coq_N(m_out)
    t += "(* `a << b` returned for SIGHASH_SINGLE without a matching output; amount of the blank outputs; ZERO32 *)\n"
    t += "Definition gen06_single_base : N := %s.\nDefinition gen06_single_shift : N := %s.\n" % (G.coq_N(lsh[0][0]), G.coq_N(lsh[0][1]))
    t += "Definition gen06_blank_amount : N := %s.\n" % G.coq_N(big[0])
    t += "Definition gen06_zero32 : list byte := %s.\n" % G.coq_bytes(z)
    t += '(* SATOSHI_STREAMER: "#" writes v[:n]; "L" and "Q" are little-endian of these widths *)\n'
    t += "Definition gen06_hash_trunc : nat := %d%%nat.\nDefinition gen06_width_L : nat := %d%%nat.\nDefinition gen06_width_Q : nat := %d%%nat.\n" % (trunc, wl, wq)
    t += "(* TxIn.coinbase_tx_in: the outpoint TxIn.is_coinbase compares with *)\n"
    t += "Definition gen06_coinbase_hash : list byte := %s.\n" % G.coq_bytes(cb.previous_hash)
    t += "Definition gen06_coinbase_index : N := %s.\n" % G.coq_N(cb.previous_index)
    return t


GENERATORS = {"GenCommitC06.v": gen_commit}
