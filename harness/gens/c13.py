"""harness/gens/c13.py — table generator for C13 (GenTxBuild.v): the constants that the
TxBuild/DecimalConv models use, dumped from the live modules and cross-checked against the source AST."""
import ast, os, decimal, inspect
import gen_tables as G


def _dec(d):
    if not isinstance(d, decimal.Decimal) or not d.is_finite():
        raise G.GenError("not a finite Decimal: %r" % (d,))
    sign, digits, exp = d.as_tuple()
    return "(%s, %s, %s)" % ("true" if sign else "false", G.coq_Z(int("".join(map(str, digits)) or "0")), G.coq_Z(exp))


def _func_int_constants(relpath, clsname, fname):
    tree = ast.parse(open(os.path.join(G.REPO, relpath)).read())
    for node in ast.walk(tree):
        if isinstance(node, ast.ClassDef) and node.name == clsname:
            for f in node.body:
                if isinstance(f, ast.FunctionDef) and f.name == fname:
                    return [n.value for n in ast.walk(f) if isinstance(n, ast.Constant) and type(n.value) is int]
    raise G.GenError("%s.%s not found in %s" % (clsname, fname, relpath))


def gen_txbuild():
    import pycoin.convention as conv
    import pycoin.convention.tx_fee as tx_fee
    from pycoin.coins.bitcoin import Tx as TxM, TxIn as TxInM, Spendable as SpM
    ctx = decimal.getcontext()
    if ctx.rounding != decimal.ROUND_HALF_EVEN:
        raise G.GenError("decimal context rounding is %s, the model assumes ROUND_HALF_EVEN" % ctx.rounding)
    if ctx.Emax < 10000 or ctx.Emin > -10000:
        raise G.GenError("decimal exponent limits too tight for the model's assumption")
    fee_lit = G.ast_literal_of("pycoin/convention/tx_fee.py", "TX_FEE_PER_THOUSAND_BYTES")
    if fee_lit != tx_fee.TX_FEE_PER_THOUSAND_BYTES or type(fee_lit) is not int:
        raise G.GenError("TX_FEE_PER_THOUSAND_BYTES literal/live mismatch")
    zero32 = TxM.ZERO32
    zero_in = TxInM.ZERO
    for z in (zero32, zero_in):
        if not isinstance(z, bytes):
            raise G.GenError("ZERO constant is not bytes")
    cb = _func_int_constants("pycoin/coins/bitcoin/TxIn.py", "TxIn", "is_coinbase")
    if len(cb) != 1:
        raise G.GenError("TxIn.is_coinbase: expected exactly one integer literal, got %r" % (cb,))
    sig = inspect.signature(SpM.Spendable.tx_in)
    d_script = sig.parameters["script"].default
    d_seq = sig.parameters["sequence"].default
    if not isinstance(d_script, bytes) or type(d_seq) is not int:
        raise G.GenError("Spendable.tx_in defaults have unexpected types")
    t = G.HEADER
    t += "(* pycoin/convention/__init__.py: live Decimal objects as (sign, coefficient, exponent) *)\n"
    t += "Definition gen_satoshi_per_coin : bool * Z * Z := %s.\n" % _dec(conv.SATOSHI_PER_COIN)
    t += "Definition gen_coin_per_satoshi : bool * Z * Z := %s.\n" % _dec(conv.COIN_PER_SATOSHI)
    t += "Definition gen_satoshi_to_mbtc : bool * Z * Z := %s.\n" % _dec(conv.SATOSHI_TO_MBTC)
    t += "Definition gen_mbtc_per_satoshi : bool * Z * Z := %s.\n" % _dec(conv.MBTC_PER_SATOSHI)
    t += "(* decimal.getcontext(): prec; rounding checked to be ROUND_HALF_EVEN by the generator *)\n"
    t += "Definition gen_decimal_prec : Z := %s.\n" % G.coq_Z(ctx.prec)
    t += "(* pycoin/convention/tx_fee.py *)\n"
    t += "Definition gen_tx_fee_per_thousand_bytes : Z := %s.\n" % G.coq_Z(fee_lit)
    t += "(* pycoin/coins/bitcoin/Tx.py ZERO32, TxIn.py ZERO and the literal of TxIn.is_coinbase *)\n"
    t += "Definition gen_zero32 : list byte := %s.\n" % G.coq_bytes(zero32)
    t += "Definition gen_txin_zero : list byte := %s.\n" % G.coq_bytes(zero_in)
    t += "Definition gen_coinbase_index : Z := %s.\n" % G.coq_Z(cb[0])
    t += "(* Spendable.tx_in default arguments *)\n"
    t += "Definition gen_txin_default_script : list byte := %s.\n" % G.coq_bytes(d_script)
    t += "Definition gen_txin_default_sequence : Z := %s.\n" % G.coq_Z(d_seq)
    return t


GENERATORS = {"GenTxBuild.v": gen_txbuild}
