"""harness/gens/c13.py — table generator for C13 (GenTxBuild.v): the constants that the
TxBuild/DecimalConv models use, dumped from the live modules and cross-checked against the source AST."""
import ast, os, decimal, inspect
import gen_tables as G


def _dec(d):
    if not isinstance(d, decimal.Decimal) or not d.is_finite():
        raise G.GenError("not a finite Decimal: %r" % (d,))
    sign, digits, exp = d.as_tuple()
    return "(%s, %s, %s)" % ("true" if sign else "false", G.coq_Z(int("".join(map(str, digits)) or "0")), G.coq_Z(exp))


def _func_int_constants(relpath, clsname, fname):
    tree = ast.parse(open(os.path.join(G.REPO, relpath)).read())
    for node in ast.walk(tree):
        if isinstance(node, ast.ClassDef) and node.name == clsname:
            for f in node.body:
                if isinstance(f, ast.FunctionDef) and f.name == fname:
                    return [n.value for n in ast.walk(f) if isinstance(n, ast.Constant) and type(n.value) is int]
    raise G.GenError("%s.%s not found in %s" % (clsname, fname, relpath))


def gen_txbuild():
    """Shape problems do not abort the whole table run (other properties share it): the affected constant gets a
    sentinel and gen_c13_shape_ok becomes false, which breaks the named lemma gen_c13_shape in Proofs/TxBuildP.v and
    Proofs/DecimalConvP.v, i.e. exactly C13's proof obligations (fail-closed, locally)."""
    problems = []

    def attempt(what, f, sentinel):
        try:
            return f()
        except Exception as e:  # noqa
            problems.append("%s: %s: %s" % (what, type(e).__name__, str(e).replace("*)", "* )")[:200]))
            return sentinel

    def conv_const(name):
        import pycoin.convention as conv
        return _dec(getattr(conv, name))

    def ctx_prec():
        ctx = decimal.getcontext()
        if ctx.rounding != decimal.ROUND_HALF_EVEN:
            raise G.GenError("decimal context rounding is %s, the model assumes ROUND_HALF_EVEN" % ctx.rounding)
        if ctx.Emax < 10000 or ctx.Emin > -10000:
            raise G.GenError("decimal exponent limits too tight for the model's assumption")
        if type(ctx.prec) is not int or ctx.prec < 1:
            raise G.GenError("unexpected precision")
        return G.coq_Z(ctx.prec)

    def fee_const():
        import pycoin.convention.tx_fee as tx_fee
        fee_lit = G.ast_literal_of("pycoin/convention/tx_fee.py", "TX_FEE_PER_THOUSAND_BYTES")
        if fee_lit != tx_fee.TX_FEE_PER_THOUSAND_BYTES or type(fee_lit) is not int:
            raise G.GenError("TX_FEE_PER_THOUSAND_BYTES literal/live mismatch")
        return G.coq_Z(fee_lit)

    def zero_const(modname, attr):
        import importlib
        m = importlib.import_module("pycoin.coins.bitcoin." + modname)
        z = getattr(m, attr)
        if not isinstance(z, bytes):
            raise G.GenError("%s.%s is not bytes" % (modname, attr))
        return G.coq_bytes(z)

    def coinbase_index():
        cb = _func_int_constants("pycoin/coins/bitcoin/TxIn.py", "TxIn", "is_coinbase")
        if len(cb) != 1:
            raise G.GenError("TxIn.is_coinbase: expected exactly one integer literal, got %r" % (cb,))
        return G.coq_Z(cb[0])

    def txin_default(which):
        from pycoin.coins.bitcoin import Spendable as SpM
        sig = inspect.signature(SpM.Spendable.tx_in)
        d = sig.parameters[which].default
        if which == "script":
            if not isinstance(d, bytes):
                raise G.GenError("Spendable.tx_in default script is not bytes")
            return G.coq_bytes(d)
        if type(d) is not int:
            raise G.GenError("Spendable.tx_in default sequence is not an int")
        return G.coq_Z(d)

    zdec = "(false, (0)%Z, (0)%Z)"
    vals = [
        ("(* pycoin/convention/__init__.py: live Decimal objects as (sign, coefficient, exponent) *)", None, None),
        ("gen_satoshi_per_coin", "bool * Z * Z", attempt("SATOSHI_PER_COIN", lambda: conv_const("SATOSHI_PER_COIN"), zdec)),
        ("gen_coin_per_satoshi", "bool * Z * Z", attempt("COIN_PER_SATOSHI", lambda: conv_const("COIN_PER_SATOSHI"), zdec)),
        ("gen_satoshi_to_mbtc", "bool * Z * Z", attempt("SATOSHI_TO_MBTC", lambda: conv_const("SATOSHI_TO_MBTC"), zdec)),
        ("gen_mbtc_per_satoshi", "bool * Z * Z", attempt("MBTC_PER_SATOSHI", lambda: conv_const("MBTC_PER_SATOSHI"), zdec)),
        ("(* decimal.getcontext(): prec; rounding checked to be ROUND_HALF_EVEN by the generator *)", None, None),
        ("gen_decimal_prec", "Z", attempt("decimal context", ctx_prec, "(1)%Z")),
        ("(* pycoin/convention/tx_fee.py *)", None, None),
        ("gen_tx_fee_per_thousand_bytes", "Z", attempt("TX_FEE_PER_THOUSAND_BYTES", fee_const, "(0)%Z")),
        ("(* pycoin/coins/bitcoin/Tx.py ZERO32, TxIn.py ZERO and the literal of TxIn.is_coinbase *)", None, None),
        ("gen_zero32", "list byte", attempt("Tx.ZERO32", lambda: zero_const("Tx", "ZERO32"), "[]")),
        ("gen_txin_zero", "list byte", attempt("TxIn.ZERO", lambda: zero_const("TxIn", "ZERO"), "[]")),
        ("gen_coinbase_index", "Z", attempt("TxIn.is_coinbase literal", coinbase_index, "(-1)%Z")),
        ("(* Spendable.tx_in default arguments *)", None, None),
        ("gen_txin_default_script", "list byte", attempt("tx_in default script", lambda: txin_default("script"), "[]")),
        ("gen_txin_default_sequence", "Z", attempt("tx_in default sequence", lambda: txin_default("sequence"), "(-1)%Z")),
    ]
    t = G.HEADER
    for name, ty, v in vals:
        t += (name + "\n") if ty is None else "Definition %s : %s := %s.\n" % (name, ty, v)
    t += "(* false when the generator met an unexpected shape in /repo (sentinels above): breaks lemma gen_c13_shape *)\n"
    for pr in problems:
        t += "(* PROBLEM %s *)\n" % pr
    t += "Definition gen_c13_shape_ok : bool := %s.\n" % ("false" if problems else "true")
    return t


GENERATORS = {"GenTxBuild.v": gen_txbuild}
