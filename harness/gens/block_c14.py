"""gens/block_c14.py — coq/Gen/GenBlockC14.v for property C14.

From the SOURCE (ast) and the LIVE objects of /repo, fail-closed:
  block_header_fmt      the struct format of Block.parse_as_header and Block.stream_header (must agree)
  block_count_fmt       the format of the transaction count in Block.parse and Block._stream_transactions
  merkleblock_layout    STANDARD_P2P_MESSAGES["merkleblock"]
  fmt_L_width / fmt_hash_width / fmt_1_width   bytes consumed by the registered "L", "#", "1" parsers, probed on a
                        live stream ("L" must be little-endian unsigned, "#" must return the raw bytes)
  merkleblock_post_unpack   name of the post-unpack function registered for "merkleblock"
"""
from __future__ import annotations
import ast, io, os

from gen_tables import GenError, REPO, coq_str, coq_N, HEADER


def _calls_with_fmt(func_node, callee):
    """string literals given as first argument to `callee(...)` / `<x>.callee(...)` anywhere in the function"""
    out = []
    for n in ast.walk(func_node):
        if isinstance(n, ast.Call) and n.args and isinstance(n.args[0], ast.Constant) and isinstance(n.args[0].value, str):
            name = n.func.id if isinstance(n.func, ast.Name) else n.func.attr if isinstance(n.func, ast.Attribute) else None
            if name == callee:
                out.append(n.args[0].value)
    return out


def gen_block() -> str:
    src = open(os.path.join(REPO, "pycoin/block.py")).read()
    tree = ast.parse(src)
    cls = [n for n in tree.body if isinstance(n, ast.ClassDef) and n.name == "Block"]
    if len(cls) != 1:
        raise GenError("class Block not found")
    fns = {n.name: n for n in cls[0].body if isinstance(n, ast.FunctionDef)}
    for need in ("parse", "parse_as_header", "stream_header", "_stream_transactions", "check_merkle_hash", "set_txs"):
        if need not in fns:
            raise GenError("Block.%s not found" % need)
    p = _calls_with_fmt(fns["parse_as_header"], "parse_struct")
    s = _calls_with_fmt(fns["stream_header"], "stream_struct")
    if len(p) != 1 or len(s) != 1 or p != s:
        raise GenError("header formats: parse %r stream %r" % (p, s))
    pc = _calls_with_fmt(fns["parse"], "parse_struct")
    sc = _calls_with_fmt(fns["_stream_transactions"], "stream_struct")
    if len(pc) != 1 or len(sc) != 1 or pc != sc:
        raise GenError("count formats: parse %r stream %r" % (pc, sc))

    from pycoin.message import make_parser_and_packer as M
    from pycoin.satoshi.satoshi_struct import parse_struct as live_parse_struct
    from pycoin.symbols.btc import network
    layout = M.STANDARD_P2P_MESSAGES.get("merkleblock")
    if not isinstance(layout, str):
        raise GenError("no merkleblock layout")

    def probe(fmt, parse):
        data = bytes(range(1, 65))
        f = io.BytesIO(data)
        v = parse(fmt, f)[0]
        return v, f.tell()
    vL, wL = probe("L", live_parse_struct)
    if vL != int.from_bytes(bytes(range(1, 1 + wL)), "little"):
        raise GenError('"L" is not little-endian unsigned')
    vH, wH = probe("#", live_parse_struct)
    if bytes(vH) != bytes(range(1, 1 + wH)):
        raise GenError('"#" does not return the raw bytes')
    # the "1" codec and the merkleblock post-unpack: first from the closures of network.message.parse (local names of
    # make_parser_and_packer — optional), else probed through the public entry point with a one-leaf proof
    pu_name, w1 = None, None
    try:
        fv = dict(zip(network.message.parse.__code__.co_freevars,
                      [c.cell_contents for c in (network.message.parse.__closure__ or ())]))
        posts, parsers = fv["message_post_unpacks"], fv["message_parsers"]
        pu = posts.get("merkleblock")
        pu_name = getattr(pu, "__name__", "") if pu else ""
        if pu is not getattr(M, "post_unpack_merkleblock", None):
            pu_name = "OTHER:" + pu_name
        pfv = dict(zip(parsers["merkleblock"].__code__.co_freevars,
                       [c.cell_contents for c in (parsers["merkleblock"].__closure__ or ())]))
        v1, w1 = probe("1", pfv["streamer"].parse_struct)
        if v1 != 1:
            raise GenError('"1" is not an unsigned byte')
    except GenError:
        raise
    except Exception:
        pu_name, w1 = None, None
    if pu_name is None:
        import struct as _st
        root = bytes(range(100, 132))
        msg = (_st.pack("<L", 1) + bytes(32) + root + _st.pack("<LLL", 0, 0, 0) + _st.pack("<L", 1)
               + b"\x01" + root + b"\x01\x01")
        try:
            d = network.message.parse("merkleblock", msg)
        except Exception as e:
            raise GenError("merkleblock probe raised %s: %s" % (type(e).__name__, e))
        if list(d.get("flags", ())) != [1] or [bytes(x) for x in d.get("hashes", ())] != [root] \
                or d.get("total_transactions") != 1:
            raise GenError("merkleblock probe: unexpected fields %r" % sorted(d))
        w1 = 1
        pu_name = "post_unpack_merkleblock" if [bytes(x) for x in d.get("tx_hashes", ())] == [root] else "OTHER:none"
    out = [HEADER]
    out.append("Definition block_header_fmt : string := %s.\n" % coq_str(p[0]))
    out.append("Definition block_count_fmt : string := %s.\n" % coq_str(pc[0]))
    out.append("Definition merkleblock_layout : string := %s.\n" % coq_str(layout))
    out.append("Definition merkleblock_post_unpack : string := %s.\n" % coq_str(pu_name))
    out.append("Definition fmt_L_width : N := %s.\n" % coq_N(wL))
    out.append("Definition fmt_hash_width : N := %s.\n" % coq_N(wH))
    out.append("Definition fmt_1_width : N := %s.\n" % coq_N(w1))
    return "".join(out)


# ---- pinned call signatures of the public entry points of the anchored code ------------------------------------
def _default_repr(v):
    import inspect
    if v is inspect.Parameter.empty:
        return ""
    if v is None or isinstance(v, (bool, int)):
        return repr(v)
    if callable(v) and hasattr(v, "__name__"):
        return "fn:" + v.__name__
    return "obj:" + type(v).__name__


def _sig_of(fn):
    import inspect
    out = []
    for prm in inspect.signature(fn).parameters.values():
        name = prm.name
        if prm.kind == prm.VAR_POSITIONAL:
            name = "*" + name
        elif prm.kind == prm.VAR_KEYWORD:
            name = "**" + name
        elif prm.kind == prm.KEYWORD_ONLY:
            name = "kw:" + name
        elif prm.kind == prm.POSITIONAL_ONLY:
            name = "pos:" + name
        out.append((name, _default_repr(prm.default)))
    return out


def gen_sigs() -> str:
    """inspect.signature of every public callable of block.py / merkle.py and of the merkleblock entry points, as
    (label, [(parameter, default)]); methods are taken bound (no self/cls).  Optional module-level helpers appear only
    when present."""
    from pycoin.block import Block
    from pycoin import merkle as MK
    from pycoin.symbols.btc import network as BTC
    from pycoin.symbols.ltc import network as LTC
    from pycoin.message import make_parser_and_packer as M
    obj = Block(1, bytes(32), bytes(32), 0, 0, 0)
    entries = [("Block", Block)]
    for cm in ("parse", "parse_as_header", "from_bin", "make_subclass"):
        entries.append(("Block." + cm, getattr(Block, cm)))
    for m in ("set_nonce", "set_txs", "hash", "id", "previous_block_id", "stream", "stream_header", "as_bin", "as_hex",
              "check_merkle_hash", "as_blockheader"):
        entries.append(("Block." + m, getattr(obj, m)))
    entries.append(("merkle", MK.merkle))
    entries.append(("merkle_pair", MK.merkle_pair))
    entries.append(("BTC.block.parse", BTC.block.parse))
    entries.append(("LTC.block.parse", LTC.block.parse))
    entries.append(("LTC.tx.parse", LTC.tx.parse))
    entries.append(("BTC.message.parse", BTC.message.parse))
    for opt in ("post_unpack_merkleblock",):
        if hasattr(M, opt):
            entries.append((opt, getattr(M, opt)))
    out = [HEADER, "Open Scope string_scope.\n", "Definition sigs : list (string * list (string * string)) := [\n"]
    rows = []
    for label, fn in entries:
        try:
            ps = _sig_of(fn)
        except Exception as e:
            raise GenError("signature of %s: %s: %s" % (label, type(e).__name__, e))
        rows.append("  (%s, [%s])" % (coq_str(label), "; ".join("(%s, %s)" % (coq_str(n), coq_str(d)) for n, d in ps)))
    out.append(";\n".join(rows) + "\n].\n")
    return "".join(out)


GENERATORS = {"GenBlockC14.v": gen_block, "GenSigC14.v": gen_sigs}
