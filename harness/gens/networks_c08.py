"""gens/networks_c08.py — coq/Gen/GenNetworks.v for C08 (addresses <-> scripts).

(1) One row per module of pycoin/symbols: symbol, network_name, subnet_name, address / pay_to_script / wif
    prefixes, bech32 hrp, whether the network uses the standard AddressAPI/ParseAPI/ContractAPI with the
    double-SHA256 Base58Check codec (`nr_std`; false for the three Groestlcoin networks whose address encoder
    needs the absent `groestlcoin_hash` package and whose parsers are disabled by the symbol file), and the list
    of script kinds for which the live network object returns an address.  Every prefix is read from the LIVE
    network object and cross-checked against the keyword literals of the `create_bitcoinish_network(...)` call in
    the symbol file's AST.
(2) The constants of the classifier / script constructor / address parser that the model uses, harvested
    from the AST of ContractAPI.py / ParseAPI.py and cross-checked against the live objects:
    the `self.match("...")` templates of info_for_script (in call order), the placeholder names and the
    length bounds of ContractAPI.match, the format strings of _SCRIPT_LOOKUP, the payload lengths of
    ParseAPI.p2pkh / p2sh, the (version, length, constructor) triples of the three segwit parsers, the opcode
    names used by _info_from_multisig_script, and the opcode names `OP_<token>` that ScriptTools.compile would
    pick for a hex / decimal token (OP_10..OP_16 for the bytes 0x10..0x16; OP_0..OP_16 for integers).
Fail-closed: any unexpected shape raises GenError.
"""
from __future__ import annotations
import ast, os, re, importlib, pkgutil
from gen_tables import GenError, HEADER, REPO, coq_bytes, coq_N, coq_Z


def coq_str(s):
    """text as `list byte` (UTF-8 = ASCII here): Coq's `string` type is avoided on purpose, its extraction
    shadows OCaml's string in the driver"""
    if not isinstance(s, str) or not s.isascii() or any(ord(c) < 32 or ord(c) > 126 for c in s):
        raise GenError("unexpected text %r" % (s,))
    return coq_bytes(s.encode("ascii"))


def _tree(rel):
    return ast.parse(open(os.path.join(REPO, rel)).read())


def _method(rel, cls, name):
    for node in _tree(rel).body:
        if isinstance(node, ast.ClassDef) and node.name == cls:
            for st in node.body:
                if isinstance(st, ast.FunctionDef) and st.name == name:
                    return st
    raise GenError("no method %s.%s in %s" % (cls, name, rel))


def _opt_bytes(b):
    if b is None:
        return "None"
    if not isinstance(b, (bytes, bytearray)):
        raise GenError("prefix is not bytes: %r" % (b,))
    return "(Some %s)" % coq_bytes(bytes(b))


def _h2b(x):
    if x is None:
        return None
    if not isinstance(x, str):
        raise GenError("prefix literal is not a string: %r" % (x,))
    return bytes.fromhex(x)


KINDS = ["p2pkh", "p2sh", "p2pkh_wit", "p2sh_wit", "p2tr"]   # kind numbers 0..4


def _symbol_rows():
    import pycoin.symbols as S
    from pycoin.networks.AddressAPI import AddressAPI
    from pycoin.networks.ParseAPI import ParseAPI
    from pycoin.networks.ContractAPI import ContractAPI
    from pycoin.coins.bitcoin.ScriptTools import BitcoinScriptTools
    from pycoin.encoding.b58 import b2a_hashed_base58
    rows = []
    names = sorted(m.name for m in pkgutil.iter_modules(S.__path__))
    if len(names) < 40:
        raise GenError("only %d symbol modules found" % len(names))
    for modname in names:
        mod = importlib.import_module("pycoin.symbols." + modname)
        net = getattr(mod, "network", None)
        if net is None:
            raise GenError("symbols/%s.py defines no `network`" % modname)
        a, p = net.address, net.parse
        live = dict(symbol=net.symbol, network_name=net.network_name, subnet_name=net.subnet_name,
                    address_prefix=a._address_prefix, pay_to_script_prefix=a._pay_to_script_prefix,
                    bech32_hrp=a._bech32_hrp, wif_prefix=p._wif_prefix)
        # the parser and the encoder must hold the same prefixes (they are built from the same ui_kwargs)
        if (p._address_prefix, p._pay_to_script_prefix, p._bech32_hrp) != \
                (a._address_prefix, a._pay_to_script_prefix, a._bech32_hrp):
            raise GenError("%s: AddressAPI and ParseAPI hold different prefixes" % modname)
        # ---- AST cross-check of the create_bitcoinish_network(...) keywords
        tree = _tree("pycoin/symbols/%s.py" % modname)
        calls = [n for n in ast.walk(tree) if isinstance(n, ast.Call) and isinstance(n.func, ast.Name)
                 and n.func.id == "create_bitcoinish_network"]
        if len(calls) != 1:
            raise GenError("symbols/%s.py: expected exactly one create_bitcoinish_network call" % modname)
        call = calls[0]
        pos = ["symbol", "network_name", "subnet_name"]
        kw = {}
        for i, arg in enumerate(call.args):
            if i >= 3 or not isinstance(arg, ast.Constant):
                raise GenError("symbols/%s.py: positional argument shape" % modname)
            kw[pos[i]] = arg.value
        for k in call.keywords:
            if k.arg is None:
                raise GenError("symbols/%s.py: **kwargs in the call" % modname)
            if isinstance(k.value, ast.Constant):
                kw[k.arg] = k.value.value
            elif k.arg in ("symbol", "network_name", "subnet_name", "address_prefix_hex", "pay_to_script_prefix_hex",
                           "wif_prefix_hex", "bech32_hrp", "address_prefix", "pay_to_script_prefix", "wif_prefix"):
                raise GenError("symbols/%s.py: keyword %s is not a literal" % (modname, k.arg))
        for bad in ("address_prefix", "pay_to_script_prefix", "wif_prefix"):
            if bad in kw:
                raise GenError("symbols/%s.py: raw (non-hex) prefix keyword %s" % (modname, bad))
        lit = dict(symbol=kw.get("symbol"), network_name=kw.get("network_name"), subnet_name=kw.get("subnet_name"),
                   address_prefix=_h2b(kw.get("address_prefix_hex")),
                   pay_to_script_prefix=_h2b(kw.get("pay_to_script_prefix_hex")),
                   bech32_hrp=kw.get("bech32_hrp"), wif_prefix=_h2b(kw.get("wif_prefix_hex")))
        if lit != live:
            raise GenError("symbols/%s.py: source literals %r differ from the live network %r" % (modname, lit, live))
        if live["symbol"].lower() != modname:
            raise GenError("symbols/%s.py: symbol %r does not match the module name" % (modname, live["symbol"]))
        hrp = live["bech32_hrp"]
        if hrp is not None and (not isinstance(hrp, str) or not hrp.isascii()):
            raise GenError("%s: hrp %r" % (modname, hrp))
        std = (type(a) is AddressAPI and type(p) is ParseAPI and type(net.contract) is ContractAPI
               and net.script is BitcoinScriptTools and a.b2a is b2a_hashed_base58
               and not any(k in vars(p) for k in ("address", "p2pkh", "p2sh", "p2pkh_segwit", "p2sh_segwit", "p2tr",
                                                    "_bech32m", "parse_b58_hashed"))
               and not any(k in vars(a) for k in ("for_script", "for_script_info", "for_p2pkh", "for_p2sh",
                                                    "for_p2pkh_wit", "for_p2sh_wit", "for_p2tr")))
        if not std:
            # only the Groestlcoin family is allowed to be non-standard, and only in the known way
            if "parse_api_class" not in [k.arg for k in call.keywords] or not live["network_name"].startswith("Groestl"):
                raise GenError("%s: non-standard address machinery that the model does not cover" % modname)
        # which kinds yield an address on the live object
        kinds = []
        if std:
            h20, h32 = bytes(range(20)), bytes(range(32))
            probes = [a.for_p2pkh(h20), a.for_p2sh(h20), a.for_p2pkh_wit(h20), a.for_p2sh_wit(h32), a.for_p2tr(h32)]
            kinds = [i for i, v in enumerate(probes) if v is not None]
            want = ([0] if live["address_prefix"] is not None else []) + ([1] if live["pay_to_script_prefix"] is not None else []) \
                + ([2, 3, 4] if hrp is not None else [])
            if kinds != want:
                raise GenError("%s: kinds with an address %r differ from the prefixes present %r" % (modname, kinds, want))
        rows.append((live, std, kinds))
    syms = [r[0]["symbol"] for r in rows]
    if len(set(syms)) != len(syms):
        raise GenError("duplicate network symbols")
    return rows


def _templates():
    """the string literals of the self.match(...) calls of info_for_script, in source order, tokenised"""
    fn = _method("pycoin/networks/ContractAPI.py", "ContractAPI", "info_for_script")
    lits = []
    for node in ast.walk(fn):
        if isinstance(node, ast.Call) and isinstance(node.func, ast.Attribute) and node.func.attr == "match":
            if not (len(node.args) == 2 and isinstance(node.args[0], ast.Constant) and isinstance(node.args[0].value, str)
                    and isinstance(node.args[1], ast.Name) and node.args[1].id == "script"):
                raise GenError("info_for_script: self.match call shape")
            lits.append((node.lineno, node.col_offset, node.args[0].value))
    lits.sort()
    out = []
    for _, _, text in lits:
        toks = []
        for t in text.split():
            if re.fullmatch(r"'[A-Z_]+'", t):
                toks.append((True, t[1:-1]))
            elif re.fullmatch(r"OP_[A-Z0-9_]+", t):
                toks.append((False, t))
            else:
                raise GenError("info_for_script: template token %r" % t)
        out.append((text, toks))
    return out


def _match_constants():
    fn = _method("pycoin/networks/ContractAPI.py", "ContractAPI", "match")
    loops = [n for n in fn.body if isinstance(n, ast.While)]
    if len(loops) != 1:
        raise GenError("match: loop shape")
    chain = [st for st in loops[0].body if isinstance(st, ast.If) and isinstance(st.test, ast.Compare)
             and isinstance(st.test.left, ast.Name) and st.test.left.id == "data2"]
    if len(chain) != 1:
        raise GenError("match: placeholder if-chain not found")
    node = chain[0]
    names, tests = [], {}
    while True:
        t = node.test
        if isinstance(t, ast.Compare) and isinstance(t.left, ast.Name) and t.left.id == "data2" and len(t.ops) == 1 \
                and isinstance(t.ops[0], ast.Eq) and isinstance(t.comparators[0], ast.Constant) \
                and isinstance(t.comparators[0].value, bytes):
            nm = t.comparators[0].value
            names.append(nm)
            first = node.body[0]
            tests[nm] = ast.unparse(first.test) if isinstance(first, ast.If) else None
            if len(node.orelse) == 1 and isinstance(node.orelse[0], ast.If):
                node = node.orelse[0]
                continue
            raise GenError("match: chain must end with the literal comparison")
        if ast.unparse(t) != "(opcode1, data1) != (opcode2, data2)":
            raise GenError("match: final comparison changed: " + ast.unparse(t))
        break
    if names != [b"PUBKEY", b"PUBKEYHASH", b"SEGWIT", b"DATA", b"SYNTHETIC_KEY"]:
        raise GenError("match: placeholder names/order changed: %r" % names)

    def rx(nm, pat):
        m = re.fullmatch(pat, tests[nm] or "")
        if not m:
            raise GenError("match: length test of %s changed: %r" % (nm.decode(), tests[nm]))
        return [int(x) for x in m.groups()]

    def div(a, b):
        if b == 0 or a % b:
            raise GenError("match: non-integral length bound %d/%d" % (a, b))
        return a // b
    lo, hi = rx(b"PUBKEY", r"l1 < (\d+) or l1 > (\d+)")
    a, b = rx(b"PUBKEYHASH", r"l1 != (\d+) / (\d+)")
    pkh = div(a, b)
    a, b, c, d = rx(b"SEGWIT", r"l1 not in \((\d+) / (\d+), (\d+) / (\d+)\)")
    seg = [div(a, b), div(c, d)]
    (syn,) = rx(b"SYNTHETIC_KEY", r"l1 != (\d+)")
    if tests[b"DATA"] is not None:
        raise GenError("match: DATA placeholder gained a test")
    # the script side is decoded with verify_minimal_data=True, the template side without
    calls = [n for n in ast.walk(loops[0]) if isinstance(n, ast.Call) and isinstance(n.func, ast.Attribute) and n.func.attr == "get_opcode"]
    shapes = sorted(ast.unparse(c).replace("\n", " ") for c in calls)
    want = sorted(["self._script_tools.scriptStreamer.get_opcode(script, pc1, verify_minimal_data=True)",
                   "self._script_tools.scriptStreamer.get_opcode(template, pc2)"])
    if [re.sub(r"\s+", "", s) for s in shapes] != [re.sub(r"\s+", "", s) for s in want]:
        raise GenError("match: get_opcode calls changed: %r" % shapes)
    return names, lo, hi, pkh, seg, syn


def _multisig_constants():
    fn = _method("pycoin/networks/ContractAPI.py", "ContractAPI", "_info_from_multisig_script")
    src = ast.unparse(fn)
    ops = re.findall(r"int_for_opcode\('([A-Z0-9_]+)'\)", src)
    if ops != ["OP_1", "OP_16", "OP_CHECKMULTISIG"]:
        raise GenError("_info_from_multisig_script: opcode names changed: %r" % ops)
    if src.count("if not OP_1 <= opcode < OP_16:") != 1:
        raise GenError("_info_from_multisig_script: range test of m changed")
    if src.count("if not OP_1 <= opcode <= OP_16:") != 1 or \
            src.index("if not OP_1 <= opcode <= OP_16:") > src.index("n = opcode + (1 - OP_1)"):
        raise GenError("_info_from_multisig_script: range test of n (OP_1..OP_16) missing or moved")
    m = re.search(r"if size < (\d+) or size > (\d+):", src)
    if not m:
        raise GenError("_info_from_multisig_script: key size test changed")
    if src.count("verify_minimal_data=True") != 1 or src.count("get_opcode(") != 3:
        raise GenError("_info_from_multisig_script: get_opcode calls changed")
    return int(m.group(1)), int(m.group(2))


def _script_formats():
    """_SCRIPT_LOOKUP: type -> (format string, [field names])"""
    tree = _tree("pycoin/networks/ContractAPI.py")
    node = None
    for c in tree.body:
        if isinstance(c, ast.ClassDef) and c.name == "ContractAPI":
            for st in c.body:
                tgt = st.target if isinstance(st, ast.AnnAssign) else (st.targets[0] if isinstance(st, ast.Assign) else None)
                if isinstance(tgt, ast.Name) and tgt.id == "_SCRIPT_LOOKUP":
                    node = st.value
    if not (isinstance(node, ast.Call) and isinstance(node.func, ast.Name) and node.func.id == "dict" and not node.args):
        raise GenError("_SCRIPT_LOOKUP shape")
    out = []
    for k in node.keywords:
        lam = k.value
        if not (isinstance(lam, ast.Lambda) and isinstance(lam.body, ast.BinOp) and isinstance(lam.body.op, ast.Mod)
                and isinstance(lam.body.left, ast.Constant) and isinstance(lam.body.left.value, str)):
            raise GenError("_SCRIPT_LOOKUP[%s] shape" % k.arg)
        out.append((k.arg, lam.body.left.value, ast.unparse(lam.body.right)))
    want_args = {
        "p2pk": "b2h(info.get('sec'))", "p2pkh": "b2h(info.get('hash160'))", "p2pkh_wit": "b2h(info.get('hash160'))",
        "p2sh": "b2h(info.get('hash160'))", "p2sh_wit": "b2h(info.get('hash256'))", "p2tr": "b2h(info.get('synthetic_key'))",
        "multisig": "(info.get('m'), ' '.join((b2h(sk) for sk in info.get('sec_keys'))), len(info.get('sec_keys')))",
    }
    if [o[0] for o in out] != list(want_args):
        raise GenError("_SCRIPT_LOOKUP keys/order changed: %r" % [o[0] for o in out])
    res = []
    for name, fmt, args in out:
        if args != want_args[name]:
            raise GenError("_SCRIPT_LOOKUP[%s] arguments changed: %s" % (name, args))
        toks = []
        for t in fmt.split():
            if t in ("%s", "%d"):
                toks.append(None if t == "%s" else "%d")
            elif re.fullmatch(r"OP_[A-Z0-9_]+", t):
                toks.append(t)
            else:
                raise GenError("_SCRIPT_LOOKUP[%s]: token %r" % (name, t))
        res.append((name, toks))
    return res


def _parse_constants():
    out = {}
    for name in ("p2pkh", "p2sh"):
        fn = _method("pycoin/networks/ParseAPI.py", "ParseAPI", name)
        found = []
        for n in ast.walk(fn):
            if isinstance(n, ast.Compare) and len(n.ops) == 1 and isinstance(n.ops[0], ast.NotEq) \
                    and isinstance(n.comparators[0], ast.BinOp) and isinstance(n.comparators[0].op, ast.Add) \
                    and isinstance(n.comparators[0].left, ast.Name) and n.comparators[0].left.id == "size" \
                    and isinstance(n.comparators[0].right, ast.Constant) and type(n.comparators[0].right.value) is int \
                    and ast.unparse(n.left) == "len(data)":
                found.append(n.comparators[0].right.value)
        if len(found) != 1:
            raise GenError("ParseAPI.%s: payload length test not found (or duplicated): %r" % (name, found))
        out[name] = found[0]
    seg = []
    for name in ("p2pkh_segwit", "p2sh_segwit", "p2tr"):
        fn = _method("pycoin/networks/ParseAPI.py", "ParseAPI", name)
        rets = [n for n in ast.walk(fn) if isinstance(n, ast.Return)]
        if len(rets) != 1:
            raise GenError("ParseAPI.%s shape" % name)
        c = rets[0].value
        if not (isinstance(c, ast.Call) and ast.unparse(c.func) == "self._bech32m" and len(c.args) == 4
                and ast.unparse(c.args[0]) == "s" and all(isinstance(x, ast.Constant) for x in c.args[1:])):
            raise GenError("ParseAPI.%s: _bech32m call shape" % name)
        seg.append((name, c.args[1].value, c.args[2].value, c.args[3].value))
    fn = _method("pycoin/networks/ParseAPI.py", "ParseAPI", "address")
    order = re.findall(r"self\.(\w+)\(ps\)", ast.unparse(fn))
    if order != ["p2pkh", "p2sh", "p2pkh_segwit", "p2sh_segwit", "p2tr"]:
        raise GenError("ParseAPI.address: parser order changed: %r" % order)
    from pycoin.contrib import bech32m
    return out, seg, (bech32m.Encoding.BECH32, bech32m.Encoding.BECH32M)


def _cache_keys():
    """keys of parseable_str.cache in use: string constants of the `ps.cache("<key>", ...)` calls of parseable_str.py;
    no other module under pycoin/networks may call .cache (a new key is new parser state the model does not have),
    and ParseAPI.address must be the plain or-chain over the five parsers"""
    keys = []
    for node in ast.walk(_tree("pycoin/networks/parseable_str.py")):
        if isinstance(node, ast.Call) and isinstance(node.func, ast.Attribute) and node.func.attr == "cache":
            if not (node.args and isinstance(node.args[0], ast.Constant) and isinstance(node.args[0].value, str)):
                raise GenError("parseable_str.py: cache key is not a string literal")
            keys.append(node.args[0].value)
    if keys != ["b58", "b58_double_sha256", "bech32", "colon_prefix"]:
        raise GenError("parseable_str.py: cache keys changed: %r" % keys)
    netdir = os.path.join(REPO, "pycoin", "networks")
    for fn in sorted(os.listdir(netdir)):
        if fn.endswith(".py") and fn != "parseable_str.py":
            for node in ast.walk(_tree("pycoin/networks/" + fn)):
                if isinstance(node, ast.Attribute) and node.attr in ("cache", "_cache"):
                    raise GenError("pycoin/networks/%s uses the parseable_str cache directly (line %d): state the model does not have"
                                   % (fn, node.lineno))
    fn = _method("pycoin/networks/ParseAPI.py", "ParseAPI", "address")
    body = [st for st in fn.body if not (isinstance(st, ast.Expr) and isinstance(st.value, ast.Constant))]
    want = ["ps = parseable_str(s)",
            "return self.p2pkh(ps) or self.p2sh(ps) or self.p2pkh_segwit(ps) or self.p2sh_segwit(ps) or self.p2tr(ps)"]
    got = [re.sub(r"\s+", " ", ast.unparse(st)) for st in body]
    if got != want:
        raise GenError("ParseAPI.address: body changed: %r" % got)
    # parseable_str.cache itself: stored value if the key is present, else f(self) with exceptions turned into None
    cf = _method("pycoin/networks/parseable_str.py", "parseable_str", "cache")
    want_cache = ("if key not in self._cache: self._cache[key] = None try: self._cache[key] = f(self) except Exception: pass "
                  "return self._cache[key]")
    got_cache = re.sub(r"\s+", " ", " ".join(ast.unparse(st) for st in cf.body))
    if got_cache != want_cache:
        raise GenError("parseable_str.cache: body changed: %r" % got_cache)
    return keys


def _token_opcodes():
    from pycoin.coins.bitcoin.ScriptTools import BitcoinScriptTools as T
    hexs, ints = [], []
    for name, val in T.opcode_to_int.items():
        if not name.startswith("OP_"):
            # compile() looks a bare token up first: a hex/decimal token must not be an opcode name by itself
            if re.fullmatch(r"-?[0-9A-Fa-f]+", name):
                raise GenError("opcode name %r collides with hex/decimal tokens" % name)
            continue
        x = name[3:]
        if re.fullmatch(r"[0-9A-F]+", x) and len(x) % 2 == 0:
            # compile() tests "OP_"+t.upper() and then indexes with "OP_"+t: a token with a hex letter
            # (b2h output is lower case) raises KeyError -> entry None
            hexs.append((bytes.fromhex(x), val if x.lower() == x else None))
        if re.fullmatch(r"-?\d+", x) and str(int(x)) == x:
            ints.append((int(x), val))
    return sorted(hexs, key=lambda t: t[0]), sorted(ints)


def _opcode_names():
    """opcode_to_int of the live BitcoinScriptTools as (name bytes, value), in OPCODE_LIST order, cross-checked
    against the OPCODE_LIST literal (the same check as gen_tables.gen_opcodes)"""
    from gen_tables import ast_literal_of
    from pycoin.satoshi import opcodes
    from pycoin.coins.bitcoin.ScriptTools import BitcoinScriptTools as T
    lit = ast_literal_of("pycoin/satoshi/opcodes.py", "OPCODE_LIST")
    live = list(opcodes.OPCODE_LIST)
    if live[: len(lit)] != lit or live[len(lit):] != [("OP_PUSH_%d" % i, i) for i in range(1, 76)]:
        raise GenError("OPCODE_LIST literal differs from the imported value")
    if T.opcode_to_int != dict(live):
        raise GenError("BitcoinScriptTools.opcode_to_int is not dict(OPCODE_LIST)")
    return ("(* opcode names as text bytes (the same list as GenOpcodes.opcode_list; AddressP.opcode_names_agree) *)\n"
            "Definition opcode_names : list (list byte * N) :=\n  [ " +
            ";\n    ".join("(* %s *) (%s, %s)" % (n, coq_str(n), coq_N(v)) for n, v in live) + " ].\n\n")


def gen_networks() -> str:
    rows = _symbol_rows()
    out = [HEADER]
    out.append("(* kinds: 0 p2pkh, 1 p2sh, 2 p2pkh_wit (P2WPKH), 3 p2sh_wit (P2WSH), 4 p2tr *)\n")
    out.append("Record netrow := mk_net { nr_symbol : list byte; nr_name : list byte; nr_subnet : list byte;\n"
               "  nr_pkh : option (list byte); nr_sh : option (list byte); nr_wif : option (list byte);\n"
               "  nr_hrp : option (list byte); nr_std : bool; nr_kinds : list N }.\n\n")
    lines = []
    for live, std, kinds in rows:
        hrp = live["bech32_hrp"]
        lines.append("(* %s %s %s *) mk_net %s %s %s %s %s %s %s %s [%s]" % (
            live["symbol"], live["network_name"], live["subnet_name"],
            coq_str(live["symbol"]), coq_str(live["network_name"]), coq_str(live["subnet_name"]),
            _opt_bytes(live["address_prefix"]), _opt_bytes(live["pay_to_script_prefix"]), _opt_bytes(live["wif_prefix"]),
            _opt_bytes(hrp.encode("ascii") if hrp is not None else None), "true" if std else "false",
            "; ".join(coq_N(k) for k in kinds)))
    out.append("Definition networks : list netrow :=\n  [ " + ";\n    ".join(lines) + " ].\n\n")

    tm = _templates()
    if len(tm) != 5:
        raise GenError("info_for_script: expected 5 templates, found %d" % len(tm))
    # cross-check against the live compiler: compiling the token list by hand equals compile(text)
    from pycoin.coins.bitcoin.ScriptTools import BitcoinScriptTools as T
    for text, toks in tm:
        by_hand = b"".join(T.scriptStreamer.compile_push_data(t.encode()) if q else bytes([T.opcode_to_int[t]]) for q, t in toks)
        if by_hand != T.compile(text):
            raise GenError("template %r: token-wise compilation differs from compile()" % text)
    out.append("(* templates of ContractAPI.info_for_script in call order; (true, X) = quoted placeholder 'X', (false, N) = opcode name *)\n")
    out.append("".join("(*   %s *)\n" % text for text, _ in tm))
    out.append("Definition match_templates : list (list (bool * list byte)) :=\n  [ " + ";\n    ".join(
        "[" + "; ".join("(%s, %s)" % ("true" if q else "false", coq_str(t)) for q, t in toks) + "]" for _, toks in tm) + " ].\n\n")
    names, lo, hi, pkh, seg, syn = _match_constants()
    out.append("Definition placeholder_names : list (list byte) :=\n  [ " + "; ".join(coq_bytes(n) for n in names) + " ].\n")
    out.append("Definition pubkey_len_min : nat := %d.\nDefinition pubkey_len_max : nat := %d.\n" % (lo, hi))
    out.append("Definition pubkeyhash_len : nat := %d.\nDefinition segwit_lens : list nat := [%s].\nDefinition synthetic_key_len : nat := %d.\n"
               % (pkh, "; ".join(str(x) for x in seg), syn))
    mlo, mhi = _multisig_constants()
    out.append("Definition multisig_key_min : nat := %d.\nDefinition multisig_key_max : nat := %d.\n\n" % (mlo, mhi))
    out.append("(* _SCRIPT_LOOKUP: type, tokens of the format string: inl true = %s slot, inl false = %d slot, inr name = opcode *)\n")
    fm = _script_formats()
    out.append("Definition script_formats : list (list byte * list (bool + list byte)) :=\n  [ " + ";\n    ".join(
        "(* %s *) (%s, [%s])" % (n, coq_str(n), "; ".join("inl true" if t is None else ("inl false" if t == "%d" else "inr " + coq_str(t)) for t in toks))
        for n, toks in fm) + " ].\n\n")
    pc, segp, (enc32, enc32m) = _parse_constants()
    out.append("Definition p2pkh_payload_len : nat := %d.\nDefinition p2sh_payload_len : nat := %d.\n" % (pc["p2pkh"], pc["p2sh"]))
    out.append("(* ParseAPI.p2pkh_segwit / p2sh_segwit / p2tr: (parser, expected version, program length, ContractAPI constructor) *)\n")
    out.append("Definition segwit_parsers : list (list byte * N * nat * list byte) :=\n  [ " + "; ".join(
        "(%s, %s, %d%%nat, %s)" % (coq_str(n), coq_N(v), ln, coq_str(attr)) for n, v, ln, attr in segp) + " ].\n")
    out.append("Definition enc_bech32 : N := %s.\nDefinition enc_bech32m : N := %s.\n\n" % (coq_N(enc32), coq_N(enc32m)))
    out.append("(* keys of the parseable_str cache (parseable_str.py); nothing else under pycoin/networks touches the cache *)\n")
    out.append("Definition parse_cache_keys : list (list byte) :=\n  [ " + "; ".join(coq_str(k) for k in _cache_keys()) + " ].\n\n")
    hexs, ints = _token_opcodes()
    out.append(_opcode_names())
    out.append("(* ScriptTools.compile: a token t with \"OP_\"+t.upper() an opcode name compiles to that opcode *)\n")
    out.append("(* None = compile() raises KeyError (upper-cased name exists, lower-case lookup fails) *)\n")
    out.append("Definition hex_token_opcodes : list (list byte * option N) :=\n  [ " + "; ".join(
        "(%s, %s)" % (coq_bytes(d), "None" if o is None else "Some " + coq_N(o)) for d, o in hexs) + " ].\n")
    out.append("Definition int_token_opcodes : list (Z * N) :=\n  [ " + "; ".join("(%s, %s)" % (coq_Z(v), coq_N(o)) for v, o in ints) + " ].\n")
    return "".join(out)


GENERATORS = {"GenNetworks.v": gen_networks}
