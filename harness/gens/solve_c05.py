"""harness/gens/solve_c05.py — table generator for C05 (GenSolveC05.v): the constants the solver contract model and
the template evaluator use, dumped from the live modules and cross-checked against the source text.

Shape problems do not abort the table run shared with the other properties: the affected constant gets a sentinel and
gen_c05_shape_ok becomes false, which breaks lemma gen_c05_consts in Proofs/SolveP.v (C05's own proof obligation)."""
import ast, os, inspect, importlib
import gen_tables as G


def _func_str_constants(relpath, fname):
    tree = ast.parse(open(os.path.join(G.REPO, relpath)).read())
    for node in ast.walk(tree):
        if isinstance(node, ast.FunctionDef) and node.name == fname:
            return [n.value for n in ast.walk(node) if isinstance(n, ast.Constant) and isinstance(n.value, str)]
    raise G.GenError("%s not found in %s" % (fname, relpath))


def gen_solve():
    problems = []

    def attempt(what, f, sentinel):
        try:
            return f()
        except Exception as e:  # noqa
            problems.append("%s: %s: %s" % (what, type(e).__name__, str(e).replace("*)", "* )")[:200]))
            return sentinel

    def placeholder():
        from pycoin.coins.bitcoin.Solver import generate_default_placeholder_signature
        live = generate_default_placeholder_signature(None)
        lits = _func_str_constants("pycoin/coins/bitcoin/Solver.py", "generate_default_placeholder_signature")
        if not isinstance(live, bytes) or bytes.fromhex("".join(lits)) != live:
            raise G.GenError("placeholder literal differs from the live value")
        return G.coq_bytes(live)

    def opcode(name):
        from pycoin.satoshi import opcodes
        from pycoin.coins.bitcoin.ScriptTools import BitcoinScriptTools
        d = dict(opcodes.OPCODE_LIST)
        v = d[name]
        if BitcoinScriptTools.int_for_opcode(name) != v or type(v) is not int:
            raise G.GenError("opcode %s: table and ScriptTools disagree" % name)
        return G.coq_N(v)

    def flag(name):
        from pycoin.satoshi import flags
        lit = G.ast_literal_of("pycoin/satoshi/flags.py", name) if name.startswith("SIGHASH") else None
        v = getattr(flags, name)
        if type(v) is not int or (lit is not None and lit != v):
            raise G.GenError("flags.%s literal/live mismatch" % name)
        return G.coq_N(v)

    def default_flags():
        from pycoin.coins.bitcoin.SolutionChecker import BitcoinSolutionChecker
        return G.coq_N(BitcoinSolutionChecker.DEFAULT_FLAGS)

    def vm_limit(name):
        from pycoin.coins.bitcoin.VM import BitcoinVM
        v = getattr(BitcoinVM, name)
        if type(v) is not int:
            raise G.GenError("BitcoinVM.%s" % name)
        return G.coq_N(v)

    def order():
        from pycoin.ecdsa.secp256k1 import secp256k1_generator
        return G.coq_N(secp256k1_generator.order())

    def default_sigtype():
        from pycoin.solve import some_solvers
        v = some_solvers.DEFAULT_SIGNATURE_TYPE
        if G.ast_literal_of("pycoin/solve/some_solvers.py", "DEFAULT_SIGNATURE_TYPE") != v or type(v) is not int:
            raise G.GenError("DEFAULT_SIGNATURE_TYPE")
        return G.coq_N(v)

    def forkid_of(sym):
        """does the coin's Solver.solve force SIGHASH_FORKID into the hash type, and does its checker refuse a
        legacy digest without it (source inspection of the override)"""
        net = importlib.import_module("pycoin.symbols." + sym).network
        S = net.tx.Solver
        from pycoin.coins.bitcoin.Solver import BitcoinSolver, Solver
        if not issubclass(S, Solver):
            raise G.GenError("%s: unexpected Solver class" % sym)
        own = S.__dict__.get("solve")
        if own is None:
            if S is not BitcoinSolver:
                raise G.GenError("%s: solver subclass without solve override: %s" % (sym, S.__name__))
            return "false"
        src = inspect.getsource(own)
        if "SIGHASH_FORKID" not in src or "|=" not in src:
            raise G.GenError("%s: Solver.solve override of unknown shape" % sym)
        return "true"

    vals = [
        ("(* pycoin/coins/bitcoin/Solver.py generate_default_placeholder_signature *)", None, None),
        ("gen_c05_placeholder", "list byte", attempt("placeholder", placeholder, "[]")),
        ("(* opcodes of the standard templates *)", None, None),
    ]
    for nm in ("OP_0", "OP_1", "OP_16", "OP_1NEGATE", "OP_PUSHDATA1", "OP_PUSHDATA2", "OP_PUSHDATA4", "OP_DUP", "OP_HASH160",
               "OP_EQUAL", "OP_EQUALVERIFY", "OP_CHECKSIG", "OP_CHECKMULTISIG"):
        vals.append(("gen_c05_" + nm.lower(), "N", attempt(nm, lambda nm=nm: opcode(nm), "999%N")))
    vals.append(("(* pycoin/satoshi/flags.py *)", None, None))
    for nm in ("SIGHASH_ALL", "SIGHASH_NONE", "SIGHASH_SINGLE", "SIGHASH_FORKID", "SIGHASH_ANYONECANPAY", "VERIFY_P2SH",
               "VERIFY_WITNESS"):
        vals.append(("gen_c05_" + nm.lower(), "N", attempt(nm, lambda nm=nm: flag(nm), "999999%N")))
    vals += [
        ("(* BitcoinSolutionChecker.DEFAULT_FLAGS: the flag set Solver.sign uses to decide `already valid` *)", None, None),
        ("gen_c05_default_flags", "N", attempt("DEFAULT_FLAGS", default_flags, "999999%N")),
        ("gen_c05_max_blob_length", "N", attempt("MAX_BLOB_LENGTH", lambda: vm_limit("MAX_BLOB_LENGTH"), "0%N")),
        ("gen_c05_max_script_length", "N", attempt("MAX_SCRIPT_LENGTH", lambda: vm_limit("MAX_SCRIPT_LENGTH"), "0%N")),
        ("gen_c05_max_stack_size", "N", attempt("MAX_STACK_SIZE", lambda: vm_limit("MAX_STACK_SIZE"), "0%N")),
        ("gen_c05_order", "N", attempt("secp256k1 order", order, "0%N")),
        ("gen_c05_default_signature_type", "N", attempt("DEFAULT_SIGNATURE_TYPE", default_sigtype, "999%N")),
        ("(* does network.tx.Solver.solve OR the fork-id bit into the hash type *)", None, None),
    ]
    for sym in ("btc", "xtn", "ltc", "bch", "btg"):
        vals.append(("gen_c05_forkid_" + sym, "bool", attempt("forkid " + sym, lambda sym=sym: forkid_of(sym), "false")))
    t = G.HEADER
    for name, ty, v in vals:
        t += (name + "\n") if ty is None else "Definition %s : %s := %s.\n" % (name, ty, v)
    t += "(* false when the generator met an unexpected shape in /repo (sentinels above): breaks lemma gen_c05_consts *)\n"
    for pr in problems:
        t += "(* PROBLEM %s *)\n" % pr
    t += "Definition gen_c05_shape_ok : bool := %s.\n" % ("false" if problems else "true")
    return t


GENERATORS = {"GenSolveC05.v": gen_solve}
