"""harness/gens/wif_c10.py — table generators for C10.

GenWifPrefixes.v : the WIF prefix of every module of pycoin/symbols (live `network.parse._wif_prefix`
                   cross-checked against the `wif_prefix_hex=` literal in the module source), the networks
                   whose Base58 hashing layer cannot run in this sandbox (groestlcoin_hash missing) as
                   table-only entries, and the parse-API class name.
GenCurveC10.v    : (p, a, b, Gx, Gy, n) of the generator the networks use (secp256k1), live values
                   cross-checked against the literals of pycoin/ecdsa/secp256k1.py, plus the literal
                   coordinate width of encoding/bytes32.py.
Fail-closed: any unexpected shape raises GenError."""
import ast, os, io, contextlib, importlib, pkgutil
import gen_tables as G


def _call_keywords(relpath):
    tree = ast.parse(open(os.path.join(G.REPO, relpath)).read())
    calls = [n for n in ast.walk(tree) if isinstance(n, ast.Call) and
             ((isinstance(n.func, ast.Name) and n.func.id == "create_bitcoinish_network") or
              (isinstance(n.func, ast.Attribute) and n.func.attr == "create_bitcoinish_network"))]
    if len(calls) != 1:
        raise G.GenError("%s: expected exactly one create_bitcoinish_network call, found %d" % (relpath, len(calls)))
    kws = {}
    for k in calls[0].keywords:
        if k.arg is None:
            raise G.GenError("%s: **kwargs in create_bitcoinish_network call" % relpath)
        if k.arg in ("wif_prefix_hex", "wif_prefix", "symbol"):
            kws[k.arg] = ast.literal_eval(k.value)
    return kws


def network_rows():
    """[(module, symbol, prefix bytes or None, parse api class name, usable)]"""
    import pycoin.symbols as S
    from pycoin.ecdsa.secp256k1 import secp256k1_generator
    rows = []
    names = sorted(m.name for m in pkgutil.iter_modules(S.__path__))
    if len(names) < 40:
        raise G.GenError("only %d modules in pycoin/symbols" % len(names))
    for name in names:
        rel = "pycoin/symbols/%s.py" % name
        kws = _call_keywords(rel)
        if "wif_prefix" in kws and "wif_prefix_hex" in kws:
            raise G.GenError("%s: both wif_prefix and wif_prefix_hex" % rel)
        lit = None
        if "wif_prefix_hex" in kws:
            lit = bytes.fromhex(kws["wif_prefix_hex"])
        elif "wif_prefix" in kws:
            lit = kws["wif_prefix"]
            if not isinstance(lit, bytes):
                raise G.GenError("%s: wif_prefix literal is not bytes" % rel)
        try:
            mod = importlib.import_module("pycoin.symbols." + name)
            net = mod.network
        except ImportError as e:
            # tolerated only for the groestl family: table-only entry from the source literal
            if "groestl" not in str(e).lower():
                raise G.GenError("%s: import failed: %s" % (rel, e))
            rows.append((name, str(kws.get("symbol", name.upper())), lit, "GRSParseAPI", False))
            continue
        live = net.parse._wif_prefix
        if live != lit:
            raise G.GenError("%s: live wif prefix %r differs from source literal %r" % (rel, live, lit))
        if net.symbol != kws.get("symbol"):
            raise G.GenError("%s: symbol mismatch" % rel)
        if net.generator is not secp256k1_generator:
            raise G.GenError("%s: network does not use secp256k1_generator" % rel)
        if net.keys.private(1)._generator is not secp256k1_generator:
            raise G.GenError("%s: Key subclass does not use secp256k1_generator" % rel)
        api = type(net.parse).__name__
        usable = True
        if api != "ParseAPI":
            # a subclass that overrides the hashing layer: usable only if that layer runs here
            try:
                with contextlib.redirect_stdout(io.StringIO()):   # the groestl shim prints its complaint
                    net.wif_for_blob(b"\x00" * 32)
            except ImportError:
                usable = False
        rows.append((name, net.symbol, live, api, usable))
    return rows


def gen_wif_prefixes():
    rows = network_rows()
    t = G.HEADER
    t += "(* (symbol, WIF prefix) of every module of pycoin/symbols that defines one *)\n"
    t += "Definition wif_prefixes : list (string * list byte) :=\n  [ " + ";\n    ".join(
        "(%s, %s)" % (G.coq_str(sym), G.coq_bytes(pre)) for _, sym, pre, _, _ in rows if pre is not None) + " ].\n\n"
    t += "(* networks without a WIF prefix (ParseAPI.wif returns None) *)\n"
    t += "Definition wif_no_prefix : list string := [ " + "; ".join(
        G.coq_str(sym) for _, sym, pre, _, _ in rows if pre is None) + " ].\n\n"
    t += "(* networks whose Base58 hashing layer needs groestlcoin_hash (not installed): table-only *)\n"
    t += "Definition wif_table_only : list string := [ " + "; ".join(
        G.coq_str(sym) for _, sym, _, _, usable in rows if not usable) + " ].\n\n"
    t += "Definition wif_parse_api : list (string * string) :=\n  [ " + ";\n    ".join(
        "(%s, %s)" % (G.coq_str(sym), G.coq_str(api)) for _, sym, _, api, _ in rows) + " ].\n"
    return t


def _func_int_constants(relpath, fname):
    tree = ast.parse(open(os.path.join(G.REPO, relpath)).read())
    for node in tree.body:
        if isinstance(node, ast.FunctionDef) and node.name == fname:
            return [n.value for n in ast.walk(node) if isinstance(n, ast.Constant) and type(n.value) is int]
    raise G.GenError("%s not found in %s" % (fname, relpath))


def gen_curve():
    from pycoin.ecdsa.secp256k1 import secp256k1_generator as g
    src = "pycoin/ecdsa/secp256k1.py"
    lits = {k: G.ast_literal_of(src, k) for k in ("_p", "_a", "_b", "_Gx", "_Gy", "_r")}
    live = {"_p": g.p(), "_a": g._a, "_b": g._b, "_Gx": g[0], "_Gy": g[1], "_r": g.order()}
    for k in lits:
        if lits[k] != live[k] or type(lits[k]) is not int:
            raise G.GenError("secp256k1 %s: literal/live mismatch" % k)
    w = _func_int_constants("pycoin/encoding/bytes32.py", "to_bytes_32")
    if len(w) != 1:
        raise G.GenError("to_bytes_32: expected one integer literal, got %r" % (w,))
    if g._mod_sqrt_power != (g.p() + 1) // 4:
        raise G.GenError("generator _mod_sqrt_power is not (p+1)//4")
    t = G.HEADER
    t += "(* pycoin/ecdsa/secp256k1.py *)\n"
    for k, n in (("_p", "k1_p"), ("_a", "k1_a"), ("_b", "k1_b"), ("_Gx", "k1_gx"), ("_Gy", "k1_gy"), ("_r", "k1_n")):
        t += "Definition %s : Z := %s.\n" % (n, G.coq_Z(live[k]))
    t += "(* pycoin/encoding/bytes32.py: the width literal of to_bytes_32 *)\n"
    t += "Definition bytes32_width : nat := %d%%nat.\n" % w[0]
    return t


GENERATORS = {"GenWifPrefixes.v": gen_wif_prefixes, "GenCurveC10.v": gen_curve}
