"""harness/gens/bip32_c09.py — table generator for C09 (GenBip32Prefixes.v).

For every module of pycoin/symbols: the bip32 / bip49 / bip84 extended-key prefixes, taken three ways and
cross-checked (fail-closed):
  * the literal keyword arguments `bipNN_{prv,pub}_prefix_hex` of the create_bitcoinish_network(...) call (source AST),
  * what the live printer uses (the closure cell `ui_kwargs` of network.bipNN_as_string, or the module globals of a
    monkey-patched printer),
  * what the live parser uses (network.parse._bipNN_{prv,pub}_prefix).
Also which base58 checksum codec the printer and the parser use (0 = double-SHA256, 1 = groestl) and the group order of
the network's generator.
"""
import ast, os, pkgutil, importlib
import gen_tables as G

KEY_TYPES = (32, 49, 84)


def _source_prefixes(modname):
    path = os.path.join(G.REPO, "pycoin", "symbols", modname + ".py")
    tree = ast.parse(open(path).read())
    calls = [n for n in ast.walk(tree) if isinstance(n, ast.Call) and isinstance(n.func, ast.Name)
             and n.func.id == "create_bitcoinish_network"]
    if len(calls) != 1:
        raise G.GenError("%s: expected exactly one create_bitcoinish_network call, found %d" % (modname, len(calls)))
    res = {}
    for kw in calls[0].keywords:
        if kw.arg is None:
            raise G.GenError("%s: **kwargs in create_bitcoinish_network call" % modname)
        if kw.arg.startswith("bip") and "prefix" in kw.arg:
            if not kw.arg.endswith("_hex"):
                raise G.GenError("%s: prefix keyword %s is not a _hex literal" % (modname, kw.arg))
            v = ast.literal_eval(kw.value)
            if not isinstance(v, str):
                raise G.GenError("%s: %s is not a string literal" % (modname, kw.arg))
            res[kw.arg[:-4]] = bytes.fromhex(v)
    return res


def _closure(f):
    return dict(zip(f.__code__.co_freevars, [c.cell_contents for c in (f.__closure__ or ())]))


def _printer(network, kt, modname):
    """-> (prv prefix or None, pub prefix or None, codec)"""
    import pycoin.encoding.b58 as b58
    f = getattr(network, "bip%d_as_string" % kt)
    if f.__module__ == "pycoin.networks.bitcoinish":
        cl = _closure(f)
        if "ui_kwargs" not in cl or "b2a_hashed_base58" not in f.__code__.co_names:
            raise G.GenError("%s: unexpected shape of bip%d_as_string" % (modname, kt))
        if f.__globals__.get("b2a_hashed_base58") is not b58.b2a_hashed_base58:
            raise G.GenError("%s: bitcoinish.b2a_hashed_base58 is not encoding.b58.b2a_hashed_base58" % modname)
        wanted = ["bip%d_%%s_prefix" % kt]
        consts = [c for c in f.__code__.co_consts if isinstance(c, str)]
        if "bip%d_%%s_prefix" % kt not in consts or "prv" not in consts or "pub" not in consts:
            raise G.GenError("%s: bip%d_as_string does not look up bip%d_%%s_prefix" % (modname, kt, kt))
        ui = cl["ui_kwargs"]
        return ui.get("bip%d_prv_prefix" % kt), ui.get("bip%d_pub_prefix" % kt), 0
    if f.__module__ == "pycoin.symbols." + modname and f.__code__.co_freevars:
        # the closure made by _hd_as_string(prv_prefix, pub_prefix) in grs.py / grsrt.py / tgrs.py
        cl = _closure(f)
        if sorted(cl) != ["prv_prefix", "pub_prefix"] or "b2a_hashed_base58_grs" not in f.__code__.co_names:
            raise G.GenError("%s: unexpected closure shape of bip%d_as_string" % (modname, kt))
        h = f.__globals__["b2a_hashed_base58_grs"]
        if "groestlHash" not in h.__code__.co_names or "b2a_base58" not in h.__code__.co_names:
            raise G.GenError("%s: b2a_hashed_base58_grs has an unexpected shape" % modname)
        # as_private must select prv_prefix: run the closure's own selection on a probe through a stub encoder
        probe = {}
        g = dict(f.__globals__)
        g["b2a_hashed_base58_grs"] = lambda data: probe.setdefault("d", data)
        import types as _t
        f2 = _t.FunctionType(f.__code__, g, f.__name__, f.__defaults__, f.__closure__)
        probe.clear(); f2(b"", True); a = probe["d"]
        probe.clear(); f2(b"", False); b = probe["d"]
        if (a, b) != (cl["prv_prefix"], cl["pub_prefix"]):
            raise G.GenError("%s: bip%d_as_string does not select prv/pub prefix by as_private" % (modname, kt))
        return cl["prv_prefix"], cl["pub_prefix"], 1
    if f.__module__ == "pycoin.symbols." + modname:
        names = f.__code__.co_names
        if "b2a_hashed_base58_grs" not in names or "_bip%d_prv_prefix" % kt not in names or "_bip%d_pub_prefix" % kt not in names:
            raise G.GenError("%s: unexpected monkey-patched bip%d_as_string" % (modname, kt))
        g = f.__globals__
        h = g["b2a_hashed_base58_grs"]
        if "groestlHash" not in h.__code__.co_names or "b2a_base58" not in h.__code__.co_names:
            raise G.GenError("%s: b2a_hashed_base58_grs has an unexpected shape" % modname)
        return g["_bip%d_prv_prefix" % kt], g["_bip%d_pub_prefix" % kt], 1
    raise G.GenError("%s: bip%d_as_string defined in unexpected module %s" % (modname, kt, f.__module__))


def _parse_codec(network, modname):
    from pycoin.networks.ParseAPI import ParseAPI
    cls = type(network.parse)
    f = cls.parse_b58_hashed
    if f is ParseAPI.parse_b58_hashed:
        if "parse_b58_double_sha256" not in f.__code__.co_names:
            raise G.GenError("ParseAPI.parse_b58_hashed has an unexpected shape")
        return 0
    if cls.__name__ == "GRSParseAPI" and "parse_b58_groestl" in f.__code__.co_names:
        return 1
    raise G.GenError("%s: unknown parse_b58_hashed override in %s" % (modname, cls.__name__))


def _opt(b):
    if b is None:
        return "None"
    if not isinstance(b, bytes):
        raise G.GenError("prefix is not bytes: %r" % (b,))
    return "(Some %s)" % G.coq_bytes(b)


def collect():
    """-> (order, rows); row = (symbol, kt, print_prv, print_pub, parse_prv, parse_pub, print_codec, parse_codec)"""
    import pycoin.symbols as S
    from pycoin.networks import ParseAPI as PA
    import inspect
    # hparse must still select the prefix attribute and the deserializer by these names
    src = inspect.getsource(PA.hparse)
    for needle in ('"_%s_%s_prefix" % (key_type, pub_prv)', '"%s_deserialize" % key_type', "data.startswith(prefix)"):
        if needle not in src:
            raise G.GenError("ParseAPI.hparse: expected fragment %r not found" % needle)
    rows = []
    orders = set()
    names = sorted(name for _, name, ispkg in pkgutil.iter_modules(S.__path__) if not ispkg)
    if len(names) < 10:
        raise G.GenError("too few symbol modules: %r" % names)
    for name in names:
        m = importlib.import_module("pycoin.symbols." + name)
        net = m.network
        srcp = _source_prefixes(name)
        orders.add(net.generator.order())
        pcodec = _parse_codec(net, name)
        for kt in KEY_TYPES:
            pr_prv, pr_pub, prcodec = _printer(net, kt, name)
            pa_prv = getattr(net.parse, "_bip%d_prv_prefix" % kt, None)
            pa_pub = getattr(net.parse, "_bip%d_pub_prefix" % kt, None)
            s_prv = srcp.get("bip%d_prv_prefix" % kt)
            s_pub = srcp.get("bip%d_pub_prefix" % kt)
            if (s_prv, s_pub) != (pa_prv, pa_pub):
                raise G.GenError("%s bip%d: source literal %r/%r differs from live parser prefixes %r/%r" % (
                    name, kt, s_prv, s_pub, pa_prv, pa_pub))
            for wname in ("bip%d_prv" % kt, "bip%d_pub" % kt, "bip%d" % kt):
                if not callable(getattr(net.parse, wname, None)):
                    raise G.GenError("%s: parse.%s missing" % (name, wname))
            if not callable(getattr(net.keys, "bip%d_deserialize" % kt, None)):
                raise G.GenError("%s: keys.bip%d_deserialize missing" % (name, kt))
            if all(x is None for x in (pr_prv, pr_pub, pa_prv, pa_pub)):
                continue
            rows.append((net.symbol, kt, pr_prv, pr_pub, pa_prv, pa_pub, prcodec, pcodec))
    if len(orders) != 1:
        raise G.GenError("networks use generators of different order: %r" % orders)
    return orders.pop(), rows


def gen_bip32_prefixes():
    order, rows = collect()
    t = G.HEADER
    t += "(* order of network.generator (the same object for every registered network) *)\n"
    t += "Definition bip32_curve_order : Z := %s.\n\n" % G.coq_Z(order)
    t += "(* (symbol, key type 32/49/84, prefix the printer uses for prv, for pub, prefix the parser expects for prv, for pub,\n"
    t += "    checksum codec of the printer, of the parser: 0 = double-SHA256 base58check, 1 = groestl base58check) *)\n"
    t += "Definition bip_prefix_table : list (string * N * option (list byte) * option (list byte) * option (list byte) * option (list byte) * N * N) :=\n  [ "
    t += ";\n    ".join("(%s, %s, %s, %s, %s, %s, %s, %s)" % (
        G.coq_str(sym), G.coq_N(kt), _opt(a), _opt(b), _opt(c), _opt(d), G.coq_N(pc), G.coq_N(qc))
        for sym, kt, a, b, c, d, pc, qc in rows) + " ].\n"
    return t


GENERATORS = {"GenBip32Prefixes.v": gen_bip32_prefixes}
