"""gens/parse_c18.py — tables for C18 (text parsing) -> coq/Gen/GenParsePrefixes.v.

Per registered network (every module of pycoin/symbols) the prefixes the LIVE ParseAPI object holds:
address, pay_to_script, wif, sec text prefix, bech32 hrp, bip32/49/84 prv/pub, and whether the four
catch-all parsers are disabled (Groestlcoin symbols without the groestlcoin_hash package replace
hierarchical_key / private_key / public_key / address by a function returning None).
Cross-checks (fail-closed):
  * every network uses one and the same curve (p, a, b, n, G) — the model has a single curve;
  * the prefixes of the parser equal the prefixes the *serialisers* of the same network use
    (AddressAPI prefixes; wif_for_blob / bip32_as_string probed behaviourally) — the re-serialisation
    theorems speak about the parser's prefixes;
  * only attributes known to the model exist on the ParseAPI instance (an unknown attribute or an
    unknown override of an entry point raises GenError).
"""
from __future__ import annotations
import io, contextlib, pkgutil
from gen_tables import GenError, HEADER, coq_bytes, coq_str, coq_Z

KNOWN_ATTRS = ["_bip32_prv_prefix", "_bip32_pub_prefix", "_bip49_prv_prefix", "_bip49_pub_prefix",
               "_bip84_prv_prefix", "_bip84_pub_prefix", "_address_prefix", "_pay_to_script_prefix",
               "_bech32_hrp", "_wif_prefix", "_sec_prefix"]
DISABLED = ["hierarchical_key", "private_key", "public_key", "address"]


def symbols():
    import pycoin.symbols
    return sorted(m.name for m in pkgutil.iter_modules(pycoin.symbols.__path__))


def load_networks():
    """[(symbol_lower, network)] for every module of pycoin/symbols that imports"""
    from pycoin.networks.registry import network_for_netcode
    out = []
    for nm in symbols():
        try:
            with contextlib.redirect_stdout(io.StringIO()):
                net = network_for_netcode(nm)
        except (ValueError, ImportError):
            # tolerated only when the module itself fails on the missing Groestlcoin hash package
            import importlib
            try:
                with contextlib.redirect_stdout(io.StringIO()):
                    importlib.import_module("pycoin.symbols." + nm)
            except ImportError as e:
                if "groestl" in str(e).lower():
                    continue
                raise GenError("symbol %s cannot be imported: %s" % (nm, e))
            raise GenError("symbol %s is not registered under its own name" % nm)
        out.append((nm, net))
    if len(out) < 10:
        raise GenError("only %d networks could be loaded" % len(out))
    return out


def _opt_bytes(v):
    if v is None:
        return "None"
    if not isinstance(v, bytes):
        raise GenError("prefix is not bytes: %r" % (v,))
    return "Some %s" % coq_bytes(v)


def _opt_str(v):
    if v is None:
        return "None"
    if not isinstance(v, str):
        raise GenError("prefix is not str: %r" % (v,))
    return "Some %s" % coq_str(v)


def net_row(nm, net):
    from pycoin.networks.ParseAPI import ParseAPI
    P = net.parse
    if not isinstance(P, ParseAPI):
        raise GenError("%s: parse API is not a ParseAPI" % nm)
    d = dict(vars(P))
    d.pop("_network", None)
    disabled = []
    for k in list(d):
        if k in KNOWN_ATTRS:
            continue
        if k in DISABLED and callable(d[k]):
            with contextlib.redirect_stdout(io.StringIO()):
                r = d[k]("1")
            if r is not None or getattr(d[k], "__name__", "") != "none_parser":
                raise GenError("%s: entry point %s overridden by something unknown" % (nm, k))
            disabled.append(k)
            continue
        raise GenError("%s: unknown ParseAPI attribute %s" % (nm, k))
    if disabled and sorted(disabled) != sorted(DISABLED):
        raise GenError("%s: partial override %s" % (nm, disabled))
    for k in KNOWN_ATTRS:
        if k not in d:
            raise GenError("%s: missing ParseAPI attribute %s" % (nm, k))
    # which checksum function the b58 entry points use is behavioural (an oracle in the model); only record the class
    cls = type(P).__name__
    if cls not in ("ParseAPI", "GRSParseAPI"):
        raise GenError("%s: unknown ParseAPI subclass %s" % (nm, cls))
    # serialiser side uses the same prefixes
    A = net.address
    if A._address_prefix != d["_address_prefix"] or A._pay_to_script_prefix != d["_pay_to_script_prefix"] \
            or A._bech32_hrp != d["_bech32_hrp"]:
        raise GenError("%s: AddressAPI prefixes differ from ParseAPI prefixes" % nm)
    if not isinstance(d["_sec_prefix"], str):
        raise GenError("%s: sec_prefix is not a str" % nm)
    if net.sec_text_for_blob(b"\x02") != d["_sec_prefix"] + "02":
        raise GenError("%s: sec_text_for_blob does not use the parser's sec prefix" % nm)
    if not disabled:
        from pycoin.encoding.b58 import a2b_hashed_base58
        blob = bytes(range(1, 33))
        if d["_wif_prefix"] is not None and a2b_hashed_base58(net.wif_for_blob(blob)) != d["_wif_prefix"] + blob:
            raise GenError("%s: wif_for_blob does not use the parser's wif prefix" % nm)
        for kind in ("bip32", "bip49", "bip84"):
            for pp, as_private in (("prv", True), ("pub", False)):
                pre = d["_%s_%s_prefix" % (kind, pp)]
                if pre is not None and a2b_hashed_base58(getattr(net, kind + "_as_string")(blob, as_private)) != pre + blob:
                    raise GenError("%s: %s_as_string does not use the parser's %s prefix" % (nm, kind, pp))
    return ("(%s, %s, (%s, %s, %s), (%s, %s), ((%s, %s), (%s, %s), (%s, %s)))" % (
        coq_str(nm), "true" if disabled else "false",
        _opt_bytes(d["_address_prefix"]), _opt_bytes(d["_pay_to_script_prefix"]), _opt_bytes(d["_wif_prefix"]),
        coq_str(d["_sec_prefix"]), _opt_str(d["_bech32_hrp"]),
        _opt_bytes(d["_bip32_prv_prefix"]), _opt_bytes(d["_bip32_pub_prefix"]),
        _opt_bytes(d["_bip49_prv_prefix"]), _opt_bytes(d["_bip49_pub_prefix"]),
        _opt_bytes(d["_bip84_prv_prefix"]), _opt_bytes(d["_bip84_pub_prefix"])))


def check_cache_swallows_everything():
    """parseable_str.cache must be `slot = None; try: slot = f(self); except Exception: pass` — the model's ps_cache
    (any exception class of a decoder -> None) is exactly that; anything narrower is refused here (fail-closed)"""
    import ast, os
    from gen_tables import REPO
    tree = ast.parse(open(os.path.join(REPO, "pycoin/networks/parseable_str.py")).read())
    fn = None
    for node in ast.walk(tree):
        if isinstance(node, ast.ClassDef) and node.name == "parseable_str":
            for st in node.body:
                if isinstance(st, ast.FunctionDef) and st.name == "cache":
                    fn = st
    if fn is None:
        raise GenError("parseable_str.cache not found")
    tries = [n for n in ast.walk(fn) if isinstance(n, ast.Try)]
    if len(tries) != 1:
        raise GenError("parseable_str.cache: expected exactly one try statement")
    t = tries[0]
    if len(t.handlers) != 1 or t.orelse or t.finalbody:
        raise GenError("parseable_str.cache: unexpected try shape")
    h = t.handlers[0]
    if not (h.type is None or (isinstance(h.type, ast.Name) and h.type.id in ("Exception", "BaseException"))):
        raise GenError("parseable_str.cache no longer swallows every exception (handler: %s)" % ast.dump(h.type))
    if not all(isinstance(b, ast.Pass) for b in h.body):
        raise GenError("parseable_str.cache: the exception handler does more than pass")
    # behavioural probe on the live class: a decoder raising an arbitrary exception gives None, twice
    from pycoin.networks.parseable_str import parseable_str

    class _Odd(Exception):
        pass

    def boom(_):
        raise _Odd()
    ps = parseable_str("probe")
    try:
        if ps.cache("c18_probe", boom) is not None or ps.cache("c18_probe", boom) is not None:
            raise GenError("parseable_str.cache: a raising decoder did not give None")
    except _Odd:
        raise GenError("parseable_str.cache lets a decoder's exception escape")
    for k in ("IndexError", "KeyError", "TypeError", "ImportError"):
        ps = parseable_str("probe")
        exc = __builtins__[k] if isinstance(__builtins__, dict) else getattr(__builtins__, k)

        def boom2(_, exc=exc):
            raise exc("x")
        try:
            if ps.cache("p", boom2) is not None:
                raise GenError("parseable_str.cache: a raising decoder did not give None")
        except exc:
            raise GenError("parseable_str.cache lets %s escape" % k)


def gen_parse_prefixes() -> str:
    check_cache_swallows_everything()
    nets = load_networks()
    curve = None
    rows = []
    for nm, net in nets:
        g = net.generator
        c = (g._p, g._a, g._b, g.order(), g[0], g[1])
        if curve is None:
            curve = c
        elif c != curve:
            raise GenError("%s: a different curve/generator than the other networks" % nm)
        if net.symbol.lower() != nm:
            raise GenError("%s: symbol mismatch %s" % (nm, net.symbol))
        rows.append(net_row(nm, net))
    p, a, b, n, gx, gy = curve
    if p % 4 != 3 or p % 2 != 1:
        raise GenError("curve prime is not 3 mod 4")
    out = [HEADER]
    out.append("(* the one curve every registered network uses (live net.generator of each symbol) *)\n")
    out.append("Definition curve_p : Z := %s.\nDefinition curve_a : Z := %s.\nDefinition curve_b : Z := %s.\n"
               "Definition curve_n : Z := %s.\nDefinition curve_gx : Z := %s.\nDefinition curve_gy : Z := %s.\n\n"
               % (coq_Z(p), coq_Z(a), coq_Z(b), coq_Z(n), coq_Z(gx), coq_Z(gy)))
    out.append("(* (symbol, catch-all parsers disabled, (address, pay_to_script, wif), (sec text prefix, bech32 hrp),\n"
               "    ((bip32 prv, pub), (bip49 prv, pub), (bip84 prv, pub))) *)\n")
    out.append("Definition parse_networks : list (string * bool * (option (list byte) * option (list byte) * option (list byte))\n"
               "    * (string * option string)\n"
               "    * ((option (list byte) * option (list byte)) * (option (list byte) * option (list byte)) * (option (list byte) * option (list byte)))) :=\n  [ "
               + ";\n    ".join(rows) + " ].\n")
    return "".join(out)


GENERATORS = {"GenParsePrefixes.v": gen_parse_prefixes}
