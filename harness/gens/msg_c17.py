"""gens/msg_c17.py — coq/Gen/GenMsgMagic.v for property C17 (signed text messages).

From the LIVE objects of /repo, cross-checked against the SOURCE (ast), fail-closed:
  msg_magic_table   per registered network (pycoin/symbols/*.py): symbol, network_name, NETWORK_NAME.upper(),
                    and the magic string returned by that network's MessageSigner.msg_magic_for_netcode()
  magic_format      the literal "%s Signed Message:\\n" inside msg_magic_for_netcode (split at %s)
  armour_pieces     MessageSigner.signature_template parsed with string.Formatter into literal / field pieces
  py_space          all code points c with chr(c).isspace()  (what str.strip() removes)
  lower_adres       all code points whose .lower() is a string over the letters of "address", with that image
                    (the model of `label.lower() == "address"` is exact only if every image is a single char)
  armour_literals   the string constants used by parse_sections / parse_signed_message
"""
from __future__ import annotations
import ast, os, importlib, pkgutil, string

from gen_tables import GenError, HEADER, REPO, coq_bytes, coq_str

SRC = "pycoin/contrib/msg_signing.py"


def _class_node(tree, cls):
    for node in tree.body:
        if isinstance(node, ast.ClassDef) and node.name == cls:
            return node
    raise GenError("no class %s" % cls)


def _method(clsnode, name):
    for st in clsnode.body:
        if isinstance(st, ast.FunctionDef) and st.name == name:
            return st
    raise GenError("no method %s" % name)


def _str_consts(node):
    return [n.value for n in ast.walk(node) if isinstance(n, ast.Constant) and isinstance(n.value, str)]


def gen_msg_magic() -> str:
    import pycoin.symbols as symbols
    from pycoin.contrib.msg_signing import MessageSigner
    tree = ast.parse(open(os.path.join(REPO, SRC)).read())
    cls = _class_node(tree, "MessageSigner")

    # ---- signature_template: class attribute literal == live value
    tmpl_lit = None
    for st in cls.body:
        if isinstance(st, ast.Assign) and len(st.targets) == 1 and isinstance(st.targets[0], ast.Name) \
                and st.targets[0].id == "signature_template":
            tmpl_lit = ast.literal_eval(st.value)
    if tmpl_lit is None or tmpl_lit != MessageSigner.signature_template:
        raise GenError("signature_template literal differs from the live value")
    pieces = []
    for lit, field, spec, conv in string.Formatter().parse(tmpl_lit):
        if lit:
            pieces.append("TLit " + coq_bytes(lit.encode("utf8")))
        if field is not None:
            if spec or conv or field not in ("net_name", "msg", "addr", "sig"):
                raise GenError("unexpected template field %r" % (field,))
            pieces.append({"net_name": "TNet", "msg": "TMsg", "addr": "TAddr", "sig": "TSig"}[field])
    # sign_message must fill it with exactly these keywords and upper-case the network name
    sm = _method(cls, "sign_message")
    fmt_calls = [n for n in ast.walk(sm) if isinstance(n, ast.Call) and isinstance(n.func, ast.Attribute) and n.func.attr == "format"]
    if len(fmt_calls) != 1:
        raise GenError("sign_message: expected one .format call")
    kw = {k.arg: ast.dump(k.value) for k in fmt_calls[0].keywords}
    want = {"msg": "Name(id='message', ctx=Load())", "sig": "Name(id='sig', ctx=Load())", "addr": "Name(id='addr', ctx=Load())",
            "net_name": "Call(func=Attribute(value=Attribute(value=Name(id='self', ctx=Load()), attr='_network_name', ctx=Load()), attr='upper', ctx=Load()), args=[], keywords=[])"}
    if kw != want:
        raise GenError("sign_message: template arguments changed: %r" % (kw,))

    # ---- magic format
    mm = _method(cls, "msg_magic_for_netcode")
    consts = [c for c in _str_consts(mm) if "%s" in c]
    if len(consts) != 1 or consts[0].count("%s") != 1 or not consts[0].startswith("%s"):
        raise GenError("msg_magic_for_netcode: unexpected format literal %r" % (consts,))
    magic_suffix = consts[0][2:]

    # ---- per network
    rows = []
    names = sorted(m.name for m in pkgutil.iter_modules(symbols.__path__))
    if not names:
        raise GenError("no network modules")
    for nm in names:
        try:
            mod = importlib.import_module("pycoin.symbols." + nm)
        except ImportError:
            continue                     # optional dependency missing (e.g. groestlcoin_hash): not registered here
        net = mod.network
        signer = net.msg.sign.__self__
        if not isinstance(signer, MessageSigner) or signer._network is not net or signer._generator is not net.generator:
            raise GenError("network %s: msg.sign is not bound to a MessageSigner(network, network.generator)" % nm)
        for attr in ("verify", "hash_for_signing", "signature_for_message_hash", "pair_for_message_hash", "parse_signed"):
            if getattr(net.msg, attr).__self__ not in (signer, MessageSigner):
                raise GenError("network %s: msg.%s is bound to another object" % (nm, attr))
        name = net.network_name
        magic = signer.msg_magic_for_netcode()
        if magic != name + magic_suffix:
            raise GenError("network %s: magic %r is not network_name + %r" % (nm, magic, magic_suffix))
        rows.append((net.symbol, name, name.upper(), magic))
    if not any(r[0] == "BTC" for r in rows):
        raise GenError("BTC missing")

    # ---- str.strip / str.lower tables
    spaces = [c for c in range(0x110000) if chr(c).isspace()]
    if any((chr(c) + "x" + chr(c)).strip() != "x" for c in spaces) or (chr(0x200b) + "x").strip() == "x":
        raise GenError("str.strip is not isspace-based")
    lower = [(c, chr(c).lower()) for c in range(0x110000) if set(chr(c).lower()) <= set("address")]
    if any(len(img) != 1 for _, img in lower):
        raise GenError("a code point lower()s to several letters of 'address'")

    # ---- parser literals
    ps = _method(cls, "parse_sections")
    psm = _method(cls, "parse_signed_message")
    lits_ps = _str_consts(ps)
    lits_psm = [c for c in _str_consts(psm) if len(c) < 40]     # the docstring is longer
    want_ps = ["\r\n", "\r\n", "\n", "SIGNED MESSAGE-----\n", "expecting text SIGNED MESSAGE somewhere",
               "\n-----BEGIN [A-Z ]*SIGNATURE-----\n", "expected BEGIN SIGNATURE line", "", "\n", "\r\n"]
    want_psm = ["\n", "-----END", "expecting END on last line", "-----END", ":", ":", "address", ":", "Could not find address"]
    if sorted(lits_ps) != sorted(want_ps):
        raise GenError("parse_sections: string constants changed: %r" % (lits_ps,))
    if sorted(lits_psm) != sorted(want_psm):
        raise GenError("parse_signed_message: string constants changed: %r" % (lits_psm,))

    out = [HEADER]
    out.append("Inductive tpiece := TLit (b : list byte) | TNet | TMsg | TAddr | TSig.\n\n")
    out.append("(* (symbol, network_name, network_name.upper(), msg_magic_for_netcode()) as UTF-8 *)\n")
    out.append("Definition msg_magic_table : list (string * list byte * list byte * list byte) :=\n  [ " +
               ";\n    ".join("(%s, %s, %s, %s)" % (coq_str(s), coq_bytes(n.encode("utf8")), coq_bytes(u.encode("utf8")),
                                                     coq_bytes(m.encode("utf8"))) for s, n, u, m in rows) + " ].\n\n")
    out.append("Definition magic_format_suffix : list byte := %s.\n\n" % coq_bytes(magic_suffix.encode("utf8")))
    out.append("Definition armour_pieces : list tpiece :=\n  [ " + ";\n    ".join(pieces) + " ].\n\n")
    out.append("Definition py_space : list N := [ " + "; ".join("%d%%N" % c for c in spaces) + " ].\n\n")
    out.append("Definition lower_adres : list (N * N) := [ " +
               "; ".join("(%d%%N, %d%%N)" % (c, ord(img)) for c, img in lower) + " ].\n\n")
    out.append("Definition lit_signed_message : list byte := %s.\n" % coq_bytes(b"SIGNED MESSAGE-----\n"))
    out.append("Definition lit_begin_re_prefix : list byte := %s.\n" % coq_bytes(b"\n-----BEGIN "))
    out.append("Definition lit_begin_re_suffix : list byte := %s.\n" % coq_bytes(b"SIGNATURE-----\n"))
    out.append("Definition lit_end : list byte := %s.\n" % coq_bytes(b"-----END"))
    out.append("Definition lit_address : list byte := %s.\n" % coq_bytes(b"address"))
    return "".join(out)


GENERATORS = {"GenMsgMagic.v": gen_msg_magic}
