"""harness/gens/c01.py — GenCurvesC01.v: the domain parameters (p, a, b, Gx, Gy, n) of the production
generators, dumped from the live objects and cross-checked against the literals in the source."""
import gen_tables as G


def _curve(modpath, relpath, genname):
    import importlib
    m = importlib.import_module(modpath)
    g = getattr(m, genname)
    lit = {k: G.ast_literal_of(relpath, k) for k in ("_p", "_a", "_b", "_Gx", "_Gy", "_r")}
    live = {"_p": g._p, "_a": g._a, "_b": g._b, "_Gx": g[0], "_Gy": g[1], "_r": g._order}
    for k in lit:
        if type(lit[k]) is not int or lit[k] != live[k]:
            raise G.GenError("%s: literal %s differs from the live generator" % (relpath, k))
    if g.p() != live["_p"] or g.order() != live["_r"]:
        raise G.GenError("%s: accessor mismatch" % relpath)
    return [live[k] for k in ("_p", "_a", "_b", "_Gx", "_Gy", "_r")]


def gen_curves():
    t = G.HEADER
    t += "(* (p, a, b, Gx, Gy, n) of pycoin/ecdsa/secp256k1.py and secp256r1.py *)\n"
    for name, mod, rel, gen in (("secp256k1", "pycoin.ecdsa.secp256k1", "pycoin/ecdsa/secp256k1.py", "secp256k1_generator"),
                                ("secp256r1", "pycoin.ecdsa.secp256r1", "pycoin/ecdsa/secp256r1.py", "secp256r1_generator")):
        p, a, b, gx, gy, n = _curve(mod, rel, gen)
        t += "Definition gen_%s_p : Z := %s.\n" % (name, G.coq_Z(p))
        t += "Definition gen_%s_a : Z := %s.\n" % (name, G.coq_Z(a))
        t += "Definition gen_%s_b : Z := %s.\n" % (name, G.coq_Z(b))
        t += "Definition gen_%s_Gx : Z := %s.\n" % (name, G.coq_Z(gx))
        t += "Definition gen_%s_Gy : Z := %s.\n" % (name, G.coq_Z(gy))
        t += "Definition gen_%s_n : Z := %s.\n" % (name, G.coq_Z(n))
    # the digest size that Generator.sign_with_recid's default nonce function uses
    import inspect, hashlib
    from pycoin.ecdsa.rfc6979 import deterministic_generate_k
    hf = inspect.signature(deterministic_generate_k).parameters["hash_f"].default
    if hf is not hashlib.sha256:
        raise G.GenError("deterministic_generate_k: default hash_f is not hashlib.sha256")
    t += "(* hashlib.sha256().digest_size, the default hash_f of deterministic_generate_k *)\n"
    t += "Definition gen_rfc6979_hash_size : nat := %d%%nat.\n" % hf().digest_size
    return t


GENERATORS = {"GenCurvesC01.v": gen_curves}
