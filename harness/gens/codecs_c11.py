"""gens/codecs_c11.py — tables for C11 (Base58 / Bech32 codecs) -> coq/Gen/GenCodecsC11.v.

Every value is dumped from the live module AND cross-checked against the source literal (AST); the
constants that live inside the body of bech32_polymod (generator list, shifts, mask, initial value) are
taken from the AST and cross-checked (a) against the function's co_consts and (b) behaviourally: a
re-implementation built from the harvested constants must agree with the live function on probe inputs.
Fail-closed: any unexpected shape raises GenError.
"""
from __future__ import annotations
import ast, os, random
from gen_tables import GenError, HEADER, REPO, ast_literal_of, coq_bytes, coq_Z


def _func_node(module_path, name):
    tree = ast.parse(open(os.path.join(REPO, module_path)).read())
    for node in tree.body:
        if isinstance(node, ast.FunctionDef) and node.name == name:
            return node
    raise GenError("no function %s in %s" % (name, module_path))


def _class_attr_literal(module_path, cls, name):
    tree = ast.parse(open(os.path.join(REPO, module_path)).read())
    for node in tree.body:
        if isinstance(node, ast.ClassDef) and node.name == cls:
            for st in node.body:
                if isinstance(st, ast.Assign) and len(st.targets) == 1 and isinstance(st.targets[0], ast.Name) \
                        and st.targets[0].id == name:
                    return ast.literal_eval(st.value)
    raise GenError("no literal %s.%s in %s" % (cls, name, module_path))


def _polymod_constants():
    """(generator, init, top_shift, mask, shift, nbits) from the body of bech32_polymod"""
    fn = _func_node("pycoin/contrib/bech32m.py", "bech32_polymod")
    body = [st for st in fn.body if not (isinstance(st, ast.Expr) and isinstance(getattr(st, "value", None), ast.Constant)
                                         and isinstance(st.value.value, str))]
    if len(body) != 4:
        raise GenError("bech32_polymod: unexpected number of statements")
    g, init, loop, ret = body
    # generator = [ ... ]
    if not (isinstance(g, ast.Assign) and isinstance(g.targets[0], ast.Name) and g.targets[0].id == "generator"
            and isinstance(g.value, ast.List)):
        raise GenError("bech32_polymod: generator assignment shape")
    gen = ast.literal_eval(g.value)
    if not (isinstance(gen, list) and all(isinstance(x, int) and not isinstance(x, bool) for x in gen)):
        raise GenError("bech32_polymod: generator literal")
    if not (isinstance(init, ast.Assign) and init.targets[0].id == "chk"):
        raise GenError("bech32_polymod: chk init shape")
    init_v = ast.literal_eval(init.value)
    if not (isinstance(ret, ast.Return) and isinstance(ret.value, ast.Name) and ret.value.id == "chk"):
        raise GenError("bech32_polymod: return shape")
    if not (isinstance(loop, ast.For) and isinstance(loop.iter, ast.Name) and loop.iter.id == "values"
            and len(loop.body) == 3 and not loop.orelse):
        raise GenError("bech32_polymod: loop shape")
    s_top, s_chk, s_inner = loop.body
    # top = chk >> 25
    want_top = "Assign(targets=[Name(id='top', ctx=Store())], value=BinOp(left=Name(id='chk', ctx=Load()), op=RShift(), right=Constant(value=%d)))"
    if not (isinstance(s_top, ast.Assign) and isinstance(s_top.value, ast.BinOp) and isinstance(s_top.value.right, ast.Constant)):
        raise GenError("bech32_polymod: top shape")
    top_shift = s_top.value.right.value
    if ast.dump(s_top) != want_top % top_shift:
        raise GenError("bech32_polymod: top statement changed: " + ast.dump(s_top))
    # chk = (chk & MASK) << SHIFT ^ value
    try:
        mask = s_chk.value.left.left.right.value
        shift = s_chk.value.left.right.value
    except AttributeError:
        raise GenError("bech32_polymod: chk update shape")
    want_chk = ("Assign(targets=[Name(id='chk', ctx=Store())], value=BinOp(left=BinOp(left=BinOp(left=Name(id='chk', ctx=Load()), "
                "op=BitAnd(), right=Constant(value=%d)), op=LShift(), right=Constant(value=%d)), op=BitXor(), "
                "right=Name(id='value', ctx=Load())))")
    if ast.dump(s_chk) != want_chk % (mask, shift):
        raise GenError("bech32_polymod: chk update changed: " + ast.dump(s_chk))
    # for i in range(N): chk ^= generator[i] if ((top >> i) & 1) else 0
    try:
        nbits = s_inner.iter.args[0].value
    except (AttributeError, IndexError):
        raise GenError("bech32_polymod: inner loop shape")
    want_inner = ("For(target=Name(id='i', ctx=Store()), iter=Call(func=Name(id='range', ctx=Load()), args=[Constant(value=%d)], "
                  "keywords=[]), body=[AugAssign(target=Name(id='chk', ctx=Store()), op=BitXor(), value=IfExp(test=BinOp("
                  "left=BinOp(left=Name(id='top', ctx=Load()), op=RShift(), right=Name(id='i', ctx=Load())), op=BitAnd(), "
                  "right=Constant(value=1)), body=Subscript(value=Name(id='generator', ctx=Load()), slice=Name(id='i', ctx=Load()), "
                  "ctx=Load()), orelse=Constant(value=0)))], orelse=[])")
    if ast.dump(s_inner) != want_inner % nbits:
        raise GenError("bech32_polymod: inner loop changed: " + ast.dump(s_inner))
    for v in (init_v, top_shift, mask, shift, nbits):
        if not isinstance(v, int) or isinstance(v, bool) or v < 0:
            raise GenError("bech32_polymod: non-integer constant")
    if nbits > len(gen):
        raise GenError("bech32_polymod: range exceeds generator length")
    return gen, init_v, top_shift, mask, shift, nbits


def _ref_polymod(consts, values):
    gen, init_v, top_shift, mask, shift, nbits = consts
    chk = init_v
    for v in values:
        top = chk >> top_shift
        chk = ((chk & mask) << shift) ^ v
        for i in range(nbits):
            if (top >> i) & 1:
                chk ^= gen[i]
    return chk


def gen_codecs_c11() -> str:
    from pycoin.encoding import b58
    from pycoin.contrib import bech32m
    out = [HEADER]
    # ---- Base58 alphabet
    lit = ast_literal_of("pycoin/encoding/b58.py", "BASE58_ALPHABET")
    live = b58.BASE58_ALPHABET
    if not isinstance(live, bytes) or lit != live:
        raise GenError("BASE58_ALPHABET literal differs from imported value")
    if b58.BASE58_BASE != len(live):
        raise GenError("BASE58_BASE is not len(BASE58_ALPHABET)")
    if b58.BASE58_LOOKUP != dict((c, i) for i, c in enumerate(live)):
        raise GenError("BASE58_LOOKUP is not the enumeration of BASE58_ALPHABET")
    if any(c >= 128 for c in live):
        raise GenError("BASE58_ALPHABET has a non-ASCII byte (bytes.decode('utf8') is modelled for ASCII only)")
    out.append("Definition b58_alphabet : list byte := %s.\n\n" % coq_bytes(live))
    # ---- Bech32
    cs_lit = ast_literal_of("pycoin/contrib/bech32m.py", "CHARSET")
    if not isinstance(bech32m.CHARSET, str) or cs_lit != bech32m.CHARSET:
        raise GenError("CHARSET literal differs from imported value")
    out.append("(* code points of CHARSET *)\nDefinition bech32_charset : list N := [%s]%%N.\n\n"
               % "; ".join(str(ord(c)) for c in bech32m.CHARSET))
    m_lit = ast_literal_of("pycoin/contrib/bech32m.py", "BECH32M_CONST")
    if m_lit != bech32m.BECH32M_CONST or not isinstance(m_lit, int):
        raise GenError("BECH32M_CONST literal differs from imported value")
    out.append("Definition bech32m_const : Z := %s.\n" % coq_Z(m_lit))
    e1 = _class_attr_literal("pycoin/contrib/bech32m.py", "Encoding", "BECH32")
    e2 = _class_attr_literal("pycoin/contrib/bech32m.py", "Encoding", "BECH32M")
    if e1 != bech32m.Encoding.BECH32 or e2 != bech32m.Encoding.BECH32M:
        raise GenError("Encoding constants differ from imported values")
    out.append("Definition enc_bech32 : Z := %s.\nDefinition enc_bech32m : Z := %s.\n\n" % (coq_Z(e1), coq_Z(e2)))
    consts = _polymod_constants()
    gen, init_v, top_shift, mask, shift, nbits = consts
    code_consts = set(c for c in bech32m.bech32_polymod.__code__.co_consts if isinstance(c, int))
    for c in bech32m.bech32_polymod.__code__.co_consts:
        if isinstance(c, tuple):
            code_consts |= set(x for x in c if isinstance(x, int))
    for v in gen + [init_v, top_shift, mask, shift, nbits]:
        if v not in code_consts:
            raise GenError("bech32_polymod: source constant %r not in the live code object" % v)
    rng = random.Random(1100)
    probes = [[], [0], [31], [0] * 8, [31] * 12]
    for _ in range(300):
        probes.append([rng.randrange(32) for _ in range(rng.randrange(1, 40))])
    for i in range(8):
        probes.append([1 << i] + [0] * 9)
    for p in probes:
        if _ref_polymod(consts, p) != bech32m.bech32_polymod(p):
            raise GenError("bech32_polymod: live function differs from the harvested constants on %r" % (p,))
    out.append("(* constants of bech32_polymod, harvested from its body *)\n")
    out.append("Definition bech32_generator : list Z := [%s].\n" % "; ".join(coq_Z(g) for g in gen[:nbits]))
    out.append("Definition polymod_init : Z := %s.\nDefinition polymod_top_shift : Z := %s.\n"
               "Definition polymod_mask : Z := %s.\nDefinition polymod_shift : Z := %s.\n"
               % (coq_Z(init_v), coq_Z(top_shift), coq_Z(mask), coq_Z(shift)))
    return "".join(out)


GENERATORS = {
    "GenCodecsC11.v": gen_codecs_c11,
}
