"""gens/curves_c02.py — (p, a, b, Gx, Gy, n) and the fixed-base table size of the three shipped generators
-> coq/Gen/GenCurves.v.  Values are read from the live generator objects AND cross-checked against the source
literals `_p _a _b _Gx _Gy _r` (AST) of the defining module; fail-closed."""
from __future__ import annotations
import importlib
from gen_tables import GenError, HEADER, ast_literal_of, coq_Z

CURVES = [
    ("secp256k1", "pycoin/ecdsa/secp256k1.py", "pycoin.ecdsa.secp256k1", "secp256k1_generator"),
    ("secp256r1", "pycoin/ecdsa/secp256r1.py", "pycoin.ecdsa.secp256r1", "secp256r1_generator"),
    ("bls12_381_g1", "pycoin/ecdsa/bls12_381_g1.py", "pycoin.ecdsa.bls12_381_g1", "bls12_381_g1"),
]


def gen_curves() -> str:
    out = [HEADER, "(* per shipped generator: parameters (p, a, b, Gx, Gy, n) and Generator._bit_count *)\n"]
    for name, path, modname, attr in CURVES:
        lit = tuple(ast_literal_of(path, k) for k in ("_p", "_a", "_b", "_Gx", "_Gy", "_r"))
        if not all(isinstance(v, int) and not isinstance(v, bool) for v in lit):
            raise GenError("%s: non-integer literal" % name)
        g = getattr(importlib.import_module(modname), attr)
        live = (g.p(), g._a, g._b, g[0], g[1], g.order())
        if live != lit:
            raise GenError("%s: live generator parameters differ from the source literals" % name)
        if g._p != lit[0] or g._order != lit[5] or g.curve() is not g:
            raise GenError("%s: unexpected generator object shape" % name)
        bits = g._bit_count
        if not isinstance(bits, int) or len(g._powers) != bits:
            raise GenError("%s: _bit_count / _powers shape" % name)
        for k, v in zip(("p", "a", "b", "Gx", "Gy", "n"), lit):
            out.append("Definition %s_%s : Z := %s.\n" % (name, k, coq_Z(v)))
        out.append("Definition %s_bits : nat := %d%%nat.\n" % (name, bits))
        out.append("Definition %s_params : Z * Z * Z * Z * Z * Z :=\n  (%s).\n\n" % (
            name, ", ".join("%s_%s" % (name, k) for k in ("p", "a", "b", "Gx", "Gy", "n"))))
    out.append("Definition shipped_curves : list (Z * Z * Z * Z * Z * Z * nat) :=\n  [ " + ";\n    ".join(
        "(%s_params, %s_bits)" % (n, n) for n, _, _, _ in CURVES) + " ].\n")
    return "".join(out)


GENERATORS = {"GenCurves.v": gen_curves}
