"""harness/gens/codecs_c07.py — table generator for C07/C20 (coq/Gen/GenTxConsts.v).

Dumps from the LIVE modules, cross-checked against the source AST (fail-closed):
  * the struct format strings used by Tx / TxIn / TxOut / Spendable ("#LSL", "QS", "QS#LIbI", "#LIbI", "L", "I"),
    captured by running the real parse/stream methods with a recording parse_struct/stream_struct AND read from the AST;
  * the SATOSHI_STREAMER codec table: for every registered format character its kind
    (little/big-endian fixed width, raw n bytes, compact size, length-prefixed string, bool), found by probing the live codecs;
  * compact-size probe vectors (value, live encoding) around every threshold;
  * MAX_MONEY / MAX_TX_SIZE for every Tx class (Bitcoin, BCash, BGold, Litecoin, Groestlcoin), MAX_BLOCK_SIZE;
  * the constants of TxIn.is_coinbase (ZERO, 0xFFFFFFFF) and of Tx._check_txs_in (coinbase script bounds 2..100);
  * the attribute/mutation scan of Tx.check and its helpers (C20 frame condition: no assignment to an attribute
    or subscript, no call of a mutating method on self).
"""
import ast, io, os, struct, decimal
import gen_tables as G


def _src(rel):
    return open(os.path.join(G.REPO, rel)).read()


def _method(rel, cls, name):
    tree = ast.parse(_src(rel))
    for node in tree.body:
        if isinstance(node, ast.ClassDef) and node.name == cls:
            for f in node.body:
                if isinstance(f, ast.FunctionDef) and f.name == name:
                    return f
    raise G.GenError("%s.%s not found in %s" % (cls, name, rel))


def _ast_formats(rel, cls, name, callee):
    """string literals passed as first argument to parse_struct/stream_struct inside cls.name"""
    f = _method(rel, cls, name)
    out = []
    for n in ast.walk(f):
        if isinstance(n, ast.Call) and isinstance(n.func, ast.Name) and n.func.id == callee:
            if not n.args or not isinstance(n.args[0], ast.Constant) or not isinstance(n.args[0].value, str):
                raise G.GenError("%s.%s: %s called with a non-literal format" % (cls, name, callee))
            out.append((n.lineno, n.col_offset, n.args[0].value))
    return [s for _, _, s in sorted(out)]


class _Rec:
    """records the format strings that reach parse_struct / stream_struct"""

    def __init__(self, real):
        self.real = real
        self.seen = []

    def __call__(self, fmt, f, *a):
        self.seen.append(fmt)
        return self.real(fmt, f, *a)


def _live_formats(module, names, thunk):
    recs = {}
    old = {}
    for n in names:
        old[n] = getattr(module, n)
        recs[n] = _Rec(old[n])
        setattr(module, n, recs[n])
    try:
        thunk()
    finally:
        for n in names:
            setattr(module, n, old[n])
    return {n: recs[n].seen for n in names}


def _one(lst, what):
    s = set(lst)
    if len(s) != 1:
        raise G.GenError("%s: expected exactly one format string, got %r" % (what, lst))
    return lst[0]


def _formats():
    import pycoin.coins.bitcoin.TxIn as MI
    import pycoin.coins.bitcoin.TxOut as MO
    import pycoin.coins.bitcoin.Spendable as MS
    import pycoin.coins.bitcoin.Tx as MT
    res = {}
    # TxIn
    h = bytes(range(32))
    blob = {}
    ti = MI.TxIn(h, 7, b"abc", 9)
    live = _live_formats(MI, ["parse_struct", "stream_struct"], lambda: (blob.__setitem__("i", _as_bin(ti)), MI.TxIn.parse(io.BytesIO(blob["i"]))))
    a_s = _ast_formats("pycoin/coins/bitcoin/TxIn.py", "TxIn", "stream", "stream_struct")
    a_p = _ast_formats("pycoin/coins/bitcoin/TxIn.py", "TxIn", "parse", "parse_struct")
    res["txin_stream_fmt"] = _one(live["stream_struct"] + a_s, "TxIn.stream")
    res["txin_parse_fmt"] = _one(live["parse_struct"] + a_p, "TxIn.parse")
    # TxOut
    to = MO.TxOut(5, b"xy")
    live = _live_formats(MO, ["parse_struct", "stream_struct"], lambda: (blob.__setitem__("o", _as_bin(to)), MO.TxOut.parse(io.BytesIO(blob["o"]))))
    a_s = _ast_formats("pycoin/coins/bitcoin/TxOut.py", "TxOut", "stream", "stream_struct")
    a_p = _ast_formats("pycoin/coins/bitcoin/TxOut.py", "TxOut", "parse", "parse_struct")
    res["txout_stream_fmt"] = _one(live["stream_struct"] + a_s, "TxOut.stream")
    res["txout_parse_fmt"] = _one(live["parse_struct"] + a_p, "TxOut.parse")
    # Spendable (its stream calls TxOut.stream first, then its own struct)
    sp = MS.Spendable(5, b"xy", h, 3, 10, 1, 20)
    live = _live_formats(MS, ["parse_struct", "stream_struct"], lambda: (blob.__setitem__("s", sp.as_bin(as_spendable=True)), MS.Spendable.parse(io.BytesIO(blob["s"]))))
    a_s = _ast_formats("pycoin/coins/bitcoin/Spendable.py", "Spendable", "stream", "stream_struct")
    a_p = _ast_formats("pycoin/coins/bitcoin/Spendable.py", "Spendable", "parse", "parse_struct")
    res["spendable_stream_fmt"] = _one(live["stream_struct"] + a_s, "Spendable.stream")
    res["spendable_parse_fmt"] = _one(live["parse_struct"] + a_p, "Spendable.parse")
    # Tx: version / lock_time via "L", counts via "I" on the stream side
    tx = MT.Tx(1, [ti], [to], 0)
    live = _live_formats(MT, ["parse_struct", "stream_struct"], lambda: (blob.__setitem__("t", tx.as_bin()), MT.Tx.parse(io.BytesIO(blob["t"]))))
    a_s = _ast_formats("pycoin/coins/bitcoin/Tx.py", "Tx", "stream", "stream_struct")
    a_p = _ast_formats("pycoin/coins/bitcoin/Tx.py", "Tx", "parse", "parse_struct")
    if live["stream_struct"] != ["L", "I", "I", "L"] or a_s != ["L", "I", "I", "I", "L"]:
        raise G.GenError("Tx.stream: unexpected stream_struct formats live=%r ast=%r" % (live["stream_struct"], a_s))
    if live["parse_struct"] != ["L", "L"] or a_p != ["L", "L"]:
        raise G.GenError("Tx.parse: unexpected parse_struct formats live=%r ast=%r" % (live["parse_struct"], a_p))
    res["tx_word_fmt"] = "L"
    res["tx_count_fmt"] = "I"
    # marker/flag literal written by Tx.stream
    f = _method("pycoin/coins/bitcoin/Tx.py", "Tx", "stream")
    lits = [n.value for n in ast.walk(f) if isinstance(n, ast.Constant) and isinstance(n.value, bytes)]
    if lits != [b"\0\1"]:
        raise G.GenError("Tx.stream: expected the single bytes literal 00 01, got %r" % (lits,))
    res["_marker_flag"] = lits[0]
    return res


def _as_bin(x):
    f = io.BytesIO()
    x.stream(f)
    return f.getvalue()


def _probe_codec(c, parse_f, stream_f):
    """classify a registered codec by black-box probing; returns Coq text of a codec_kind"""
    def enc(v):
        f = io.BytesIO()
        stream_f(f, v)
        return f.getvalue()

    def dec(b):
        f = io.BytesIO(b)
        v = parse_f(f)
        return v, f.read()

    def attempt(th):
        try:
            return th()
        except G.GenError:
            raise
        except Exception:
            return False

    # compact size
    if attempt(lambda: enc(252) == b"\xfc" and enc(253) == b"\xfd\xfd\x00" and enc(65536) == b"\xfe\x00\x00\x01\x00"
               and enc(1 << 32) == b"\xff" + (1 << 32).to_bytes(8, "little") and dec(b"\xfd\x01\x00z") == (1, b"z")
               and dec(b"\xfe\x01\x00\x00\x00z") == (1, b"z") and dec(b"\xff" + b"\x01" + b"\0" * 7 + b"z") == (1, b"z")):
        return "KVARINT"
    # length-prefixed string (short read silent)
    if attempt(lambda: enc(b"abc") == b"\x03abc" and enc(b"q" * 253) == b"\xfd\xfd\x00" + b"q" * 253
               and dec(b"\x02xyz") == (b"xy", b"z") and dec(b"\x05xy") == (b"xy", b"")):
        return "KVARSTR"
    # raw n bytes: stream writes v[:n], parse reads n (short read silent)
    long = bytes(range(64))

    def raw():
        e = enc(long)
        if not (long.startswith(e) and 0 < len(e) < 64 and enc(long[:3]) == long[:3]):
            return False
        n = len(e)
        v, rest = dec(long)
        if bytes(v) == long[:n] and rest == long[n:] and bytes(dec(long[:5])[0]) == long[:5]:
            return n
        return False
    n = attempt(raw)
    if n:
        return "KRAW %d%%nat" % n
    # bool: struct '?'
    def boolean():
        if enc(True) == b"\x01" and enc(False) == b"\x00" and len(enc(True)) == 1:
            ok = dec(b"\x00z") == (False, b"z") and dec(b"\x00z")[0] is False and dec(b"\x01z")[0] is True
            if ok and not (dec(b"\x02")[0] is True and dec(b"\xff")[0] is True):
                raise G.GenError("codec %r: bool codec does not read non-zero as True" % c)
            if ok:
                try:
                    dec(b"")
                except struct.error:
                    return True
                raise G.GenError("codec %r: bool codec short read does not raise struct.error" % c)
        return False
    if attempt(boolean):
        return "KBOOL"
    # fixed-width unsigned integers
    for w in (1, 2, 4, 8):
        pat = bytes(range(1, w + 1))
        v = int.from_bytes(pat, "little")
        e = attempt(lambda: enc(v))
        if e is False or len(e) != w:
            continue
        if e == pat:
            _check_int(c, w, "little", enc, dec)
            return "KLE %d%%nat" % w
        if e == pat[::-1]:
            _check_int(c, w, "big", enc, dec)
            return "KBE %d%%nat" % w
    raise G.GenError("codec %r of SATOSHI_STREAMER has a shape the model does not know" % c)


def _check_int(c, w, order, enc, dec):
    top = (1 << (8 * w)) - 1
    for v in (0, 1, top, 0x0102030405060708 % (top + 1)):
        if enc(v) != v.to_bytes(w, order) or dec(v.to_bytes(w, order) + b"z") != (v, b"z"):
            raise G.GenError("codec %r: not a %d-byte %s-endian unsigned integer" % (c, w, order))
    for bad in (-1, top + 1):
        try:
            enc(bad)
        except struct.error:
            continue
        raise G.GenError("codec %r: out-of-range value %d does not raise struct.error" % (c, bad))
    try:
        dec(b"\0" * (w - 1))
    except struct.error:
        return
    raise G.GenError("codec %r: short read does not raise struct.error" % c)


def _cmp_consts(fn):
    """integer literals appearing in Compare nodes of fn"""
    out = []
    for n in ast.walk(fn):
        if isinstance(n, ast.Compare):
            for x in [n.left] + list(n.comparators):
                if isinstance(x, ast.Constant) and type(x.value) is int:
                    out.append(x.value)
    return out


MUTATORS = {"append", "extend", "insert", "pop", "remove", "clear", "sort", "reverse", "update", "setdefault",
            "__setattr__", "__delattr__", "set_unspents", "set_witness", "unspents_from_db", "parse_unspents", "sign"}
CHECK_METHODS = ["check", "_check_tx_inout_count", "_check_txs_out", "_check_txs_in", "_check_size_limit", "is_coinbase"]


def _mutation_scan():
    """names of attribute/subscript stores, deletes, and mutating method calls on non-local objects in Tx.check & helpers"""
    bad = []
    for m in CHECK_METHODS:
        fn = _method("pycoin/coins/bitcoin/Tx.py", "Tx", m)
        local_names = set()
        for n in ast.walk(fn):
            if isinstance(n, (ast.Assign, ast.AnnAssign, ast.AugAssign)):
                targets = n.targets if isinstance(n, ast.Assign) else [n.target]
                for t in targets:
                    for x in ast.walk(t):
                        if isinstance(x, ast.Name):
                            local_names.add(x.id)
        for n in ast.walk(fn):
            if isinstance(n, (ast.Assign, ast.AnnAssign, ast.AugAssign)):
                targets = n.targets if isinstance(n, ast.Assign) else [n.target]
                for t in targets:
                    for x in ast.walk(t):
                        if isinstance(x, (ast.Attribute, ast.Subscript)):
                            bad.append("%s:store:%s" % (m, ast.unparse(x)))
            elif isinstance(n, ast.Delete):
                bad.append("%s:del" % m)
            elif isinstance(n, (ast.Global, ast.Nonlocal)):
                bad.append("%s:global" % m)
            elif isinstance(n, ast.Call) and isinstance(n.func, ast.Attribute):
                name = n.func.attr
                base = n.func.value
                is_local = isinstance(base, ast.Name) and base.id in local_names
                if name in MUTATORS or (name == "add" and not is_local):
                    bad.append("%s:call:%s" % (m, ast.unparse(n.func)))
            elif isinstance(n, ast.Call) and isinstance(n.func, ast.Name) and n.func.id in ("setattr", "delattr", "exec", "eval"):
                bad.append("%s:call:%s" % (m, n.func.id))
    # TxIn.is_coinbase
    fn = _method("pycoin/coins/bitcoin/TxIn.py", "TxIn", "is_coinbase")
    for n in ast.walk(fn):
        if isinstance(n, (ast.Assign, ast.AugAssign, ast.AnnAssign, ast.Delete, ast.Call)):
            bad.append("TxIn.is_coinbase:%s" % type(n).__name__)
    return bad


def _int_literals(rel):
    return {n.value for n in ast.walk(ast.parse(_src(rel))) if isinstance(n, ast.Constant) and type(n.value) is int}


OFFICIAL_MUTATORS = {"__init__", "set_witness", "set_unspents", "unspents_from_db", "parse_unspents", "sign"}
OBSERVED_CLASSES = [("pycoin/coins/Tx.py", "Tx"), ("pycoin/coins/bitcoin/Tx.py", "Tx"), ("pycoin/coins/groestlcoin/Tx.py", "Tx"),
                    ("pycoin/coins/litecoin/__init__.py", "LTCTx"), ("pycoin/coins/bcash/Tx.py", "Tx"), ("pycoin/coins/bgold/Tx.py", "Tx"),
                    ("pycoin/coins/bitcoin/TxIn.py", "TxIn"), ("pycoin/coins/bitcoin/TxOut.py", "TxOut"),
                    ("pycoin/coins/bitcoin/Spendable.py", "Spendable")]
CACHE_WORDS = ("cache", "memo", "lru")


def _observer_writes():
    bad = []
    for rel, cname in OBSERVED_CLASSES:
        tree = ast.parse(_src(rel))
        short = rel.split("/")[-2] if rel.endswith("__init__.py") else "/".join(rel.split("/")[-2:])[:-3]
        # module level: mutable caches (dict/list/set literals or calls assigned to a lower-case or _cache-like name)
        for n in tree.body:
            if isinstance(n, (ast.Assign, ast.AnnAssign)):
                tg = n.targets[0] if isinstance(n, ast.Assign) else n.target
                if isinstance(tg, ast.Name) and any(w in tg.id.lower() for w in CACHE_WORDS):
                    bad.append("%s:module:%s" % (short, tg.id))
        cls = [c for c in tree.body if isinstance(c, ast.ClassDef) and c.name == cname]
        if len(cls) != 1:
            raise G.GenError("class %s not found in %s" % (cname, rel))
        for f in cls[0].body:
            if not isinstance(f, (ast.FunctionDef, ast.AsyncFunctionDef)):
                continue
            tag = "%s.%s.%s" % (short, cname, f.name)
            for dec in f.decorator_list:
                if any(w in ast.unparse(dec).lower() for w in CACHE_WORDS + ("cached_property",)):
                    bad.append("%s:decorator:%s" % (tag, ast.unparse(dec)))
            if f.name in OFFICIAL_MUTATORS:
                continue
            first = f.args.args[0].arg if f.args.args else None
            is_static = any(ast.unparse(d) == "staticmethod" for d in f.decorator_list)
            selfname = None if is_static else first
            for n in ast.walk(f):
                if isinstance(n, (ast.Global, ast.Nonlocal)):
                    bad.append("%s:global:%s" % (tag, ",".join(n.names)))
                tgs = []
                if isinstance(n, ast.Assign):
                    tgs = n.targets
                elif isinstance(n, (ast.AugAssign, ast.AnnAssign)):
                    tgs = [n.target] if not (isinstance(n, ast.AnnAssign) and n.value is None) else []
                elif isinstance(n, ast.Delete):
                    tgs = n.targets
                elif isinstance(n, (ast.For, ast.AsyncFor)):
                    tgs = [n.target]
                elif isinstance(n, (ast.With, ast.AsyncWith)):
                    tgs = [i.optional_vars for i in n.items if i.optional_vars is not None]
                elif isinstance(n, ast.NamedExpr):
                    tgs = [n.target]
                for tg in tgs:
                    for x in ast.walk(tg):
                        if isinstance(x, (ast.Attribute, ast.Subscript)):
                            root = x
                            while isinstance(root, (ast.Attribute, ast.Subscript)):
                                root = root.value
                            if selfname is not None and isinstance(root, ast.Name) and root.id == selfname:
                                bad.append("%s:store:%s" % (tag, ast.unparse(x)))
                if isinstance(n, ast.Call):
                    fn = n.func
                    if isinstance(fn, ast.Name) and fn.id in ("setattr", "delattr") and n.args and isinstance(n.args[0], ast.Name) \
                            and n.args[0].id == selfname:
                        bad.append("%s:call:%s" % (tag, fn.id))
                    if isinstance(fn, ast.Attribute) and fn.attr in ("__setattr__", "__delattr__", "setdefault", "update") \
                            and selfname is not None and ast.unparse(fn.value).startswith(selfname + ".__dict__"):
                        bad.append("%s:call:%s" % (tag, ast.unparse(fn)))
                    if isinstance(fn, ast.Attribute) and fn.attr in ("__setattr__", "__delattr__") and ast.unparse(fn.value) == "object":
                        bad.append("%s:call:%s" % (tag, ast.unparse(fn)))
                if isinstance(n, ast.Attribute) and n.attr == "__dict__" and isinstance(n.value, ast.Name) and n.value.id == selfname:
                    bad.append("%s:__dict__" % tag)
    return sorted(set(bad))


def _coq_chars(s):
    for c in s:
        if not (32 < ord(c) < 127) or c == '"':
            raise G.GenError("unexpected format character %r" % c)
    return "[" + "; ".join('"%s"%%char' % c for c in s) + "]"


def _coq_str_list(xs):
    return "[" + "; ".join(G.coq_str(x) for x in xs) + "]"


def gen_txconsts():
    from pycoin.satoshi.satoshi_streamer import SATOSHI_STREAMER, STREAMER_FUNCTIONS
    from pycoin.satoshi.satoshi_int import stream_satoshi_int, parse_satoshi_int
    import pycoin.coins.bitcoin.Tx as MT
    import pycoin.coins.bitcoin.TxIn as MI
    from pycoin.coins.bcash.Tx import Tx as BchTx
    from pycoin.coins.bgold.Tx import Tx as BtgTx
    from pycoin.coins.litecoin import LTCTx
    from pycoin.coins.groestlcoin.Tx import Tx as GrsTx
    import pycoin.convention as conv

    t = G.HEADER
    t += "From Coq Require Import Ascii.\n\n"
    t += "Inductive codec_kind := KLE (w : nat) | KBE (w : nat) | KRAW (n : nat) | KVARINT | KVARSTR | KBOOL.\n\n"
    # ---- streamer table
    if set(SATOSHI_STREAMER.parse_lookup) != set(SATOSHI_STREAMER.stream_lookup) or \
            set(SATOSHI_STREAMER.parse_lookup) != set(STREAMER_FUNCTIONS):
        raise G.GenError("SATOSHI_STREAMER lookups differ from STREAMER_FUNCTIONS")
    if SATOSHI_STREAMER.array_count_parse_f is not parse_satoshi_int:
        raise G.GenError("array count parser is not parse_satoshi_int")
    rows = []
    for c in sorted(SATOSHI_STREAMER.parse_lookup):
        if len(c) != 1 or not (32 < ord(c) < 127) or c == '"':
            raise G.GenError("unexpected format character %r" % c)
        kind = _probe_codec(c, SATOSHI_STREAMER.parse_lookup[c], SATOSHI_STREAMER.stream_lookup[c])
        rows.append('("%s"%%char, %s)' % (c, kind))
    t += "(* pycoin/satoshi/satoshi_streamer.py: registered format characters with their probed kind *)\n"
    t += "Definition streamer_table : list (ascii * codec_kind) :=\n  [ " + ";\n    ".join(rows) + " ].\n\n"
    # ---- formats
    fm = _formats()
    t += "(* struct format strings: captured live (recording parse_struct/stream_struct) and from the AST *)\n"
    for k in ["txin_stream_fmt", "txin_parse_fmt", "txout_stream_fmt", "txout_parse_fmt",
              "spendable_stream_fmt", "spendable_parse_fmt", "tx_word_fmt", "tx_count_fmt"]:
        t += "Definition %s : list ascii := %s.\n" % (k, _coq_chars(fm[k]))
    t += "Definition tx_marker_flag : list byte := %s.\n\n" % G.coq_bytes(fm["_marker_flag"])
    # ---- compact size probes
    probes = []
    for v in [0, 1, 2, 127, 128, 251, 252, 253, 254, 255, 256, 257, 0xfffe, 0xffff, 0x10000, 0x10001, 0xfffffffe, 0xffffffff,
              0x100000000, 0x100000001, (1 << 63) - 1, 1 << 63, (1 << 64) - 1]:
        f = io.BytesIO()
        stream_satoshi_int(f, v)
        e = f.getvalue()
        if parse_satoshi_int(io.BytesIO(e)) != v:
            raise G.GenError("compact size %d does not read back" % v)
        probes.append("(%s, %s)" % (G.coq_N(v), G.coq_bytes(e)))
    t += "(* pycoin/satoshi/satoshi_int.py: (value, live encoding) around every threshold *)\n"
    t += "Definition varint_probes : list (N * list byte) :=\n  [ " + ";\n    ".join(probes) + " ].\n\n"
    # ---- money / size limits
    lit_bs = G.ast_literal_of("pycoin/coins/bitcoin/Tx.py", "MAX_BLOCK_SIZE")
    if lit_bs != MT.MAX_BLOCK_SIZE or type(lit_bs) is not int:
        raise G.GenError("MAX_BLOCK_SIZE literal/live mismatch")
    spc = conv.SATOSHI_PER_COIN
    if spc != int(spc):
        raise G.GenError("SATOSHI_PER_COIN is not integral")

    def ast_money(rel, in_class):
        tree = ast.parse(_src(rel))
        nodes = tree.body
        if in_class:
            nodes = [n for c in tree.body if isinstance(c, ast.ClassDef) and c.name == "Tx" for n in c.body]
        for n in nodes:
            if isinstance(n, ast.Assign) and len(n.targets) == 1 and isinstance(n.targets[0], ast.Name) and n.targets[0].id == "MAX_MONEY":
                v = n.value
                if isinstance(v, ast.BinOp) and isinstance(v.op, ast.Mult) and isinstance(v.left, ast.Constant) \
                        and type(v.left.value) is int and isinstance(v.right, ast.Name) and v.right.id == "SATOSHI_PER_COIN":
                    return v.left.value
                raise G.GenError("MAX_MONEY in %s: unexpected expression %s" % (rel, ast.dump(v)))
        raise G.GenError("no MAX_MONEY assignment in %s" % rel)

    coins_btc = ast_money("pycoin/coins/bitcoin/Tx.py", False)
    coins_grs = ast_money("pycoin/coins/groestlcoin/Tx.py", True)
    classes = [("BTC", MT.Tx, coins_btc), ("BCH", BchTx, coins_btc), ("BTG", BtgTx, coins_btc), ("LTC", LTCTx, coins_btc),
               ("GRS", GrsTx, coins_grs)]
    rows = []
    for name, cls, coins in classes:
        mm = cls.MAX_MONEY
        if mm != int(mm) or int(mm) != coins * int(spc):
            raise G.GenError("%s: MAX_MONEY live %r differs from source %d * SATOSHI_PER_COIN" % (name, mm, coins))
        if type(cls.MAX_TX_SIZE) is not int or cls.MAX_TX_SIZE != MT.MAX_BLOCK_SIZE:
            raise G.GenError("%s: MAX_TX_SIZE %r is not MAX_BLOCK_SIZE" % (name, cls.MAX_TX_SIZE))
        if not issubclass(cls, MT.Tx):
            raise G.GenError("%s: Tx class does not derive from bitcoin Tx" % name)
        for m in CHECK_METHODS + ["bad_solution_count"]:
            if getattr(cls, m) is not getattr(MT.Tx, m):
                raise G.GenError("%s: overrides %s" % (name, m))
        rows.append("(%s, %s, %s, %s)" % (G.coq_bytes(name.encode()), G.coq_Z(int(mm)), G.coq_Z(cls.MAX_TX_SIZE), G.coq_Z(coins)))
    t += "(* per Tx class: (name as ASCII bytes, MAX_MONEY in satoshi, MAX_TX_SIZE, coins in the source literal) *)\n"
    t += "Definition coin_table : list (list byte * Z * Z * Z) :=\n  [ " + ";\n    ".join(rows) + " ].\n"
    for name, _, _ in classes:
        t += "Definition coin_%s : list byte := %s.\n" % (name, G.coq_bytes(name.encode()))
    t += "Definition satoshi_per_coin : Z := %s.\n" % G.coq_Z(int(spc))
    t += "Definition max_block_size : Z := %s.\n\n" % G.coq_Z(lit_bs)
    # ---- coinbase constants: found by PROBING the live code, cross-checked against the integer literals / module
    # constants of the source (so a restructured but equivalent test is still understood, a changed one changes the table)
    if not isinstance(MI.ZERO, bytes):
        raise G.GenError("TxIn.ZERO is not bytes")
    src_ints = _int_literals("pycoin/coins/bitcoin/TxIn.py") | {v for v in vars(MI).values() if type(v) is int}
    cands = sorted({0, 1, 2, 0x7FFFFFFF, 0xFFFFFFFE, 0xFFFFFFFF, 0x100000000, -1} | src_ints)
    null_idx = [i for i in cands if MI.TxIn(MI.ZERO, i).is_coinbase() is True]
    if len(null_idx) != 1 or null_idx[0] not in src_ints:
        raise G.GenError("TxIn.is_coinbase: cannot determine the null index by probing (true for %r)" % (null_idx,))
    for hh in (b"\x01" + MI.ZERO[1:], MI.ZERO[:-1] + b"\x80", MI.ZERO[:-1], MI.ZERO + b"\0", b""):
        if MI.TxIn(hh, null_idx[0]).is_coinbase() is not False:
            raise G.GenError("TxIn.is_coinbase: true for a hash other than ZERO")
    t += "(* TxIn.is_coinbase: true exactly for previous_hash == ZERO and this previous_index (probed; literal in the source) *)\n"
    t += "Definition txin_zero_hash : list byte := %s.\n" % G.coq_bytes(MI.ZERO)
    t += "Definition txin_null_index : Z := %s.\n" % G.coq_Z(null_idx[0])
    from pycoin.coins.exceptions import ValidationFailureError as VFE

    def cb_ok(L):
        tx = MT.Tx(1, [MI.TxIn(MI.ZERO, null_idx[0], b"\x51" * L)], [MT.Tx.TxOut(1, b"")])
        try:
            tx._check_txs_in()
            return True
        except VFE:
            return False
    ok = [L for L in range(0, 400) if cb_ok(L)]
    if not ok or ok != list(range(ok[0], ok[-1] + 1)) or cb_ok(1000) or cb_ok(70000):
        raise G.GenError("_check_txs_in: accepted coinbase script lengths are not one interval: %r" % (ok[:5],))
    tx_ints = _int_literals("pycoin/coins/bitcoin/Tx.py")
    if ok[0] not in tx_ints or ok[-1] not in tx_ints:
        raise G.GenError("_check_txs_in: probed bounds %d..%d are not literals of Tx.py" % (ok[0], ok[-1]))
    bounds = (ok[0], ok[-1])
    t += "(* Tx._check_txs_in: a coinbase script of %d..%d bytes is accepted (probed lengths 0..399, 1000, 70000; literals in the source) *)\n" % bounds
    t += "Definition coinbase_script_min : Z := %s.\nDefinition coinbase_script_max : Z := %s.\n\n" % (G.coq_Z(bounds[0]), G.coq_Z(bounds[1]))
    # ---- which hash each Tx class applies to the witness-stripped serialisation (probed on a transaction WITH witness data)
    import hashlib
    rows = []
    for name, cls, _ in classes:
        ti = cls.TxIn(bytes(range(32)), 1, b"\x51", 7)
        ti.witness = [b"", b"\x30" * 71]
        ptx = cls(2, [ti], [cls.TxOut(5, b"\x6a")], 9)
        stripped = ptx.as_bin(include_witness_data=False)
        full = ptx.as_bin()
        algs = {"dsha256": lambda b: hashlib.sha256(hashlib.sha256(b).digest()).digest(), "sha256": lambda b: hashlib.sha256(b).digest()}
        found = [a for a, f in algs.items() if bytes(ptx.hash()) == f(stripped) and bytes(ptx.w_hash()) == f(full)
                 and bytes(ptx.hash(hash_type=1)) == f(stripped + b"\x01\0\0\0")]
        if len(found) != 1:
            raise G.GenError("%s: Tx.hash/w_hash is neither dsha256 nor sha256 of the stripped/full serialisation" % name)
        rows.append("(%s, %s)" % (G.coq_bytes(name.encode()), G.coq_bytes(found[0].encode())))
    t += "(* per Tx class: the hash applied by hash() to the stripped and by w_hash() to the full serialisation (probed) *)\n"
    t += "Definition coin_hash_alg : list (list byte * list byte) :=\n  [ " + ";\n    ".join(rows) + " ].\n\n"
    # ---- frame scan
    bad = _mutation_scan()
    t += "(* attribute/subscript stores, deletes and mutating calls found in Tx.check, its helpers, is_coinbase *)\n"
    t += "Definition check_mutations : list string := %s.\n" % _coq_str_list(bad)
    # ---- history independence: no OBSERVER method of the transaction classes stores into its object (memoisation,
    # caches, counters), at module level, or is wrapped by a caching decorator
    t += "(* stores to self.<attr> / setattr / __dict__ / global state / caching decorators in every method of Tx (all coin classes),\n"
    t += "   TxIn, TxOut, Spendable except the constructors and the official mutators %s *)\n" % ", ".join(sorted(OFFICIAL_MUTATORS))
    t += "Definition observer_writes : list string := %s.\n" % _coq_str_list(_observer_writes())
    return t


GENERATORS = {"GenTxConsts.v": gen_txconsts}
