"""gens/messages_c16.py — coq/Gen/GenMessages.v for property C16.

Dumps, from the LIVE objects of /repo and cross-checked against the SOURCE (ast), fail-closed:
  std_messages       STANDARD_P2P_MESSAGES as list (name * list (field * type-string))
  alert_layout       the sub-message layout inside make_post_unpack_alert
  registered_chars   the format characters registered in network.message's streamer (sorted)
  post_unpack_names  names that have a post_unpack (sorted)
  ip4_header         PeerAddress.IP4_HEADER
  inv_checked_types  the item types InvItem.__init__ accepts when dont_check is false
The two ways the code splits a layout string (`split()` in _make_parser, `split(" ")` in pack_from_data)
are both executed here and must agree; every item must split at ":" into exactly two parts.
"""
from __future__ import annotations
import ast, os

from gen_tables import GenError, REPO, coq_bytes, coq_str

MPP = "pycoin/message/make_parser_and_packer.py"


def _src_tree(rel):
    return ast.parse(open(os.path.join(REPO, rel)).read())


def _toplevel_literal(tree, name):
    for node in tree.body:
        if isinstance(node, ast.Assign) and len(node.targets) == 1 and isinstance(node.targets[0], ast.Name) \
                and node.targets[0].id == name:
            return ast.literal_eval(node.value)
    raise GenError("no literal assignment %s" % name)


def _split_layout(the_struct: str):
    """both splitters of the code; they must agree"""
    a = [s.split(":") for s in the_struct.split()]             # _make_parser
    if the_struct:
        b = [t.split(":") for t in the_struct.split(" ")]     # pack_from_data
    else:
        b = []                                                  # `if not the_struct: return b""`
    if a != b:
        raise GenError("layout %r splits differently in _make_parser and pack_from_data" % the_struct)
    for it in a:
        if len(it) != 2:
            raise GenError("layout item %r of %r is not name:type" % (it, the_struct))
    return [(n, t) for n, t in a]


def _closure_objects(fn, depth=4, _seen=None):
    """every object reachable from the closure cells of fn (through nested functions, dict values and list/tuple
    items), whatever the local names are: the live cross-checks below look things up by TYPE or VALUE, never by the
    name of a local variable of the implementation"""
    seen = _seen if _seen is not None else set()
    out = []

    def visit(o, d):
        if id(o) in seen or d < 0:
            return
        seen.add(id(o))
        out.append(o)
        if callable(o) and getattr(o, "__closure__", None):
            for c in o.__closure__:
                try:
                    visit(c.cell_contents, d - 1)
                except ValueError:      # empty cell
                    pass
        elif isinstance(o, dict):
            for v in o.values():
                visit(v, d - 1)
        elif isinstance(o, (list, tuple)):
            for v in o:
                visit(v, d - 1)
    for c in (getattr(fn, "__closure__", None) or ()):
        try:
            visit(c.cell_contents, depth)
        except ValueError:
            pass
    return out


def coq_char(c: str) -> str:
    if len(c) != 1 or c == '"' or not (32 < ord(c) < 127):
        raise GenError("unexpected format character %r" % c)
    return '"%s"%%byte' % c


def coq_lit(s: str) -> str:
    """Python str (ASCII) as a Coq `list byte` through the `lit` string notation"""
    if '"' in s or any(ord(c) > 126 or ord(c) < 32 for c in s):
        raise GenError("unexpected character in string %r" % s)
    return 'str "%s"' % s


def coq_layout(pairs) -> str:
    return "[" + "; ".join("(%s, %s)" % (coq_lit(n), coq_lit(t)) for n, t in pairs) + "]"


def gen_messages() -> str:
    from pycoin.message import make_parser_and_packer as M
    from pycoin.message import PeerAddress as PA, InvItem as IV
    from pycoin.symbols.btc import network

    tree = _src_tree(MPP)
    lit = _toplevel_literal(tree, "STANDARD_P2P_MESSAGES")
    live = M.STANDARD_P2P_MESSAGES
    if not isinstance(live, dict) or list(live.items()) != list(lit.items()):
        raise GenError("STANDARD_P2P_MESSAGES: imported value differs from the source literal")
    if M.standard_messages() != live:
        raise GenError("standard_messages() differs from STANDARD_P2P_MESSAGES")
    # what network.message really uses (objects located by type / value in the closures of pack and parse)
    from pycoin.serialize.streamer import Streamer as StreamerBase
    objs = _closure_objects(network.message.pack) + _closure_objects(network.message.parse)
    if not any(isinstance(o, dict) and o == live for o in objs):
        raise GenError("network.message.pack/parse do not hold the STANDARD_P2P_MESSAGES table")
    streamers = []
    for o in objs:
        if isinstance(o, StreamerBase) and not any(o is x for x in streamers):
            streamers.append(o)
    if len(streamers) != 1:
        raise GenError("expected exactly one Streamer behind network.message, found %d" % len(streamers))
    streamer = streamers[0]
    # one parser per message, each built from the names / concatenated types of its layout string
    parser_tables = [o for o in objs if isinstance(o, dict) and sorted(o) == sorted(live) and o != live
                     and all(callable(v) for v in o.values())]
    if len(parser_tables) != 1:
        raise GenError("message parser table not found behind network.message.parse")
    for name, pf in parser_tables[0].items():
        pairs = _split_layout(live[name])
        inner = _closure_objects(pf)
        if not any(o is streamer for o in inner) or not any(isinstance(o, list) and o == [n for n, _ in pairs] for o in inner) \
                or not any(isinstance(o, str) and o == "".join(t for _, t in pairs) for o in inner):
            raise GenError("parser of %s is not built from its layout string" % name)
    # post-processing table: the public constructor, cross-checked with what parse holds
    posts = M.standard_message_post_unpacks(streamer)
    if not isinstance(posts, dict) or not all(isinstance(k, str) and callable(v) for k, v in posts.items()):
        raise GenError("standard_message_post_unpacks shape")
    held = [o for o in objs if isinstance(o, dict) and o is not parser_tables[0] and o != live and sorted(o) == sorted(posts)
            and all(callable(v) for v in o.values())]
    if posts and not held:
        raise GenError("post_unpack table of network.message.parse differs from standard_message_post_unpacks")
    posts = held[0] if held else posts
    if sorted(streamer.parse_lookup) != sorted(streamer.stream_lookup):
        raise GenError("parse_lookup and stream_lookup register different characters")
    if streamer.array_count_parse_f is not M.parse_satoshi_int:
        raise GenError("array count parser is not parse_satoshi_int")
    chars = sorted(streamer.parse_lookup)
    # source side: STREAMER_FUNCTIONS keys + the more_parsing list
    from pycoin.satoshi import satoshi_streamer as SS
    src_chars = set(SS.STREAMER_FUNCTIONS)
    found = False
    for node in ast.walk(tree):
        if isinstance(node, ast.Assign) and len(node.targets) == 1 and isinstance(node.targets[0], ast.Name) \
                and node.targets[0].id == "more_parsing" and isinstance(node.value, ast.List):
            found = True
            for elt in node.value.elts:
                if not (isinstance(elt, ast.Tuple) and isinstance(elt.elts[0], ast.Constant) and isinstance(elt.elts[0].value, str)):
                    raise GenError("more_parsing: unexpected element shape")
                src_chars.add(elt.elts[0].value)
    if not found or sorted(src_chars) != chars:
        raise GenError("registered characters %r differ from the source %r" % (chars, sorted(src_chars)))

    # alert sub-message: literal inside make_post_unpack_alert + live closure
    alert_src = None
    for node in tree.body:
        if isinstance(node, ast.FunctionDef) and node.name == "make_post_unpack_alert":
            for sub in node.body:
                if isinstance(sub, ast.Assign) and isinstance(sub.targets[0], ast.Name) and sub.targets[0].id == "the_struct":
                    alert_src = ast.literal_eval(sub.value)
    if alert_src is None:
        raise GenError("the_struct literal not found in make_post_unpack_alert")
    if not all(isinstance(k, str) for k in posts):
        raise GenError("post_unpack table shape")
    alert_pairs = _split_layout(alert_src)
    if "alert" in posts:
        inner = _closure_objects(posts["alert"])
        if not any(o is streamer for o in inner) or not any(isinstance(o, list) and o == [n for n, _ in alert_pairs] for o in inner) \
                or not any(isinstance(o, str) and o == "".join(t for _, t in alert_pairs) for o in inner):
            raise GenError("alert sub-message parser is not built from the_struct")
    if "merkleblock" in posts and posts["merkleblock"] is not M.post_unpack_merkleblock:
        raise GenError("merkleblock post_unpack is not post_unpack_merkleblock")

    # helper-object constants
    ip4 = PA.IP4_HEADER
    src_pa = open(os.path.join(REPO, "pycoin/message/PeerAddress.py")).read()
    if 'IP4_HEADER = h2b("%s")' % ip4.hex().upper() not in src_pa and 'IP4_HEADER = h2b("%s")' % ip4.hex() not in src_pa:
        raise GenError("IP4_HEADER literal not found in source")
    iv_tree = _src_tree("pycoin/message/InvItem.py")
    consts = {}
    for nm in ("ITEM_TYPE_TX", "ITEM_TYPE_BLOCK", "ITEM_TYPE_MERKLEBLOCK"):
        consts[nm] = _toplevel_literal(iv_tree, nm)
        if getattr(IV, nm) != consts[nm]:
            raise GenError("InvItem.%s differs from the source literal" % nm)

    out = ["(* GENERATED by harness/gens/messages_c16.py from /repo — do not edit. *)\n"
           "From Coq Require Import List NArith ZArith.\nFrom Coq Require Import Strings.Byte.\nImport ListNotations.\n\n"
           "(* Python str (ASCII only) is a `list byte`; `str \"text\"` is the literal (no Coq `string`, so that the\n"
           "   extracted OCaml does not shadow OCaml's own string type) *)\n"
           "Inductive lit := Lit (l : list byte).\n"
           "Definition lit_of (l : list byte) : lit := Lit l.\n"
           "Definition of_lit (x : lit) : list byte := match x with Lit l => l end.\n"
           "Declare Scope lit_scope.\nDelimit Scope lit_scope with lit.\n"
           "String Notation lit lit_of of_lit : lit_scope.\n"
           "Definition str (x : lit) : list byte := of_lit x.\nArguments str x%lit.\n\n"]
    out.append("Definition std_messages : list (list byte * list (list byte * list byte)) :=\n  [ " +
               ";\n    ".join("(%s, %s)" % (coq_lit(k), coq_layout(_split_layout(v))) for k, v in live.items()) + " ].\n\n")
    out.append("Definition alert_layout : list (list byte * list byte) :=\n  %s.\n\n" % coq_layout(alert_pairs))
    out.append("Definition registered_chars : list byte := [" + "; ".join(coq_char(c) for c in chars) + "].\n\n")
    out.append("Definition post_unpack_names : list (list byte) := [" + "; ".join(coq_lit(k) for k in sorted(posts)) + "].\n\n")
    out.append("Definition ip4_header : list byte := %s.\n\n" % coq_bytes(ip4))
    out.append("Definition inv_checked_types : list Z := [" +
               "; ".join("(%d)%%Z" % consts[nm] for nm in ("ITEM_TYPE_TX", "ITEM_TYPE_BLOCK", "ITEM_TYPE_MERKLEBLOCK")) + "].\n")
    return "".join(out)


GENERATORS = {"GenMessages.v": gen_messages}
