"""harness/gens/sighash_c04.py — table generator for C04 (coq/Gen/GenSighashC04.v).

Every constant the signature-hash models use, dumped from the LIVE modules and cross-checked against the
source AST (fail-closed):
  * SIGHASH_ALL/NONE/SINGLE/FORKID/ANYONECANPAY of pycoin/satoshi/flags.py (literal = imported value);
  * FORKID_BTG of BgoldSolutionChecker (class attribute literal = live value) and the shift in `FORKID_BTG << 8`;
  * the masks `hash_type & <literal>` of every comparison in BitcoinSolutionChecker._signature_hash,
    SegwitChecker._hash_sequence/_hash_outputs and their Groestlcoin overrides, keyed by the name they are
    compared with (shape `(hash_type & C) == SIGHASH_X` required);
  * the `1 << 248` of the SIGHASH_SINGLE bug value and the 0xFFFFFFFFFFFFFFFF of the blanked outputs;
  * the bytes of ScriptTools.compile("OP_CODESEPARATOR") and ZERO32;
  * which flag each fork-id guard tests (`hash_type & SIGHASH_FORKID != SIGHASH_FORKID`).
"""
import ast, os
import gen_tables as G


def _cls_func(rel, cls, name):
    tree = ast.parse(open(os.path.join(G.REPO, rel)).read())
    for node in tree.body:
        if isinstance(node, ast.ClassDef) and node.name == cls:
            for f in node.body:
                if isinstance(f, ast.FunctionDef) and f.name == name:
                    return f
    raise G.GenError("%s.%s not found in %s" % (cls, name, rel))


def _cls_attr_literal(rel, cls, name):
    tree = ast.parse(open(os.path.join(G.REPO, rel)).read())
    for node in tree.body:
        if isinstance(node, ast.ClassDef) and node.name == cls:
            for f in node.body:
                if isinstance(f, ast.Assign) and len(f.targets) == 1 and isinstance(f.targets[0], ast.Name) \
                        and f.targets[0].id == name:
                    return ast.literal_eval(f.value)
    raise G.GenError("%s.%s literal not found in %s" % (cls, name, rel))


def _mask_compares(f, what):
    """all `(hash_type & <int literal>) == NAME` comparisons of function f, in source order -> [(NAME, literal)]"""
    out = []
    for n in ast.walk(f):
        if isinstance(n, ast.Compare) and len(n.ops) == 1 and isinstance(n.ops[0], ast.Eq) \
                and isinstance(n.left, ast.BinOp) and isinstance(n.left.op, ast.BitAnd):
            l, r, c = n.left.left, n.left.right, n.comparators[0]
            if not (isinstance(l, ast.Name) and l.id == "hash_type" and isinstance(r, ast.Constant)
                    and type(r.value) is int and isinstance(c, ast.Name)):
                raise G.GenError("%s: unexpected shape of a masked comparison (line %d)" % (what, n.lineno))
            out.append((n.lineno, n.col_offset, c.id, r.value))
    return [(nm, v) for _, _, nm, v in sorted(out)]


def _other_int_masks(f):
    """int literals used as an operand of & anywhere in f (to detect masks outside the expected shape)"""
    res = []
    for n in ast.walk(f):
        if isinstance(n, ast.BinOp) and isinstance(n.op, ast.BitAnd):
            for side in (n.left, n.right):
                if isinstance(side, ast.Constant) and type(side.value) is int:
                    res.append(side.value)
    return res


def _expect(rel, cls, fname, names):
    f = _cls_func(rel, cls, fname)
    got = _mask_compares(f, "%s.%s" % (cls, fname))
    if [g[0] for g in got] != names:
        raise G.GenError("%s.%s: masked comparisons %r, expected against %r" % (cls, fname, got, names))
    if len(_other_int_masks(f)) != len(names):
        raise G.GenError("%s.%s: an integer mask outside the `(hash_type & C) == NAME` comparisons" % (cls, fname))
    return [g[1] for g in got]


def _acp_tests(rel, cls, fname, count):
    """`hash_type & SIGHASH_ANYONECANPAY` used as a truth value: count occurrences"""
    f = _cls_func(rel, cls, fname)
    k = 0
    for n in ast.walk(f):
        if isinstance(n, ast.BinOp) and isinstance(n.op, ast.BitAnd) and isinstance(n.left, ast.Name) \
                and n.left.id == "hash_type" and isinstance(n.right, ast.Name):
            if n.right.id != "SIGHASH_ANYONECANPAY":
                raise G.GenError("%s.%s: hash_type & %s" % (cls, fname, n.right.id))
            k += 1
    if k != count:
        raise G.GenError("%s.%s: %d ANYONECANPAY tests, expected %d" % (cls, fname, k, count))


def _forkid_guard(rel, cls, fname):
    """`if hash_type & SIGHASH_FORKID != SIGHASH_FORKID: raise self.ScriptError()` must be the first statement"""
    f = _cls_func(rel, cls, fname)
    body = [s for s in f.body if not (isinstance(s, ast.Expr) and isinstance(s.value, ast.Constant))]
    s = body[0]
    ok = (isinstance(s, ast.If) and isinstance(s.test, ast.Compare) and len(s.test.ops) == 1
          and isinstance(s.test.ops[0], ast.NotEq)
          and isinstance(s.test.left, ast.BinOp) and isinstance(s.test.left.op, ast.BitAnd)
          and isinstance(s.test.left.left, ast.Name) and s.test.left.left.id == "hash_type"
          and isinstance(s.test.left.right, ast.Name) and s.test.left.right.id == "SIGHASH_FORKID"
          and isinstance(s.test.comparators[0], ast.Name) and s.test.comparators[0].id == "SIGHASH_FORKID"
          and len(s.body) == 1 and isinstance(s.body[0], ast.Raise) and not s.orelse)
    if not ok:
        raise G.GenError("%s.%s: the fork-id guard is not the first statement / has an unexpected shape" % (cls, fname))


def gen_sighash():
    from pycoin.satoshi import flags
    from pycoin.coins.bitcoin.SolutionChecker import BitcoinSolutionChecker as BSC
    from pycoin.coins.bitcoin import SegwitChecker as SWM
    from pycoin.coins.bgold.SolutionChecker import BgoldSolutionChecker as BG
    from pycoin.coins.bitcoin.ScriptTools import BitcoinScriptTools as T
    names = ["SIGHASH_ALL", "SIGHASH_NONE", "SIGHASH_SINGLE", "SIGHASH_FORKID", "SIGHASH_ANYONECANPAY"]
    vals = {}
    for n in names:
        lit = G.ast_literal_of("pycoin/satoshi/flags.py", n)
        if lit != getattr(flags, n) or type(lit) is not int:
            raise G.GenError("flags.%s literal/live mismatch" % n)
        vals[n] = lit
    fk = _cls_attr_literal("pycoin/coins/bgold/SolutionChecker.py", "BgoldSolutionChecker", "FORKID_BTG")
    if fk != BG.FORKID_BTG or type(fk) is not int:
        raise G.GenError("FORKID_BTG literal/live mismatch")
    # `hash_type |= self.FORKID_BTG << 8`
    f = _cls_func("pycoin/coins/bgold/SolutionChecker.py", "BgoldSolutionChecker", "_signature_for_hash_type_segwit")
    shifts = [n.right.value for n in ast.walk(f) if isinstance(n, ast.BinOp) and isinstance(n.op, ast.LShift)
              and isinstance(n.right, ast.Constant)]
    augs = [n for n in ast.walk(f) if isinstance(n, ast.AugAssign)]
    if len(shifts) != 1 or len(augs) != 1 or not isinstance(augs[0].op, ast.BitOr):
        raise G.GenError("Bgold._signature_for_hash_type_segwit: unexpected fork-id folding")
    for cls, rel, fn in [("BgoldSolutionChecker", "pycoin/coins/bgold/SolutionChecker.py", "_signature_hash"),
                         ("BgoldSolutionChecker", "pycoin/coins/bgold/SolutionChecker.py", "_signature_for_hash_type_segwit"),
                         ("BcashSolutionChecker", "pycoin/coins/bcash/SolutionChecker.py", "_signature_hash")]:
        _forkid_guard(rel, cls, fn)
    # legacy
    rel = "pycoin/coins/bitcoin/SolutionChecker.py"
    leg = _expect(rel, "BitcoinSolutionChecker", "_signature_hash", ["SIGHASH_NONE", "SIGHASH_SINGLE"])
    _acp_tests(rel, "BitcoinSolutionChecker", "_signature_hash", 1)
    f = _cls_func(rel, "BitcoinSolutionChecker", "_signature_hash")
    lsh = [(n.left.value, n.right.value) for n in ast.walk(f) if isinstance(n, ast.BinOp) and isinstance(n.op, ast.LShift)
           and isinstance(n.left, ast.Constant) and isinstance(n.right, ast.Constant)]
    if len(lsh) != 1:
        raise G.GenError("_signature_hash: expected exactly one literal shift (the SIGHASH_SINGLE value)")
    big = [n.value for n in ast.walk(f) if isinstance(n, ast.Constant) and type(n.value) is int and n.value > 0xFFFF]
    if len(big) != 1:
        raise G.GenError("_signature_hash: expected exactly one large literal (the blank output value), got %r" % big)
    # segwit + groestl
    out = {}
    for tag, rel, cls in [("sw", "pycoin/coins/bitcoin/SegwitChecker.py", "SegwitChecker"),
                          ("grs", "pycoin/coins/groestlcoin/SolutionChecker.py", "GroestlcoinSolutionChecker")]:
        out[tag + "_seq"] = _expect(rel, cls, "_hash_sequence", ["SIGHASH_SINGLE", "SIGHASH_NONE"])
        out[tag + "_out"] = _expect(rel, cls, "_hash_outputs", ["SIGHASH_SINGLE", "SIGHASH_NONE"])
        _expect(rel, cls, "_hash_prevouts", [])
        _acp_tests(rel, cls, "_hash_prevouts", 1)
        _acp_tests(rel, cls, "_hash_sequence", 1)
        _acp_tests(rel, cls, "_hash_outputs", 0)
    cs = T.compile("OP_CODESEPARATOR")
    z = SWM.ZERO32
    if not isinstance(cs, bytes) or not isinstance(z, bytes):
        raise G.GenError("OP_CODESEPARATOR / ZERO32 not bytes")
    import pycoin.coins.groestlcoin.SolutionChecker as GM
    if GM.ZERO32 is not z:
        raise G.GenError("groestlcoin ZERO32 is not bitcoin's")
    t = G.HEADER
    t += "(* pycoin/satoshi/flags.py *)\n"
    for n in names:
        t += "Definition gen_%s : N := %s.\n" % (n.lower(), G.coq_N(vals[n]))
    t += "(* BgoldSolutionChecker.FORKID_BTG and the shift of `hash_type |= FORKID_BTG << s` *)\n"
    t += "Definition gen_forkid_btg : N := %s.\nDefinition gen_forkid_shift : N := %s.\n" % (G.coq_N(fk), G.coq_N(shifts[0]))
    t += "(* BitcoinSolutionChecker._signature_hash: masks of the NONE and SINGLE tests, `a << b` of the SINGLE value, blank amount *)\n"
    t += "Definition gen_legacy_mask_none : N := %s.\nDefinition gen_legacy_mask_single : N := %s.\n" % (G.coq_N(leg[0]), G.coq_N(leg[1]))
    t += "Definition gen_single_value_base : N := %s.\nDefinition gen_single_value_shift : N := %s.\n" % (G.coq_N(lsh[0][0]), G.coq_N(lsh[0][1]))
    t += "Definition gen_blank_amount : N := %s.\n" % G.coq_N(big[0])
    t += "(* SegwitChecker / GroestlcoinSolutionChecker: masks of (SINGLE, NONE) tests in _hash_sequence and _hash_outputs *)\n"
    for k in ("sw_seq", "sw_out", "grs_seq", "grs_out"):
        t += "Definition gen_%s_mask_single : N := %s.\nDefinition gen_%s_mask_none : N := %s.\n" % (
            k, G.coq_N(out[k][0]), k, G.coq_N(out[k][1]))
    t += "(* ScriptTools.compile(\"OP_CODESEPARATOR\"), ZERO32 *)\n"
    t += "Definition gen_codeseparator : list byte := %s.\n" % G.coq_bytes(cs)
    t += "Definition gen_zero32 : list byte := %s.\n" % G.coq_bytes(z)
    return t


GENERATORS = {"GenSighashC04.v": gen_sighash}
