"""coq/Gen/GenFlags.v: verification flag bits, sighash constants, sequence flags, VM limits,
and the opcode -> handler-name map of BitcoinVM.INSTRUCTION_LOOKUP (with outside_conditional marks)."""
import ast, os
from gen_tables import GenError, HEADER, coq_N, coq_str, REPO


def _module_int_constants(relpath):
    src = open(os.path.join(REPO, relpath)).read()
    out = {}
    for node in ast.parse(src).body:
        if isinstance(node, ast.Assign) and len(node.targets) == 1 and isinstance(node.targets[0], ast.Name):
            try:
                v = eval(compile(ast.Expression(node.value), relpath, "eval"), {"__builtins__": {}}, dict(out))
            except Exception:
                continue
            if isinstance(v, int):
                out[node.targets[0].id] = v
    return out


def gen_flags():
    from pycoin.satoshi import flags
    from pycoin.coins.bitcoin.VM import BitcoinVM
    from pycoin.coins.bitcoin.SolutionChecker import BitcoinSolutionChecker
    src = _module_int_constants("pycoin/satoshi/flags.py")
    out = [HEADER]
    names = [n for n in dir(flags) if n.isupper() and isinstance(getattr(flags, n), int)]
    for n in sorted(names):
        v = getattr(flags, n)
        if src.get(n) != v:
            raise GenError("flags.%s: source %r vs live %r" % (n, src.get(n), v))
        out.append("Definition %s : N := %s.\n" % (n, coq_N(v)))
    for n in ("MAX_SCRIPT_LENGTH", "MAX_BLOB_LENGTH", "MAX_OP_COUNT", "MAX_STACK_SIZE"):
        out.append("Definition %s : N := %s.\n" % (n, coq_N(getattr(BitcoinVM, n))))
    out.append("Definition DEFAULT_FLAGS : N := %s.\n" % coq_N(BitcoinSolutionChecker.DEFAULT_FLAGS))
    # handler map
    rows = []
    for op in range(256):
        f = BitcoinVM.INSTRUCTION_LOOKUP[op]
        name = getattr(f, "__name__", "?")
        qual = getattr(f, "__qualname__", name)
        oc = bool(getattr(f, "outside_conditional", False))
        rows.append("(%s, %s, %s)" % (coq_N(op), coq_str(qual.replace("<", "_").replace(">", "_")), "true" if oc else "false"))
    out.append("\n(* opcode, qualified name of the handler bound in BitcoinVM.INSTRUCTION_LOOKUP, outside_conditional *)\n")
    out.append("Definition handler_table : list (N * string * bool) :=\n  [ " + ";\n    ".join(rows) + " ].\n")
    return "".join(out)


GENERATORS = {"GenFlags.v": gen_flags}
