"""c04_history.py — histories on ONE transaction object and ONE SolutionChecker object (property C04).

A history is a list of operations: observers (every method whose result could be memoised) and mutators (direct attribute
assignment, list append / pop / clear / del, rebinding a list, the official setter set_unspents).  The implementation
executes it on one Tx + one checker; every observation is compared with
  (spec)  the Python transcription of Spec/SighashCore.v evaluated on the CURRENT fields (kept as plain data, updated by
          the same mutators) — independent of every pycoin object, so a cache shared between objects is seen too;
  (fresh) a fresh checker on a transaction rebuilt from the current fields (also for out-of-range fields, where the
          exception class must agree).
The model side (Model/SighashHistory.v `run`, driver command `history`) runs the same list.
"""
import enum, copy
from common import canon, exn_tag


class _HT(enum.IntEnum):
    ALL = 1
    NONE = 2
    SINGLE = 3
    ACP_SINGLE = 0x83


class _Int(int):
    pass


OBSERVERS = ("L", "S", "P", "HP", "HS", "HO", "TH", "BH")


def is_observer(op):
    return op[0] in OBSERVERS


# ---- wire form of an op for the driver ------------------------------------------------------------------
def _vs(o):
    return "N" if o is None else "%x-%s" % (o[0], o[1].hex())


def op_token(op):
    k = op[0]
    if k in ("L", "S", "P"):
        return "%s:%s:%x:%x" % (k, op[1].hex(), op[2], op[3])
    if k in ("HP", "HS"):
        return "%s:%x" % (k, op[1])
    if k == "HO":
        return "HO:%x:%x" % (op[1], op[2])
    if k == "TH":
        return "TH:" + ("" if op[1] is None else "%x" % op[1])
    if k in ("BH", "op", "oc"):
        return k
    if k in ("mv", "ml"):
        return "%s:%x" % (k, op[1])
    if k in ("mh", "ms", "os"):
        return "%s:%x:%s" % (k, op[1], op[2].hex())
    if k in ("mi", "mq", "ov"):
        return "%s:%x:%x" % (k, op[1], op[2])
    if k == "ia":
        h, i, s, q = op[1]
        return "ia:%s:%x:%s:%x" % (h.hex(), i, s.hex(), q)
    if k == "id":
        return "id:%x" % op[1]
    if k == "oa":
        return "oa:%x:%s" % (op[1][0], op[1][1].hex())
    if k == "or":
        return "or:" + "/".join(_vs(o) for o in op[1])
    if k == "us":
        return "us:" + "/".join(_vs(o) for o in op[1])
    if k == "u1":
        return "u1:%x:%s" % (op[1], _vs(op[2]))
    raise ValueError(op)


def ops_token(ops):
    return ";".join(op_token(o) for o in ops)


def op_json(op):
    def j(x):
        if isinstance(x, (bytes, bytearray)):
            return {"b": bytes(x).hex()}
        if isinstance(x, (tuple, list)):
            return [j(y) for y in x]
        return x
    return [j(x) for x in op]


def op_unjson(l):
    def u(x):
        if isinstance(x, dict):
            return bytes.fromhex(x["b"])
        if isinstance(x, list):
            return tuple(u(y) for y in x)
        return x
    r = [u(x) for x in l]
    if r[0] in ("or", "us"):
        r[1] = list(r[1])
    return tuple(r)


def parse_ops_token(tok):
    """inverse of ops_token (for search() on a disagreeing driver line)"""
    def vs(x):
        if x == "N":
            return None
        v, s = x.split("-")
        return (int(v or "0", 16), bytes.fromhex(s))
    res = []
    for t in tok.split(";"):
        f = t.split(":")
        k = f[0]
        hx = lambda x: int(x or "0", 16)
        if k in ("L", "S", "P"):
            res.append((k, bytes.fromhex(f[1]), hx(f[2]), hx(f[3])))
        elif k in ("HP", "HS", "mv", "ml", "id"):
            res.append((k, hx(f[1])))
        elif k == "HO":
            res.append((k, hx(f[1]), hx(f[2])))
        elif k == "TH":
            res.append((k, None if f[1] == "" else hx(f[1])))
        elif k in ("BH", "op", "oc"):
            res.append((k,))
        elif k in ("mh", "ms", "os"):
            res.append((k, hx(f[1]), bytes.fromhex(f[2])))
        elif k in ("mi", "mq", "ov"):
            res.append((k, hx(f[1]), hx(f[2])))
        elif k == "ia":
            res.append((k, (bytes.fromhex(f[1]), hx(f[2]), bytes.fromhex(f[3]), hx(f[4]))))
        elif k == "oa":
            res.append((k, (hx(f[1]), bytes.fromhex(f[2]))))
        elif k in ("or", "us"):
            res.append((k, [vs(x) for x in f[1].split("/")] if f[1] else []))
        elif k == "u1":
            res.append((k, hx(f[1]), vs(f[2])))
        else:
            raise ValueError(t)
    return res


# ---- the mutators on plain data (the "current fields") -----------------------------------------------------
def apply_data(t, op):
    """apply a mutator to the plain-data transaction; returns None (done) or the exception tag the object version raises"""
    k = op[0]
    try:
        if k == "mv":
            t["v"] = op[1]
        elif k == "ml":
            t["lock"] = op[1]
        elif k in ("mh", "mi", "ms", "mq"):
            pos = {"mh": 0, "mi": 1, "ms": 2, "mq": 3}[k]
            cur = list(t["ins"][op[1]])
            cur[pos] = op[2]
            t["ins"][op[1]] = tuple(cur)
        elif k == "ia":
            t["ins"].append(tuple(op[1]))
        elif k == "id":
            del t["ins"][op[1]]
        elif k == "ov":
            t["outs"][op[1]] = (op[2], t["outs"][op[1]][1])
        elif k == "os":
            t["outs"][op[1]] = (t["outs"][op[1]][0], op[2])
        elif k == "oa":
            t["outs"].append(tuple(op[1]))
        elif k == "op":
            t["outs"].pop()
        elif k == "oc":
            t["outs"] = []
        elif k == "or":
            t["outs"] = [tuple(o) for o in op[1]]
        elif k == "us":
            if len(op[1]) != len(t["ins"]):
                raise ValueError("wrong number of unspents")
            t["uns"] = [None if u is None else tuple(u) for u in op[1]]
        elif k == "u1":
            t["uns"][op[1]] = None if op[2] is None else tuple(op[2])
        else:
            raise KeyError(k)
    except IndexError:
        return "!E_INDEX"
    except ValueError:
        return "!E_VALUE"
    return None


def apply_obj(tx, op):
    """the same mutator on the real objects, written the way a caller would"""
    T = type(tx)
    k = op[0]
    if k == "mv":
        tx.version = op[1]
    elif k == "ml":
        tx.lock_time = op[1]
    elif k == "mh":
        tx.txs_in[op[1]].previous_hash = op[2]
    elif k == "mi":
        tx.txs_in[op[1]].previous_index = op[2]
    elif k == "ms":
        tx.txs_in[op[1]].script = op[2]
    elif k == "mq":
        tx.txs_in[op[1]].sequence = op[2]
    elif k == "ia":
        tx.txs_in.append(T.TxIn(*op[1]))
    elif k == "id":
        del tx.txs_in[op[1]]
    elif k == "ov":
        tx.txs_out[op[1]].coin_value = op[2]
    elif k == "os":
        tx.txs_out[op[1]].script = op[2]
    elif k == "oa":
        tx.txs_out.append(T.TxOut(*op[1]))
    elif k == "op":
        tx.txs_out.pop()
    elif k == "oc":
        tx.txs_out.clear()
    elif k == "or":
        tx.txs_out = [T.TxOut(*o) for o in op[1]]
    elif k == "us":
        tx.set_unspents([None if u is None else T.TxOut(*u) for u in op[1]])
    elif k == "u1":
        tx.unspents[op[1]] = None if op[2] is None else T.TxOut(*op[2])
    else:
        raise KeyError(k)


def observe_obj(tx, sc, op):
    k = op[0]
    if k == "L":
        return sc._signature_hash(op[1], op[2], op[3])
    if k == "S":
        return sc._signature_for_hash_type_segwit(op[1], op[2], op[3])
    if k == "P":
        return bytes(sc._segwit_signature_preimage(op[1], op[2], op[3]))
    if k == "HP":
        return bytes(sc._hash_prevouts(op[1]))
    if k == "HS":
        return bytes(sc._hash_sequence(op[1]))
    if k == "HO":
        return bytes(sc._hash_outputs(op[1], op[2]))
    if k == "TH":
        return bytes(tx.hash(op[1]) if op[1] is not None else tx.hash())
    if k == "BH":
        return bytes(tx.blanked_hash())
    raise KeyError(k)


def _c(f, *a):
    try:
        return canon(f(*a))
    except Exception as e:  # noqa
        return "!" + exn_tag(e)


def exec_history(build, coin, t, ops, other=None):
    """run ops on one Tx + one checker of class `coin`.  other = (coin2, ops2): a second history on another class is
    interleaved op by op (its results are dropped) — module/class-level state must not leak between classes."""
    tx = build(coin, copy.deepcopy(t))
    sc = tx.SolutionChecker(tx)
    o_tx = o_sc = None
    o_ops = []
    if other:
        o_tx = build(other[0], copy.deepcopy(t))
        o_sc = o_tx.SolutionChecker(o_tx)
        o_ops = list(other[1])
    out = []
    for n, op in enumerate(ops):
        if n < len(o_ops):
            try:
                if is_observer(o_ops[n]):
                    observe_obj(o_tx, o_sc, o_ops[n])
                else:
                    apply_obj(o_tx, o_ops[n])
            except Exception:
                pass
        if is_observer(op):
            out.append(_c(observe_obj, tx, sc, op))
        else:
            try:
                apply_obj(tx, op)
                out.append("D")
            except Exception as e:  # noqa
                out.append("!" + exn_tag(e))
    return out


# ---- reference on the current fields -------------------------------------------------------------------------
def data_wf(t):
    return (0 <= t["v"] < 2 ** 32 and 0 <= t["lock"] < 2 ** 32
            and all(len(h) == 32 and 0 <= i < 2 ** 32 and 0 <= q < 2 ** 32 for h, i, s, q in t["ins"])
            and all(0 <= v < 2 ** 64 for v, s in t["outs"]))


def make_ref(R):
    """R: the c04 module (pyref functions).  returns ref(coin, t, op) -> canonical string or None when the spec does not apply"""
    def ser_tx(t, blank, ht):
        out = R.r_le(t["v"], 4) + R.r_compact(len(t["ins"]))
        for h, i, s, q in t["ins"]:
            s = b"" if blank else s
            out += h + R.r_le(i, 4) + R.r_compact(len(s)) + s + R.r_le(q, 4)
        out += R.r_compact(len(t["outs"])) + b"".join(R.r_ser_out(o) for o in t["outs"]) + R.r_le(t["lock"], 4)
        if ht is not None:
            out += R.r_le(ht, 4)
        return out

    def ref(coin, t, op):
        if not data_wf(t):
            return None
        H = R.sha if coin == "GRS" else R.dsha
        k = op[0]
        z = b"\x00" * 32
        if k in ("HP", "HS", "HO"):
            ht = op[1]
            if not 0 <= ht < 2 ** 64:
                return None
            acp, base = ht & 0x80, ht & 31
            if k == "HP":
                return canon(z if acp else H(b"".join(h + R.r_le(i, 4) for h, i, s, q in t["ins"])))
            if k == "HS":
                return canon(z if (acp or base in (2, 3)) else H(b"".join(R.r_le(q, 4) for h, i, s, q in t["ins"])))
            idx = op[2]
            if base == 3:
                return canon(H(R.r_ser_out(t["outs"][idx])) if idx < len(t["outs"]) else z)
            if base == 2:
                return canon(z)
            return canon(H(b"".join(R.r_ser_out(o) for o in t["outs"])))
        if k == "TH":
            if op[1] is not None and not 0 <= op[1] < 2 ** 32:
                return None
            return canon(H(ser_tx(t, False, op[1])))
        if k == "BH":
            return canon(H(ser_tx(t, True, None)))
        script, idx, ht = op[1], op[2], op[3]
        if not (0 <= ht < 2 ** 32 and idx < len(t["ins"])):
            return None
        if k == "L" and coin in ("BTC", "LTC", "GRS"):
            c, v = R.r_legacy(script, t, idx, ht)
            return canon(int.from_bytes(v if c == "C" else H(v), "big"))
        # everything else needs the spent output
        if coin in ("BCH", "BTG") and (k == "L" or (k == "S" and coin == "BTG")):
            if ht & 0x40 == 0:
                return "!E_SCRIPT"
        if not (idx < len(t["uns"]) and t["uns"][idx] is not None and 0 <= t["uns"][idx][0] < 2 ** 64):
            return None
        amount = t["uns"][idx][0]
        if k == "P":
            return canon(R.r_bip143(H, script, t, idx, amount, ht))
        fold = ht | (79 << 8) if coin == "BTG" else ht
        return canon(int.from_bytes(H(R.r_bip143(H, script, t, idx, amount, fold)), "big"))
    return ref


def check_history(R, coin, t, ops, other=None):
    """-> None or a failure dict.  Every observation vs the spec on the current fields and vs a fresh checker."""
    ref = make_ref(R)
    got = exec_history(R.build, coin, t, ops, other)
    cur = copy.deepcopy(t)
    for n, op in enumerate(ops):
        if is_observer(op):
            want = ref(coin, cur, op)
            which = "spec on the current fields"
            if want is None:
                which = "fresh checker on a transaction rebuilt from the current fields"
                ftx = R.build(coin, copy.deepcopy(cur))
                want = _c(observe_obj, ftx, ftx.SolutionChecker(ftx), op)
            if got[n] != want:
                return {"kind": "history-dependent-digest", "coin": coin, "position": n, "op": op_json(op),
                        "got": got[n][:200], "required": want[:200], "reference": which,
                        "earlier_ops": [op_token(o)[:80] for o in ops[:n]][-8:]}
        else:
            want = apply_data(cur, op) or "D"
            if got[n] != want:
                return {"kind": "mutator-result", "coin": coin, "position": n, "op": op_json(op), "got": got[n], "required": want}
    return None


# ---- generators -------------------------------------------------------------------------------------------------
HT_POOL = [1, 2, 3, 3, 3, 0x81, 0x82, 0x83, 0x83, 0x41, 0x43, 0x43, 0xC1, 0xC3, 0x23, 0x63, 0xE3, 0, 0x1F, 0x04]


def gen_history(rng, gen_script, wf=True, n_ops=None):
    """-> (tx data, ops).  wf: all fields stay in range and indices valid (so that the spec reference applies everywhere)"""
    nin = rng.choice([2, 2, 3, 3, 4, 5])
    nout = rng.choice([0, 1, 2, nin, nin, nin + 1, 5])
    u32 = lambda: rng.choice([0, 1, 0xFFFFFFFF, 0xFFFFFFFE, rng.getrandbits(32), rng.getrandbits(8)])
    u64 = lambda: rng.choice([0, 1, 546, 5000000000, (1 << 64) - 1, rng.getrandbits(40)])
    rh = lambda: bytes(rng.getrandbits(8) for _ in range(32))
    sc = lambda: gen_script(rng, [], 0.05 if not wf else 0.0)
    t = {"v": u32(), "lock": u32(),
         "ins": [(rh(), u32(), sc() if rng.random() < 0.5 else b"", u32()) for _ in range(nin)],
         "outs": [(u64(), sc()) for _ in range(nout)],
         "uns": [(u64(), sc()) for _ in range(nin)]}
    scripts = [gen_script(rng, [], 0.1) for _ in range(3)]
    cur = copy.deepcopy(t)
    ops = []
    n_ops = n_ops or rng.randint(6, 16)
    bad = lambda p: (not wf) and rng.random() < p
    while len(ops) < n_ops:
        ni, no = len(cur["ins"]), len(cur["outs"])
        r = rng.random()
        if r < 0.72 and ni > 0:
            idx = rng.randrange(ni) if not bad(0.08) else ni + rng.randint(0, 1)
            ht = rng.choice(HT_POOL) if rng.random() < 0.85 else rng.getrandbits(8)
            if bad(0.04):
                ht = rng.choice([1 << 32, (1 << 32) + 3, 0x100000083])
            k = rng.choice(["S", "S", "S", "L", "L", "P", "HO", "HO", "HP", "HS", "TH", "BH"])
            s = rng.choice(scripts)
            if k in ("L", "S", "P"):
                op = (k, s, idx, ht)
            elif k in ("HP", "HS"):
                op = (k, ht)
            elif k == "HO":
                op = (k, ht, idx)
            elif k == "TH":
                op = (k, rng.choice([None, None, ht]))
            else:
                op = (k,)
            ops.append(op)
            # the seeded pattern and its relatives: the same observer again for another input / the same input
            if k in ("S", "L", "P", "HO") and rng.random() < 0.5 and ni > 1:
                j = rng.choice([x for x in range(ni) if x != idx] or [0])
                ht2 = rng.choice([ht, ht ^ 0x80, ht | 0x40, (ht & ~31) | 3])
                ops.append((k, ht2, j) if k == "HO" else (k, rng.choice([s, s, rng.choice(scripts)]), j, ht2))
            continue
        m = rng.choice(["mv", "ml", "mh", "mi", "ms", "mq", "ia", "id", "ov", "os", "oa", "op", "oc", "or", "us", "u1"])
        kin = rng.randrange(ni) if ni and not bad(0.2) else ni
        kout = rng.randrange(no) if no and not bad(0.2) else no
        if m == "mv":
            op = (m, u32() if not bad(0.1) else 1 << 32)
        elif m == "ml":
            op = (m, u32())
        elif m == "mh":
            op = (m, kin, rh() if not bad(0.2) else rh()[:31])
        elif m == "mi":
            op = (m, kin, u32())
        elif m == "ms":
            op = (m, kin, sc())
        elif m == "mq":
            op = (m, kin, u32() if not bad(0.1) else 1 << 32)
        elif m == "ia":
            op = (m, (rh(), u32(), b"", u32()))
        elif m == "id":
            op = (m, kin)
        elif m == "ov":
            op = (m, kout, u64() if not bad(0.1) else 1 << 64)
        elif m == "os":
            op = (m, kout, sc())
        elif m == "oa":
            op = (m, (u64(), sc()))
        elif m in ("op", "oc"):
            op = (m,)
        elif m == "or":
            op = (m, [(u64(), sc()) for _ in range(rng.choice([0, 1, ni, ni + 1]))])
        elif m == "us":
            n = ni if not bad(0.3) else ni + 1
            op = (m, [(u64(), sc()) if not bad(0.1) else None for _ in range(n)])
        else:
            op = (m, kin, (u64(), sc()) if not bad(0.2) else None)
        if wf:
            # keep the history inside the domain of the spec: valid positions, at least one input, unspents in step
            if m in ("mh", "mi", "ms", "mq", "id", "u1") and kin >= ni:
                continue
            if m in ("ov", "os") and kout >= no:
                continue
            if m == "op" and no == 0:
                continue
            if m == "id" and ni <= 1:
                continue
        trial = copy.deepcopy(cur)
        apply_data(trial, op)
        if wf and m in ("ia", "id"):
            # the unspents follow the inputs (as a caller that edits the inputs must do)
            cur = trial
            ops.append(op)
            fix = ("us", [(u64(), sc()) for _ in range(len(cur["ins"]))])
            apply_data(cur, fix)
            ops.append(fix)
            continue
        cur = trial
        ops.append(op)
    return t, ops


def pair_histories(t, scripts):
    """exhaustive small domain: every ordered pair of (entry, input, hash type) observations on one checker"""
    ni = len(t["ins"])
    obs = []
    for k in ("S", "L", "HO", "P"):
        for i in range(ni):
            for ht in (1, 2, 3, 0x81, 0x83, 0x43, 0xC3):
                obs.append((k, ht, i) if k == "HO" else (k, scripts[i % len(scripts)], i, ht))
    return obs


# ---- presentations ------------------------------------------------------------------------------------------------
def check_presentations(R, coin, t, script, idx, ht):
    """the same arguments in other legal Python presentations: equal digest, or a refusal — never another digest.
    Out-of-range hash types: struct.error (the SIGHASH_SINGLE constant is returned before anything is packed)."""
    import struct
    for entry in ("L", "S"):
        def call(s, i, h, tt=t):
            tx = R.build(coin, copy.deepcopy(tt))
            sc = tx.SolutionChecker(tx)
            f = sc._signature_hash if entry == "L" else sc._signature_for_hash_type_segwit
            return f(s, i, h)
        try:
            base = call(script, idx, ht)
        except Exception as e:  # noqa
            base = "!" + exn_tag(e)
        variants = [("script:bytearray", (bytearray(script), idx, ht)), ("script:memoryview", (memoryview(script), idx, ht)),
                    ("hash_type:int-subclass", (script, idx, _Int(ht))), ("idx:int-subclass", (script, _Int(idx), ht))]
        if ht in (1, 2, 3, 0x83):
            variants.append(("hash_type:IntEnum", (script, idx, _HT(ht))))
        if ht == 1:
            variants.append(("hash_type:True", (script, idx, True)))
        if idx in (0, 1):
            variants.append(("idx:bool", (script, bool(idx), ht)))
        for name, a in variants:
            try:
                r = call(*a)
            except Exception:
                continue                      # a refusal is acceptable
            if r != base:
                return {"kind": "presentation-dependent-digest", "coin": coin, "entry": entry, "variant": name,
                        "got": r if isinstance(r, str) else "%x" % r, "canonical": base if isinstance(base, str) else "%x" % base}
        # bytearray outpoint hash inside the transaction
        t2 = copy.deepcopy(t)
        t2["ins"] = [(bytearray(h), i, s, q) for h, i, s, q in t2["ins"]]
        try:
            r = call(script, idx, ht, t2)
            if r != base:
                return {"kind": "presentation-dependent-digest", "coin": coin, "entry": entry, "variant": "previous_hash:bytearray",
                        "got": "%x" % r, "canonical": base if isinstance(base, str) else "%x" % base}
        except Exception:
            pass
        # out-of-range hash types must be refused
        for bad in (ht + (1 << 32), ht - (1 << 32), -1, 1 << 40):
            single_bug = entry == "L" and coin in ("BTC", "LTC", "GRS") and (bad & 31) == 3 and idx >= len(t["outs"])
            try:
                r = call(script, idx, bad)
            except (struct.error, OverflowError):
                continue
            except Exception as e:  # noqa
                if type(e).__name__ == "ScriptError" and coin in ("BCH", "BTG"):
                    continue
                return {"kind": "out-of-range-hash-type-wrong-exception", "coin": coin, "entry": entry, "hash_type": bad,
                        "raised": type(e).__name__}
            if not (single_bug and r == 1 << 248):
                return {"kind": "out-of-range-hash-type-accepted", "coin": coin, "entry": entry, "hash_type": bad, "got": "%x" % r}
    return None
