"""common.py — shared machinery of the /verif checks (see DESIGN.md sections 2 and 4).

Runs under /venv/bin/python with PYTHONPATH=/repo:/verif/harness and PYTHONHASHSEED=0 (set by ./check).
"""
from __future__ import annotations
import os, sys, json, time, subprocess, random, hashlib, hmac, fcntl, re, glob, traceback, importlib

VERIF = os.path.dirname(os.path.dirname(os.path.abspath(__file__)))
REPO = os.environ.get("VERIF_REPO", "/repo")
COQ = os.path.join(VERIF, "coq")
ML = os.path.join(VERIF, "ml")
MLSRC = os.path.join(VERIF, "ml_src")
EVID = os.environ.get("VERIF_EVIDENCE_DIR") or os.path.join(VERIF, "evidence")   # seeded runs (harness/run_seed.py) write elsewhere
FINDINGS = os.path.join(VERIF, "findings")
KNOWN_FILE = os.path.join(VERIF, "KNOWN_FINDINGS.txt")
LOCK = os.path.join(VERIF, ".build.lock")
PY = "/venv/bin/python"

GLOBAL_TRUSTED_BASE = [
    "Coq 8.16.1 kernel (coqc); vm_compute used for finite sweeps and witnesses; native_compute not used",
    "no Axiom/Parameter/Admitted in /verif/coq (grep gate in ./check); Print Assumptions output per theorem recorded below",
    "hand-written Gallina models of the Python functions named in DESIGN.md section 6, tied to /repo by the correspondence run of this check",
    "harness/gen_tables.py (tables regenerated from /repo on every run; when a generator does not understand a changed source shape the committed coq/GenBaseline table is used and the run says so: coverage.translator_fallback)",
    "primality/order certificates (Proofs/CurvePrimes.v, CurveOrder*.v) were found with sympy outside Coq and are untrusted: every step is re-checked by the kernel; Proofs/EcAssocAlg.v uses `Set Primitive Projections` for one record (no kernel check is switched off)",
    "extraction with ExtrOcamlBasic directives only (its Extract Inductive for bool, option, unit, list, prod, sumbool, sumor and Extract Inlined Constant for andb/orb; no Extract Constant of ours; Z, N, positive, nat stay the extracted Coq datatypes); ml_src/drvlib.ml + per-property driver; canonicalisers in harness/common.py",
    "CPython 3.12, hashlib/hmac (OpenSSL) as hash oracles",
]


# ------------------------------------------------------------------------------------------------
# canonical forms (must match ml_src/drvlib.ml)
def canon(v) -> str:
    if v is None:
        return "N"
    if v is True:
        return "T"
    if v is False:
        return "F"
    if isinstance(v, int):
        return "i" + ("-" if v < 0 else "") + format(abs(v), "x")
    if isinstance(v, (bytes, bytearray)):
        return "x" + bytes(v).hex()
    if isinstance(v, tuple):
        return "(" + " ".join(canon(x) for x in v) + ")"
    if isinstance(v, list):
        return "[" + " ".join(canon(x) for x in v) + "]"
    if isinstance(v, str):
        return "s" + v.encode("utf8").hex()
    raise TypeError("canon: %r" % (v,))


def arg(v) -> str:
    """argument token for the driver line (lists use commas, no spaces)"""
    if isinstance(v, list):
        return "[" + ",".join(arg(x) for x in v) + "]"
    return canon(v)


def exn_tag(e: BaseException) -> str:
    import struct as _struct
    name = type(e).__name__
    table = {
        "ScriptError": "E_SCRIPT", "EncodingError": "E_ENCODING", "IndexError": "E_INDEX",
        "TypeError": "E_TYPE", "AssertionError": "E_ASSERT", "AttributeError": "E_ATTR", "KeyError": "E_KEY",
        "ValidationFailureError": "E_VALIDATION", "BadMerkleRootError": "E_BADMERKLE",
        "BadSpendableError": "E_BADSPEND", "NoSuchPointError": "E_NOPOINT",
        "InvalidSecretExponentError": "E_SECRET", "InvalidPublicPairError": "E_PUBPAIR",
        "UnexpectedDER": "E_DER", "OverflowError": "E_OVERFLOW",
    }
    if name in table:
        return table[name]
    if isinstance(e, _struct.error):
        return "E_STRUCT"
    if isinstance(e, ValueError):
        return "E_VALUE"
    return "E_OTHER:" + name


def call(f, *a, **kw) -> str:
    try:
        return canon(f(*a, **kw))
    except Exception as e:  # noqa
        return "!" + exn_tag(e)


class Case:
    __slots__ = ("line", "impl", "meta")

    def __init__(self, line: str, impl, meta=None):
        self.line = line
        self.impl = impl
        self.meta = meta


class PropCase:
    """A direct check of the property on the implementation.  thunk() returns None (holds) or a
    dict describing the failure {kind, detail, ...}; `inp` is a JSON-able description for replay."""
    __slots__ = ("name", "inp", "thunk")

    def __init__(self, name, inp, thunk):
        self.name = name
        self.inp = inp
        self.thunk = thunk


# ------------------------------------------------------------------------------------------------
def sh(cmd, cwd=None, timeout=1800, env=None):
    p = subprocess.run(cmd, cwd=cwd, shell=isinstance(cmd, str), stdout=subprocess.PIPE, stderr=subprocess.STDOUT,
                       timeout=timeout, env=env)
    return p.returncode, p.stdout.decode("utf8", "replace")


# ------------------------------------------------------------------------------------------------
# per-case CPU limit for implementation calls: a change that makes pycoin loop forever on some input must yield a verdict
# (a failing input "implementation hangs"), not a check that never returns.  ITIMER_PROF (process CPU time) so that it nests
# with harness modules that use ITIMER_REAL themselves (c16).  ImplHang derives from BaseException: `except Exception`
# handlers inside pycoin or the harness do not swallow it.
import signal, contextlib, resource
CASE_CPU_LIMIT_S = 180


class ImplHang(BaseException):
    pass


def _on_prof(signum, frame):
    raise ImplHang()


@contextlib.contextmanager
def case_limit(secs):
    old = signal.signal(signal.SIGPROF, _on_prof)
    signal.setitimer(signal.ITIMER_PROF, secs)
    try:
        yield
    finally:
        signal.setitimer(signal.ITIMER_PROF, 0)
        signal.signal(signal.SIGPROF, old)


def limit_memory(gb=40):
    try:
        soft, hard = resource.getrlimit(resource.RLIMIT_AS)
        lim = gb << 30
        if hard != resource.RLIM_INFINITY:
            lim = min(lim, hard)
        resource.setrlimit(resource.RLIMIT_AS, (lim, hard))
    except Exception:
        pass


class BuildResult:
    def __init__(self):
        self.gen_ok = True
        self.gen_fallback = []   # tables the translator could not regenerate: committed baseline used, tie = correspondence only
        self.gen_log = ""
        self.model_ok = True     # models + extraction + driver built
        self.proof_ok = True     # Props/Cxx.vo built
        self.log = ""
        self.broken = None       # name of the theorem/file that no longer checks
        self.theorems = []       # [(name, assumptions_text)]
        self.gate = ""


def _coq_files():
    fs = []
    for root, _, names in os.walk(COQ):
        for n in names:
            if n.endswith(".v"):
                fs.append(os.path.relpath(os.path.join(root, n), COQ))
    return sorted(fs)


def ensure_makefile():
    files = _coq_files()
    text = "-Q . PV\n" + "\n".join(files) + "\n"
    p = os.path.join(COQ, "_CoqProject")
    old = open(p).read() if os.path.exists(p) else None
    if old != text or not os.path.exists(os.path.join(COQ, "Makefile")):
        open(p, "w").write(text)
        rc, out = sh("coq_makefile -f _CoqProject -o Makefile", cwd=COQ)
        if rc != 0:
            raise RuntimeError("coq_makefile failed: " + out)


FORBIDDEN = re.compile(r"\b(Admitted|admit|Axiom|Parameter|Parameters|Conjecture|Axioms|Conjectures)\b|Unset\s+Guard|bypass_check|Admit\s+Obligations|-type-in-type|impredicative-set")


def grep_gate() -> str:
    """fail when the development declares an axiom or switches off a kernel check"""
    bad = []
    for f in _coq_files():
        src = open(os.path.join(COQ, f)).read()
        # strip comments (non-nested good enough: we forbid the words in comments of nested shape too)
        nocom = re.sub(r"\(\*.*?\*\)", "", src, flags=re.S)
        for m in FORBIDDEN.finditer(nocom):
            bad.append("%s: %s" % (f, m.group(0)))
        # Variable/Hypothesis outside a Section
        depth = 0
        for line in nocom.splitlines():
            s = line.strip()
            if re.match(r"Section\s", s):
                depth += 1
            elif re.match(r"End\s", s) and depth > 0:
                depth -= 1  # modules also End; harmless (depth never < 0)
            elif depth == 0 and re.match(r"(Variable|Variables|Hypothesis|Hypotheses|Context)\b", s):
                bad.append("%s: %s outside a Section" % (f, s.split()[0]))
    return "; ".join(bad)


def theorem_at(vfile: str, lineno: int):
    name = None
    try:
        for i, line in enumerate(open(vfile), 1):
            m = re.match(r"\s*(Theorem|Lemma|Corollary|Example|Definition|Fixpoint|Instance)\s+([A-Za-z0-9_']+)", line)
            if m:
                cand = m.group(2)
                if i <= lineno:
                    name = cand
    except OSError:
        pass
    return name


_REQ = re.compile(r"(?:From\s+PV\s+)?Require\s+(?:Import|Export)?\s*([^.]*(?:\.[A-Za-z_][^.\s]*)*)\.\s", re.S)


def needed_gen_files(roots):
    """transitive closure of the PV requires of the given .v files (relative to coq/); returns the Gen/*.v names"""
    seen, todo, gens = set(), list(roots), set()
    while todo:
        f = todo.pop()
        if f in seen:
            continue
        seen.add(f)
        path = os.path.join(COQ, f)
        if not os.path.exists(path):
            continue
        src = re.sub(r"\(\*.*?\*\)", "", open(path).read(), flags=re.S)
        for m in re.finditer(r"Require\s+(?:Import\s+|Export\s+)?(.*?)\.(?=\s)", src, flags=re.S):
            for name in m.group(1).split():
                name = name.strip()
                if name.startswith("PV."):
                    name = name[3:]
                parts = name.split(".")
                if len(parts) == 2 and parts[0] in ("Base", "Gen", "Model", "Spec", "Proofs", "Props", "Extract"):
                    if parts[0] == "Gen":
                        gens.add(parts[1] + ".v")
                    else:
                        todo.append("%s/%s.v" % (parts[0], parts[1]))
    return sorted(gens)


def build(prop: str, driver: str | None, extra_targets=(), extra_props=()) -> BuildResult:
    """gen tables, make Props/<prop>.vo and the extraction, build the driver.  Serialised by a lock."""
    res = BuildResult()
    os.makedirs(ML, exist_ok=True)
    with open(LOCK, "w") as lk:
        fcntl.flock(lk, fcntl.LOCK_EX)
        env = dict(os.environ)
        env["PYTHONPATH"] = REPO + ":" + os.path.join(VERIF, "harness")
        roots = ["Props/%s.v" % prop] + ["Props/%s.v" % e for e in extra_props] + (["Extract/Extract%s.v" % driver] if driver else [])
        roots += [t[:-1] if t.endswith(".vo") else t for t in extra_targets]
        gens = needed_gen_files(roots)
        # only the tables this property depends on: a change elsewhere in /repo must not alarm here
        rc, out = sh([PY, os.path.join(VERIF, "harness", "gen_tables.py")] + (gens or ["--none"]), env=env, timeout=300)
        res.gen_log = out
        res.gen_fallback = [l[len("GENFALLBACK "):] for l in out.splitlines() if l.startswith("GENFALLBACK ")]
        if rc != 0:
            res.gen_ok = False
            res.model_ok = False
            res.proof_ok = False
            res.broken = "gen_tables: " + out.strip().splitlines()[-1] if out.strip() else "gen_tables"
            return res
        res.gate = grep_gate()
        ensure_makefile()
        # models + extraction first (so a broken proof does not prevent correspondence)
        if driver:
            ext = "Extract/Extract%s.vo" % driver
            rc, out = sh("timeout 1500 make -j16 %s" % ext, cwd=COQ, timeout=1600)
            res.log += out[-4000:]
            if rc != 0:
                res.model_ok = False
                res.broken = _broken_from_log(out) or ext
            else:
                rc, out = build_driver(driver)
                res.log += out[-2000:]
                if rc != 0:
                    res.model_ok = False
                    res.broken = "driver_%s" % driver.lower()
        targets = ["Props/%s.vo" % prop] + ["Props/%s.vo" % e for e in extra_props] + list(extra_targets)
        rc, out = sh("timeout 2400 make -j16 %s" % " ".join(targets), cwd=COQ, timeout=2500)
        res.log += out[-4000:]
        if rc != 0:
            res.proof_ok = False
            res.broken = _broken_from_log(out) or targets[0]
        else:
            # re-run the (tiny) Props file to capture Print Assumptions
            rc, out = sh("timeout 600 coqc -Q . PV Props/%s.v" % prop, cwd=COQ, timeout=700)
            if rc != 0:
                res.proof_ok = False
                res.broken = _broken_from_log(out) or targets[0]
            else:
                res.theorems = parse_assumptions(os.path.join(COQ, "Props", prop + ".v"), out)
                for e in extra_props:
                    rc, out = sh("timeout 600 coqc -Q . PV Props/%s.v" % e, cwd=COQ, timeout=700)
                    if rc != 0:
                        res.proof_ok = False
                        res.broken = _broken_from_log(out) or ("Props/%s.v" % e)
                        break
                    res.theorems += parse_assumptions(os.path.join(COQ, "Props", e + ".v"), out)
    return res


def _broken_from_log(out: str):
    m = None
    for m in re.finditer(r'File "\./([^"]+)", line (\d+)', out):
        pass
    ms = list(re.finditer(r'File "\./([^"]+)", line (\d+)', out))
    if not ms:
        return None
    m = ms[0]
    f, ln = m.group(1), int(m.group(2))
    th = theorem_at(os.path.join(COQ, f), ln)
    return "%s:%d (%s)" % (f, ln, th or "?")


def parse_assumptions(vfile: str, out: str):
    """pair each `Print Assumptions X.` of the Props file with its output block"""
    names = re.findall(r"Print Assumptions\s+([A-Za-z0-9_'.]+)\s*\.", open(vfile).read())
    # coqc prints blocks: either "Closed under the global context" or "Axioms:\n..."
    blocks = []
    cur = None
    for line in out.splitlines():
        if line.startswith("Closed under the global context"):
            if cur is not None:
                blocks.append(cur)
                cur = None
            blocks.append("Closed under the global context")
        elif line.startswith("Axioms:"):
            if cur is not None:
                blocks.append(cur)
            cur = "Axioms:"
        elif cur is not None:
            if line.startswith(" ") or ":" in line:
                cur += " " + line.strip()
            else:
                blocks.append(cur)
                cur = None
    if cur is not None:
        blocks.append(cur)
    res = []
    for i, n in enumerate(names):
        res.append((n, blocks[i] if i < len(blocks) else "?"))
    return res


def build_driver(name: str):
    low = name.lower()
    ext = os.path.join(ML, low + ".ml")
    src = [ext, os.path.join(MLSRC, "drvlib.ml"), os.path.join(MLSRC, "driver_%s.ml" % low)]
    exe = os.path.join(ML, "driver_" + low)
    main = os.path.join(ML, "main_%s.ml" % low)
    newest = max(os.path.getmtime(s) for s in src)
    if os.path.exists(exe) and os.path.getmtime(exe) >= newest:
        return 0, ""
    with open(main, "w") as f:
        for s in src:
            f.write(open(s).read())
            f.write("\n")
    return sh("timeout 600 ocamlfind ocamlopt -w -a -package unix -linkpkg main_%s.ml -o driver_%s" % (low, low), cwd=ML)


# ------------------------------------------------------------------------------------------------
def _ripemd160(b):
    h = hashlib.new("ripemd160")
    h.update(b)
    return h.digest()


ORACLES = {
    "sha256": lambda b: hashlib.sha256(b).digest(),
    "dsha256": lambda b: hashlib.sha256(hashlib.sha256(b).digest()).digest(),
    "sha1": lambda b: hashlib.sha1(b).digest(),
    "sha512": lambda b: hashlib.sha512(b).digest(),
    "ripemd160": _ripemd160,
    "hash160": lambda b: _ripemd160(hashlib.sha256(b).digest()),
}


class Driver:
    def __init__(self, name: str, oracles=None, interactive=False):
        self.exe = os.path.join(ML, "driver_" + name.lower())
        self.oracles = dict(ORACLES)
        if oracles:
            self.oracles.update(oracles)
        self.interactive = interactive
        self.oracle_calls = 0

    def run(self, lines, timeout=3600):
        """returns list of result strings (without the leading '=')"""
        if not lines:
            return []
        env = dict(os.environ)
        if not self.interactive:
            p = subprocess.run(["bash", "-c", "ulimit -s unlimited 2>/dev/null; exec " + self.exe],
                               input=("\n".join(lines) + "\n").encode(), stdout=subprocess.PIPE,
                               stderr=subprocess.PIPE, timeout=timeout)
            out = p.stdout.decode().splitlines()
            res = [l[1:] for l in out if l.startswith("=")]
            if len(res) != len(lines):
                res += ["!DRIVER_DIED " + p.stderr.decode()[-200:].replace("\n", " ")] * (len(lines) - len(res))
            return res
        p = subprocess.Popen(["bash", "-c", "ulimit -s unlimited 2>/dev/null; exec " + self.exe],
                             stdin=subprocess.PIPE, stdout=subprocess.PIPE, stderr=subprocess.PIPE)
        res = []
        try:
            for ln in lines:
                p.stdin.write((ln + "\n").encode())
                p.stdin.flush()
                while True:
                    r = p.stdout.readline()
                    if not r:
                        res.append("!DRIVER_DIED")
                        break
                    r = r.decode().rstrip("\n")
                    if r.startswith("?"):
                        name, _, hx = r[1:].partition(" ")
                        self.oracle_calls += 1
                        ans = self.oracles[name](bytes.fromhex(hx.strip()))
                        p.stdin.write((ans.hex() + "\n").encode())
                        p.stdin.flush()
                    elif r.startswith("="):
                        res.append(r[1:])
                        break
                if res and res[-1] == "!DRIVER_DIED":
                    res += ["!DRIVER_DIED"] * (len(lines) - len(res))
                    break
        finally:
            try:
                p.stdin.close()
            except Exception:
                pass
            p.wait(timeout=30)
        return res


# ------------------------------------------------------------------------------------------------
ESCALATION_BUDGET_S = 240
FPRINT_FILE = os.path.join(VERIF, "harness", "fingerprints.json")


def _ast_hash(path):
    import ast
    try:
        tree = ast.parse(open(path).read())
    except Exception as e:
        return "unparseable:" + type(e).__name__
    return hashlib.sha256(ast.dump(tree, annotate_fields=False, include_attributes=False).encode()).hexdigest()[:20]


def anchor_files(prop: str):
    files = []
    for l in open(os.path.join(VERIF, "properties.jsonl")):
        d = json.loads(l)
        if d["id"] == prop:
            for f in d["anchors"]["files"]:
                full = os.path.join(REPO, f)
                if os.path.isdir(full):
                    files += sorted(os.path.relpath(p, REPO) for p in glob.glob(os.path.join(full, "**", "*.py"), recursive=True))
                else:
                    files.append(f)
    return files


def current_fingerprints(prop: str):
    return {f: _ast_hash(os.path.join(REPO, f)) for f in anchor_files(prop)}


def anchors_changed(prop: str):
    """(changed?, files) — normalized-AST hash of the property's anchor files vs harness/fingerprints.json.
    A change is NOT a violation; it only widens this run (DESIGN.md section 2.3)."""
    try:
        rec = json.load(open(FPRINT_FILE)).get(prop, {})
    except Exception:
        return False, []
    cur = current_fingerprints(prop)
    changed = [f for f in cur if rec.get(f) != cur[f]]
    return bool(changed), changed


def record_fingerprints():
    out = {}
    for l in open(os.path.join(VERIF, "properties.jsonl")):
        pid = json.loads(l)["id"]
        out[pid] = current_fingerprints(pid)
    json.dump(out, open(FPRINT_FILE, "w"), indent=0, sort_keys=True)
    return out


def record_baseline_tables():
    """regenerate every table from REPO (must be the unchanged tree) with the fallback disabled, into a scratch directory, and
    snapshot them into coq/GenBaseline/<file>.baseline (committed)"""
    import tempfile, shutil
    tmp = tempfile.mkdtemp(prefix="genbase_", dir="/var/tmp")
    try:
        env = dict(os.environ, VERIF_NO_GEN_FALLBACK="1", VERIF_GEN_OUT=tmp)
        rc, out = sh([PY, os.path.join(VERIF, "harness", "gen_tables.py")], env=env, timeout=900)
        print(out.strip()[-600:])
        if rc != 0:
            return None
        bdir = os.path.join(COQ, "GenBaseline")
        os.makedirs(bdir, exist_ok=True)
        n = 0
        for f in sorted(glob.glob(os.path.join(tmp, "*.v"))):
            txt = open(f).read()
            dst = os.path.join(bdir, os.path.basename(f) + ".baseline")
            if not os.path.exists(dst) or open(dst).read() != txt:
                open(dst, "w").write(txt)
            n += 1
        return n
    finally:
        shutil.rmtree(tmp, ignore_errors=True)


def load_known(prop: str):
    """returns {id: text} of `open:` findings for prop"""
    res = {}
    lines = []
    for fn in [KNOWN_FILE] + sorted(glob.glob(os.path.join(VERIF, "known", "*.txt"))):
        if os.path.exists(fn):
            lines += open(fn).read().splitlines()
    for line in lines:
        line = line.strip()
        if not line or line.startswith("#"):
            continue
        m = re.match(r"open:\s+property=(\S+)\s+id=(\S+)\s*(.*)", line)
        if m and m.group(1) == prop:
            res[m.group(2)] = m.group(3)
    return res


def write_replay(prop: str, payload: dict) -> str:
    os.makedirs(FINDINGS, exist_ok=True)
    blob = json.dumps(payload, sort_keys=True, indent=1, default=str)
    h = hashlib.sha256(blob.encode()).hexdigest()[:12]
    path = os.path.join(FINDINGS, "%s-%s.json" % (prop, h))
    with open(path, "w") as f:
        f.write(blob + "\n")
    return path


def rng_for(seed: int, prop: str, stream: str = "") -> random.Random:
    return random.Random("%d/%s/%s" % (seed, prop, stream))


def run_property(mod, tier: str) -> int:
    """the verdict logic of DESIGN.md section 4"""
    t0 = time.time()
    prop = mod.PROP
    seed = int(os.environ.get("VERIF_SEED", "0") or 0)
    out_lines = []

    def say(s):
        print(s, flush=True)
        out_lines.append(s)

    driver_name = getattr(mod, "DRIVER", None)
    br = build(prop, driver_name, getattr(mod, "EXTRA_TARGETS", ()), getattr(mod, "EXTRA_PROPS", ()))
    if br.gate:
        br.proof_ok = False
        br.broken = "grep gate: " + br.gate
    say("[%s] build: gen=%s model=%s proofs=%s theorems=%d%s" % (
        prop, br.gen_ok, br.model_ok, br.proof_ok, len(br.theorems), (" broken=" + str(br.broken)) if br.broken else ""))
    if not (br.gen_ok and br.model_ok and br.proof_ok):
        sys.stdout.write(br.gen_log[-1500:] + br.log[-3000:] + "\n")

    case_cpu = int(os.environ.get("VERIF_CASE_CPU_S") or getattr(mod, "CASE_CPU_LIMIT_S", CASE_CPU_LIMIT_S))
    max_case_cpu = [0.0]
    limit_memory()
    # ---- correspondence: implementation vs extracted model
    disagreements = []
    n_disagree = 0
    escalate, changed_files = anchors_changed(prop) if tier == "quick" else (False, [])
    if br.gen_fallback:
        say("[%s] translator fallback: %d table(s) could not be regenerated from the changed source; the committed baseline table is "
            "used and the tie to the source is the correspondence check alone (escalated): %s" % (prop, len(br.gen_fallback), " | ".join(br.gen_fallback)[:600]))
        if tier == "quick":
            escalate = True
    if escalate:
        say("[%s] anchored source changed since fingerprints were recorded (%s): escalating the quick tier" % (prop, ", ".join(changed_files[:5])))
    n_cases = 0
    distinct_nontrivial = 0
    samples = []
    hist = {}
    t_corr = time.time()
    if br.model_ok and driver_name:
        rng = rng_for(seed, prop, "model")
        phase = {"esc": False}

        def stream():
            corpus = getattr(mod, "corpus_cases", None)
            if corpus:
                for c in corpus():
                    yield c
            for c in mod.model_cases(rng, tier):
                yield c
            if escalate:
                phase["esc"] = True
                for c in mod.model_cases(rng_for(seed, prop, "model-escalated"), "thorough"):
                    yield c

        drv = Driver(driver_name, getattr(mod, "ORACLES", None), getattr(mod, "INTERACTIVE", False))
        seen = set()
        nontriv = getattr(mod, "nontrivial", lambda line, r: not r.startswith("!"))
        B = 20000
        it = iter(stream())
        deadline = None
        while True:
            cases = []
            for c in it:
                cases.append(c)
                if len(cases) >= B:
                    break
            if not cases:
                break
            model_out = drv.run([c.line for c in cases])
            for c, m in zip(cases, model_out):
                tc = time.process_time()
                try:
                    with case_limit(case_cpu):
                        i = c.impl()
                except ImplHang:
                    i = "!HANG:implementation used more than %ds of CPU on this case" % case_cpu
                except Exception as e:  # harness bug: surface loudly
                    i = "!HARNESS:" + type(e).__name__ + ":" + str(e)[:100]
                tc = time.process_time() - tc
                if tc > max_case_cpu[0]:
                    max_case_cpu[0] = tc
                n_cases += 1
                fn = c.line.split(" ", 1)[0]
                key = fn + (":err" if m.startswith("!") else ":ok")
                hist[key] = hist.get(key, 0) + 1
                if c.line not in seen:
                    seen.add(c.line)
                    if nontriv(c.line, m):
                        distinct_nontrivial += 1
                if i != m:
                    if len(disagreements) < 200:
                        disagreements.append({"case": c.line, "impl": i, "model": m, "meta": c.meta})
                    n_disagree += 1
                elif len(samples) < 6 and (n_cases % 997 == 1):
                    samples.append({"case": c.line[:300], "both": m[:300]})
            if phase["esc"]:
                if deadline is None:
                    deadline = time.time() + ESCALATION_BUDGET_S
                if time.time() > deadline or n_disagree:
                    break
        say("[%s] correspondence: %d cases, %d distinct non-trivial, %d disagreements, %.1fs" % (
            prop, n_cases, distinct_nontrivial, n_disagree, time.time() - t_corr))
    # ---- direct property checks on the implementation (and impl-vs-spec)
    failures = []
    n_prop = 0
    t_prop = time.time()
    prng = rng_for(seed, prop, "prop")
    pc_hist = {}
    prop_samples = []
    def prop_stream():
        for pc in mod.prop_cases(prng, tier):
            yield pc, False
        if escalate:
            for pc in mod.prop_cases(rng_for(seed, prop, "prop-escalated"), "thorough"):
                yield pc, True

    pdeadline = None
    for pc, esc in prop_stream():
        if esc:
            if pdeadline is None:
                pdeadline = time.time() + ESCALATION_BUDGET_S
            if time.time() > pdeadline or failures:
                break
        n_prop += 1
        pc_hist[pc.name] = pc_hist.get(pc.name, 0) + 1
        tc = time.process_time()
        try:
            with case_limit(case_cpu):
                r = pc.thunk()
        except ImplHang:
            r = {"kind": "implementation-hangs", "detail": "more than %ds of CPU on this case" % case_cpu}
        except Exception as e:
            r = {"kind": "harness-exception", "detail": "%s: %s" % (type(e).__name__, e), "tb": traceback.format_exc()[-800:]}
        tc = time.process_time() - tc
        if tc > max_case_cpu[0]:
            max_case_cpu[0] = tc
        if r is not None:
            failures.append((pc, r))
        elif len(prop_samples) < 4 and n_prop % 97 == 1:
            prop_samples.append({"check": pc.name, "input": _short(pc.inp)})
    say("[%s] direct property checks on implementation: %d, failing: %d, %.1fs" % (prop, n_prop, len(failures), time.time() - t_prop))

    known = load_known(prop)
    classify = getattr(mod, "classify", lambda pc, r: None)
    known_hits = {}
    new_failures = []
    for pc, r in failures:
        kid = classify(pc, r)
        if kid is not None and kid in known:
            known_hits.setdefault(kid, []).append((pc, r))
        else:
            new_failures.append((pc, r, kid))
    # replays of listed findings
    replays = getattr(mod, "KNOWN_REPLAYS", {})
    for kid, text in sorted(known.items()):
        rep = replays.get(kid)
        still = None
        if rep is not None:
            try:
                still = rep()
            except Exception as e:
                still = "replay raised %s: %s" % (type(e).__name__, e)
        if still or (rep is None and kid in known_hits):
            say("KNOWN-FINDING: property=%s id=%s %s" % (prop, kid, text))
        elif rep is not None and not still:
            say("[%s] note: listed finding %s no longer reproduces" % (prop, kid))

    violations = 0
    rc = 0
    if new_failures:
        pc, r, kid = new_failures[0]
        path = write_replay(prop, {"property": prop, "kind": "failing-input", "check": pc.name, "input": pc.inp,
                                    "failure": r, "classified_as": kid, "seed": seed, "tier": tier,
                                    "others": [{"check": p.name, "input": _short(p.inp), "failure": _short(rr)} for p, rr, _ in new_failures[1:10]]})
        say("VIOLATION property=%s replay=%s" % (prop, path))
        violations = len(new_failures)
        rc = 1
    elif not (br.gen_ok and br.model_ok and br.proof_ok) or disagreements:
        # proof obligation or correspondence broke: search for a failing input
        say("[%s] proof/correspondence broken (%s; %d disagreements) - searching for a failing input" % (
            prop, br.broken, len(disagreements)))
        found = None
        srch = getattr(mod, "search", None)
        if srch:
            try:
                found = srch(rng_for(seed, prop, "search"), tier, disagreements, set(known))
            except Exception as e:
                say("[%s] search raised %s: %s" % (prop, type(e).__name__, e))
        payload = {"property": prop, "seed": seed, "tier": tier,
                   "broken_obligation": br.broken, "build_log_tail": br.log[-1500:] if not br.proof_ok or not br.model_ok else "",
                   "disagreements": disagreements[:10]}
        if found:
            payload.update({"kind": "failing-input", "input": found.get("input"), "failure": found.get("failure"), "check": found.get("check")})
            path = write_replay(prop, payload)
            say("VIOLATION property=%s replay=%s" % (prop, path))
        else:
            payload.update({"kind": "no-failing-input-found"})
            path = write_replay(prop, payload)
            say("VIOLATION property=%s replay=%s no-failing-input-found" % (prop, path))
        violations = max(1, len(disagreements))
        rc = 1

    # ---- evidence
    wall = time.time() - t0
    nthm = max(len(br.theorems), sum(count_theorems(os.path.join(COQ, "Props", x + ".v")) for x in [prop] + list(getattr(mod, "EXTRA_PROPS", ()))))
    ev = {
        "property_id": prop, "tier": tier, "seed": seed, "level": "proof",
        "coverage": {
            "obligations": nthm,
            "discharged": len(br.theorems) if br.proof_ok else 0,
            "checker_cmd": "cd /verif/coq && make Props/%s.vo && coqc -Q . PV Props/%s.v  (Coq 8.16.1)" % (prop, prop),
            "trusted_base": GLOBAL_TRUSTED_BASE + list(getattr(mod, "TRUSTED", [])),
            "theorems": [{"name": n, "print_assumptions": a} for n, a in br.theorems],
            "evaluations": n_cases + n_prop,
            "distinct_nontrivial": distinct_nontrivial,
            "rule": getattr(mod, "RULE", "correspondence cases are distinct driver lines; non-trivial = the model returns a value rather than an error"),
            "samples": (samples + prop_samples) or [{"note": "no case ran"}],
            "correspondence_cases": n_cases, "correspondence_disagreements": n_disagree, "escalated": escalate, "anchor_files_changed": changed_files,
            "direct_property_checks": n_prop, "direct_failures": len(failures),
            "known_findings_hit": {k: len(v) for k, v in known_hits.items()},
            "case_histogram": hist, "property_check_histogram": pc_hist,
            "oracle_calls": 0,
            "partial": getattr(mod, "PARTIAL", []),
            "broken": br.broken,
            "translator_fallback": br.gen_fallback,
            "case_cpu_limit_s": case_cpu, "max_case_cpu_s": round(max_case_cpu[0], 2),
        },
        "assumptions": list(getattr(mod, "ASSUMPTIONS", [])),
        "wall_s": round(wall, 2),
        "violations": violations,
    }
    os.makedirs(EVID, exist_ok=True)
    with open(os.path.join(EVID, prop + ".json"), "w") as f:
        json.dump(ev, f, indent=1, default=str)
        f.write("\n")
    say("[%s] %s tier done in %.1fs, exit %d" % (prop, tier, wall, rc))
    return rc


def _short(x, n=400):
    s = json.dumps(x, default=str)
    return x if len(s) <= n else s[:n] + "..."


def count_theorems(vfile: str) -> int:
    try:
        return len(re.findall(r"^\s*(Theorem|Corollary)\s", open(vfile).read(), flags=re.M))
    except OSError:
        return 0


def replay_file(path: str) -> int:
    d = json.load(open(path))
    prop = d["property"]
    mod = importlib.import_module(prop.lower())
    if d.get("kind") != "failing-input":
        print("replay: %s names a broken obligation/correspondence, not an input: %s" % (path, d.get("broken_obligation")))
        for dis in d.get("disagreements", [])[:5]:
            print("  disagreement:", dis)
        return 0
    rp = getattr(mod, "replay_input", None)
    if rp is None:
        print("replay: no replay_input in", prop)
        return 2
    r = rp(d.get("check"), d.get("input"))
    if r is None:
        print("replay: property holds on this input now")
        return 0
    print("replay: still fails:", json.dumps(r, default=str)[:1000])
    return 1
