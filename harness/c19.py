"""C19 — hash primitives give standard digests in every configuration (RIPEMD-160 bundled/native, hash160,
double_sha256, murmur3, Bloom filter bit positions)."""
from common import *
import struct, unittest, io, types, enum
import pycoin.contrib.ripemd160 as R
import pycoin.bloomfilter as B

PROP = "C19"
DRIVER = "C19"
INTERACTIVE = True     # sha256 / native ripemd160 are oracles of the model, answered here from hashlib
RULE = ("correspondence: one driver line per call (fi, rol, compress, pure_ripemd160, hash_ripemd160/hash160/double_sha256 "
        "per configuration worker, murmur3, bloom, bloom_bits) plus impl-vs-extracted-SPEC lines (spec_ripemd160, "
        "spec_murmur3, spec_bloom); distinct = distinct line; non-trivial = the model/spec returns a value")
PARTIAL = ["SHA-256 and the native (OpenSSL) / PyCrypto RIPEMD-160 are parameters of the theorems (oracles answered by "
           "hashlib); hash160/double_sha256 are proved as compositions/selection only",
           "messages of 2^61 bytes and more (struct.error in the code) and murmur3 inputs of 2^32 bytes and more are "
           "outside the theorems (not reachable in practice)"]
TRUSTED = ["struct.pack/unpack '<L' '<Q' modelled as fixed-width little-endian with struct.error outside the range",
           "harness/gens/ripemd_c19.py (tables, initial state, every integer literal of the modelled functions, "
           "cross-checked live module vs source)",
           "configurations without a working hashlib ripemd160 / with PyCrypto are SIMULATED in the worker "
           "(hashlib.algorithms_available / hashlib.new / sys.modules patched before pycoin.encoding.hash is imported); "
           "the PYCOIN_USE_PYTHON_RIPEMD160 switch is real"]
ASSUMPTIONS = ["when get_best_ripemd160 selects hashlib or PyCrypto, that library computes standard RIPEMD-160 "
               "(explicit hypotheses of C19_hash160_standard_in_every_configuration)"]

M32 = 0xFFFFFFFF
WORKER = os.path.join(VERIF, "harness", "c19_worker.py")


def call19(f, *a):
    try:
        return canon(f(*a))
    except ZeroDivisionError:
        return "!E_OTHER"
    except Exception as e:  # noqa
        return "!" + exn_tag(e)


# ---- independent references (hashlib; hand-written uint32 murmur3 / BIP37) -----------------------------------
def ref_ripemd160(b):
    return hashlib.new("ripemd160", b).digest()


def ref_hash160(b):
    return ref_ripemd160(hashlib.sha256(b).digest())


def ref_dsha(b):
    return hashlib.sha256(hashlib.sha256(b).digest()).digest()


def _rotl(x, r):
    return ((x << r) | (x >> (32 - r))) & M32


def ref_murmur3(data, seed):
    """MurmurHash3_x86_32 with uint32 arithmetic (seed taken mod 2^32)"""
    c1, c2, h = 0xcc9e2d51, 0x1b873593, seed & M32
    n = len(data) // 4
    for i in range(n):
        k = struct.unpack_from("<I", data, 4 * i)[0]
        k = (k * c1) & M32
        k = _rotl(k, 15)
        k = (k * c2) & M32
        h ^= k
        h = _rotl(h, 13)
        h = (h * 5 + 0xe6546b64) & M32
    t, k = data[4 * n:], 0
    if len(t) >= 3:
        k ^= t[2] << 16
    if len(t) >= 2:
        k ^= t[1] << 8
    if len(t) >= 1:
        k ^= t[0]
        k = (k * c1) & M32
        k = _rotl(k, 15)
        k = (k * c2) & M32
        h ^= k
    h ^= len(data) & M32
    h ^= h >> 16
    h = (h * 0x85ebca6b) & M32
    h ^= h >> 13
    h = (h * 0xc2b2ae35) & M32
    h ^= h >> 16
    return h


def ref_bloom_indices(size, k, tweak, item):
    return [ref_murmur3(item, (i * 0xFBA4C795 + tweak) & M32) % (size * 8) for i in range(max(0, k))]


def ref_bloom(size, k, tweak, items):
    v = bytearray(size)
    if size == 0:
        return v          # Bitcoin Core: insert on an empty filter is a no-op
    for it in items:
        for idx in ref_bloom_indices(size, k, tweak, it):
            v[idx >> 3] |= 1 << (7 & idx)
    return v


def ref_contains(v, k, tweak, item):
    if len(v) == 0:
        return True
    return all(v[idx >> 3] & (1 << (7 & idx)) for idx in ref_bloom_indices(len(v), k, tweak, item))


# ---- configuration workers -----------------------------------------------------------------------------------
# (in_avail, env value or None, native_works, pycrypto)
def _configs():
    out = []
    for avail in (True, False):
        for env in (None, "", "1", "0", "yes"):
            for works in (True, False):
                for crypto in (False, True):
                    out.append((avail, env, works, crypto))
    return out


CONFIGS = _configs()
MAIN_CONFIGS = [(True, None, True, False), (True, "1", True, False)]   # as shipped: native / bundled


def cfg_args(cfg):
    avail, env, works, crypto = cfg
    return "%s %s %s %s" % (arg(avail), arg(bool(env)), arg(works), arg(crypto))


def cfg_name(cfg):
    avail, env, works, crypto = cfg
    return "avail=%d env=%s native_works=%d pycrypto=%d" % (avail, "unset" if env is None else repr(env), works, crypto)


def run_worker(cfg, queries):
    """queries: list of (fn, bytes) -> list of canonical strings"""
    avail, envv, works, crypto = cfg
    env = dict(os.environ)
    env["PYTHONPATH"] = REPO
    env["PYTHONHASHSEED"] = "0"
    env.pop("PYCOIN_USE_PYTHON_RIPEMD160", None)
    for k in ("C19_NO_AVAIL", "C19_NATIVE_RAISES", "C19_FAKE_CRYPTO"):
        env.pop(k, None)
    if envv is not None:
        env["PYCOIN_USE_PYTHON_RIPEMD160"] = envv
    if not avail:
        env["C19_NO_AVAIL"] = "1"
    if not works:
        env["C19_NATIVE_RAISES"] = "1"
    if crypto:
        env["C19_FAKE_CRYPTO"] = "1"
    inp = "".join("%s %s\n" % (fn, d.hex()) for fn, d in queries)
    try:
        p = subprocess.run([PY, "-W", "ignore", WORKER], input=inp.encode(), stdout=subprocess.PIPE, stderr=subprocess.PIPE,
                           env=env, timeout=3600)
        out = p.stdout.decode().splitlines()
    except Exception as e:  # noqa
        out = []
    if len(out) != len(queries):
        out = out + ["!WORKER_DIED"] * (len(queries) - len(out))
    return out


# ---- data sets ---------------------------------------------------------------------------------------------------
BOUNDARY = [0, 1, 3, 4, 54, 55, 56, 57, 62, 63, 64, 65, 118, 119, 120, 121, 127, 128, 129, 183, 184, 191, 192]


def _rb(rng, n):
    return rng.getrandbits(8 * n).to_bytes(n, "little") if n else b""


def _messages(rng, tier):
    """every length 0..300 (random content), structured fillers on the padding boundaries, random longer ones"""
    out = []
    top = 300 if tier == "quick" else 1300
    for n in range(top + 1):
        out.append(_rb(rng, n))
    for n in BOUNDARY + [255, 256, 257, 511, 512, 513]:
        out.append(b"\x00" * n)
        out.append(b"\xff" * n)
        out.append(b"\x80" * n)
    for _ in range(14 if tier == "quick" else 400):
        out.append(_rb(rng, rng.choice([rng.randint(301, 5000), 64 * rng.randint(5, 80) + rng.choice([-9, -8, -1, 0, 1, 55, 56])])))
    if tier == "thorough":
        out.append(_rb(rng, 100000))
    return out


def _short_messages(rng):
    return [_rb(rng, n) for n in BOUNDARY] + [_rb(rng, rng.randint(130, 700)) for _ in range(2)]


def _word(rng):
    c = rng.random()
    if c < 0.35:
        return rng.getrandbits(32)
    if c < 0.5:
        return rng.choice([0, 1, M32, M32 + 1, 0x80000000, 0x7fffffff, -1, -M32 - 1, -0x80000000])
    if c < 0.7:
        return rng.getrandbits(rng.choice([33, 34, 40, 64, 100]))
    if c < 0.9:
        return -rng.getrandbits(rng.choice([1, 8, 31, 32, 33, 64]))
    return rng.getrandbits(400) * rng.choice([1, -1])


SEEDS = [0, 1, 2, 0x7fffffff, 0x80000000, M32, M32 + 1, (1 << 40) + 5, 0xFBA4C795, -1, -0x80000000, -(1 << 40) - 7,
         0x5082EDEE, (1 << 64) - 1, 1 << 64]


def _murmur_inputs(rng, tier):
    out = []
    for n in range(0, 41):
        d = _rb(rng, n)
        for s in SEEDS:
            out.append((d, s))
    for n in (0, 1, 2, 3, 4, 5, 7, 8, 20, 32, 36):
        for fill in (0, 0xff, 0x80):
            out.append((bytes([fill]) * n, rng.choice(SEEDS)))
    for _ in range(1500 if tier == "quick" else 100000):
        n = rng.choice([rng.randint(0, 12), rng.randint(0, 80), 20, 32, 36, rng.randint(0, 400)])
        s = rng.choice([rng.getrandbits(32), rng.getrandbits(64), -rng.getrandbits(40), rng.choice(SEEDS),
                        rng.randint(0, 60) * 0xFBA4C795 + rng.getrandbits(32)])
        out.append((_rb(rng, n), s))
    return out


def _bloom_inputs(rng, tier):
    out = []
    items0 = [bytes.fromhex("99108ad8ed9bb6274d3980bab5a85c048f0950c8"), bytes.fromhex("b5a2c786d9ef4658287ced5914b37a1b4aa32eee"),
              bytes.fromhex("b9300670b4c5366e95b2699e8b18bc75e5f729c5")]
    out.append((3, 5, 0, items0))
    out.append((3, 5, 2147483649, items0))
    for size in (-1, 0, 1, 2, 3, 7, 8, 36000, 36001, 1 << 40):
        for k in (-3, 0, 1, 2, 50):
            if size == 36000 and k == 50 and tier == "quick":
                k = 11
            out.append((size, k, rng.choice([0, 1, M32, rng.getrandbits(32)]), [_rb(rng, 20)]))
    for _ in range(500 if tier == "quick" else 20000):
        size = rng.choice([1, 2, 3, 5, 8, 20, 36, rng.randint(1, 200), rng.randint(1, 200), rng.randint(200, 1500), 0])
        k = rng.choice([1, 2, 5, 11, 17, rng.randint(0, 50)])
        tweak = rng.choice([0, 127, rng.getrandbits(32), rng.getrandbits(32), M32, M32 + 1 + rng.getrandbits(8), -rng.getrandbits(33),
                            rng.getrandbits(70)])
        items = [_rb(rng, rng.choice([20, 32, 36, rng.randint(0, 70)])) for _ in range(rng.randint(0, 4))]
        out.append((size, k, tweak, items))
    return out


def _bits_inputs(rng, tier):
    out = []
    for size in (1, 2, 3, 9):
        for v in list(range(0, 8 * size)) + [-1, -8 * size, 8 * size, 8 * size + 1]:
            out.append((size, [v], list(range(0, 8 * size))))
    out.append((0, [0], []))
    out.append((0, [], [0]))
    out.append((0, [], []))
    for _ in range(300 if tier == "quick" else 10000):
        size = rng.randint(1, 40)
        vs = [rng.choice([rng.randint(0, 8 * size - 1), rng.getrandbits(32), -rng.getrandbits(20), rng.getrandbits(70)])
              for _ in range(rng.randint(0, 12))]
        cs = [rng.choice([rng.randint(0, 8 * size - 1), rng.getrandbits(32), -rng.getrandbits(20)] + (vs or [0]))
              for _ in range(rng.randint(0, 8))]
        out.append((size, vs, cs))
    return out



# ---- presentations and histories (families: exotic-but-legal input types; state kept on the object / class / module) -
PRESENTATIONS = ("bytes_subclass", "bytearray", "memoryview")


class _IntSub(int):
    pass


class _BytesSub(bytes):
    pass


def present_bytes(d, kind):
    if kind == "bytearray":
        return bytearray(d)
    if kind == "memoryview":
        return memoryview(d)
    if kind == "bytes_subclass":
        return _BytesSub(d)
    return d


def present_int(v, kind):
    if kind == "sub":
        return _IntSub(v)
    if kind == "bool" and v in (0, 1):
        return bool(v)
    if kind == "enum":
        return enum.IntEnum("E", {"V": v}).V
    return v


_B58 = "123456789ABCDEFGHJKLMNPQRSTUVWXYZabcdefghijkmnopqrstuvwxyz"


def ref_address(h160, version=0):
    """Base58Check text of version||hash160 (own encoder)"""
    raw = bytes([version]) + h160
    raw += hashlib.sha256(hashlib.sha256(raw).digest()).digest()[:4]
    n, out = int.from_bytes(raw, "big"), ""
    while n:
        n, r = divmod(n, 58)
        out = _B58[r] + out
    return "1" * (len(raw) - len(raw.lstrip(b"\0"))) + out


MUTATORS = ("A", "H", "S", "B", "T", "K", "P", "R", "ADDR")
OBSERVERS = ("L", "C")


def op_item(op):
    """the element an add-operation inserts (None for the other operations)"""
    if op[0] in ("A", "H", "ADDR"):
        return bytes.fromhex(op[1])
    if op[0] == "S":
        return bytes.fromhex(op[1]) + struct.pack("<L", op[2])
    return None


def apply_op(bf, op):
    """one operation on the real object; returns the observation (None for mutators).  op = [tag, args..., presentation?]"""
    t = op[0]
    if t == "A":
        bf.add_item(present_bytes(bytes.fromhex(op[1]), op[2] if len(op) > 2 else None))
    elif t == "H":
        bf.add_hash160(present_bytes(bytes.fromhex(op[1]), op[2] if len(op) > 2 else None))
    elif t == "ADDR":
        bf.add_address(ref_address(bytes.fromhex(op[1])))
    elif t == "S":
        bf.add_spendable(types.SimpleNamespace(tx_hash=bytes.fromhex(op[1]), tx_out_index=present_int(op[2], op[3] if len(op) > 3 else None)))
    elif t == "B":
        bf.set_bit(present_int(op[1], op[2] if len(op) > 2 else None))
    elif t == "C":
        return bool(bf.check_bit(present_int(op[1], op[2] if len(op) > 2 else None)))
    elif t == "L":
        p = bf.filter_load_params()
        if not isinstance(p, tuple) or len(p) != 3:
            raise TypeError("filter_load_params returned %r" % type(p))
        return (bytes(p[0]), int(p[1]), int(p[2]))     # what a filterload message built now would carry
    elif t == "T":
        bf.tweak = present_int(op[1], op[2] if len(op) > 2 else None)
    elif t == "K":
        bf.hash_function_count = present_int(op[1], op[2] if len(op) > 2 else None)
    elif t == "P":
        bf.filter_bytes[op[1]] = op[2]
    elif t == "R":
        bf.filter_bytes = bytearray(bytes.fromhex(op[1]))
    else:
        raise ValueError("unknown op %r" % (op,))
    return None


def impl_history(size, k, tweak, ops):
    bf = B.BloomFilter(size, k, tweak)
    obs = [apply_op(bf, op) for op in ops]
    return (bytes(bf.filter_bytes), obs)


def ref_history(size, k, tweak, ops):
    """memory-less BIP37 reading of a history on the triple (vData, nHashFuncs, nTweak); ops inside op_ok only"""
    v, obs = bytearray(size), []
    k, tweak = int(k), int(tweak)
    for op in ops:
        t, o = op[0], None
        it = op_item(op)
        if it is not None:
            if len(v):
                for idx in ref_bloom_indices(len(v), k, tweak, it):
                    v[idx >> 3] |= 1 << (7 & idx)
        elif t == "B":
            idx = op[1] % (8 * len(v))
            v[idx >> 3] |= 1 << (7 & idx)
        elif t == "C":
            idx = op[1] % (8 * len(v))
            o = bool(v[idx >> 3] & (1 << (7 & idx)))
        elif t == "L":
            o = (bytes(v), k, tweak)
        elif t == "T":
            tweak = int(op[1])
        elif t == "K":
            k = int(op[1])
        elif t == "P":
            v[op[1]] = op[2]
        elif t == "R":
            v = bytearray(bytes.fromhex(op[1]))
        obs.append(o)
    return (bytes(v), obs)


def op_ok(size, op):
    t = op[0]
    if t == "S":
        return 0 <= op[2] <= M32
    if t in ("B", "C"):
        return size > 0
    if t == "P":
        return 0 <= op[2] < 256 and -size <= op[1] < size
    if t == "R":
        return len(op[1]) == 2 * size
    return True


def history_line(fn, size, k, tweak, ops):
    toks = []
    for op in ops:
        t = op[0]
        if t in ("A", "H", "R"):
            toks.append("%s:x%s" % (t, op[1]))
        elif t == "S":
            toks.append("S:x%s:%s" % (op[1], arg(op[2])))
        elif t in ("B", "C", "T", "K"):
            toks.append("%s:%s" % (t, arg(op[1])))
        elif t == "P":
            toks.append("P:%s:%s" % (arg(op[1]), arg(op[2])))
        elif t == "L":
            toks.append("L")
        else:
            return None            # not in the model's vocabulary (add_address): direct check only
    return "%s %s %s %s [%s]" % (fn, arg(size), arg(k), arg(tweak), ",".join(toks))


def _rand_op(rng, size, weights=None):
    t = rng.choice(weights or ["A", "A", "A", "H", "S", "L", "L", "L", "C", "B", "T", "K", "P", "R"])
    if t in ("A", "H"):
        return [t, _rb(rng, rng.choice([20, 20, 32, 36, rng.randint(0, 50)])).hex()]
    if t == "S":
        return ["S", _rb(rng, 32).hex(), rng.choice([0, 1, 3, M32, rng.getrandbits(32)])]
    if t in ("B", "C"):
        return [t, rng.choice([rng.randint(0, max(0, 8 * size - 1)), rng.getrandbits(32), -rng.getrandbits(12)])]
    if t == "T":
        return ["T", rng.choice([0, 5, rng.getrandbits(32), M32 + 1 + rng.getrandbits(10), -rng.getrandbits(20)])]
    if t == "K":
        return ["K", rng.choice([0, 1, 3, 7, rng.randint(0, 20)])]
    if t == "P":
        return ["P", rng.randint(-size, size - 1) if size else 0, rng.getrandbits(8)]
    if t == "R":
        return ["R", _rb(rng, size).hex()]
    return [t]


MONO = ["A", "A", "A", "H", "S", "L", "L", "L", "C", "B"]


def _history_inputs(rng, tier):
    """(size, k, tweak, ops) over the model's vocabulary: the re-load pattern, every observer x every mutator, random"""
    out = []
    its = [bytes([i]) * 20 for i in range(1, 6)]
    for size, k, tweak in ((8, 5, 7), (64, 7, 0x12345678), (200, 11, M32)) + (((36000, 3, 5),) if tier == "thorough" else ((3000, 3, 5),)):
        out.append((size, k, tweak, [["A", its[0].hex()], ["L"], ["A", its[1].hex()], ["L"]]))
        out.append((size, k, tweak, [["L"], ["A", its[0].hex()], ["L"], ["H", its[1].hex()], ["A", its[2].hex()], ["L"],
                                     ["S", (its[3] + its[4][:12]).hex(), 3], ["L"], ["C", 5], ["L"]]))
    for obs in OBSERVERS:
        for mut in ("A", "H", "S", "B", "T", "K", "P", "R"):
            size = rng.choice([1, 4, 9, 33])
            o = (lambda: [obs] if obs == "L" else ["C", rng.randint(0, 8 * size - 1)])
            m1, m2 = _rand_op(rng, size, [mut]), _rand_op(rng, size, [mut])
            out.append((size, rng.randint(1, 9), rng.getrandbits(32), [["A", its[0].hex()], o(), m1, o(), m2, o(), ["A", its[1].hex()], o(), ["L"]]))
            out.append((size, rng.randint(1, 9), rng.getrandbits(32), [o(), m1, o(), ["L"]]))
    for size in (0,):
        out.append((0, 3, 1, [["L"], ["A", its[0].hex()], ["L"], ["T", 9], ["K", 2], ["L"]]))
        out.append((0, 3, 1, [["B", 1]]))
        out.append((0, 3, 1, [["C", 1]]))
    out.append((4, 2, 0, [["P", 4, 1]]))
    out.append((4, 2, 0, [["P", -5, 1]]))
    out.append((4, 2, 0, [["P", 0, 256], ["L"]]))
    out.append((4, 2, 0, [["P", 9, -1]]))
    out.append((4, 2, 0, [["S", its[0].hex(), M32 + 1]]))
    out.append((4, 2, 0, [["S", its[0].hex(), -1]]))
    out.append((4, 2, 0, [["R", "00" * 7], ["A", its[0].hex()], ["L"]]))      # a longer array: bit_count is stale
    out.append((4, 2, 0, [["R", "00" * 2], ["L"], ["C", 3], ["B", 31]]))      # a shorter one: IndexError
    for _ in range(160 if tier == "quick" else 8000):
        size = rng.choice([1, 2, 3, 8, 20, rng.randint(1, 120), rng.randint(1, 120)])
        mono = rng.random() < 0.6
        ops = [_rand_op(rng, size, MONO if mono else None) for _ in range(rng.randint(2, 14))]
        out.append((size, rng.choice([1, 2, 5, 11, rng.randint(0, 30)]), rng.choice([0, rng.getrandbits(32), rng.getrandbits(40), -rng.getrandbits(8)]), ops))
    return out


def _history_extra(rng, tier):
    """histories outside the model's vocabulary: add_address, other buffer / int presentations of the same values"""
    out = []
    for _ in range(40 if tier == "quick" else 1500):
        size = rng.choice([3, 8, 50, rng.randint(1, 100)])
        ops = []
        for _ in range(rng.randint(2, 9)):
            c = rng.random()
            if c < 0.2:
                ops.append(["ADDR", _rb(rng, 20).hex()])
            elif c < 0.45:
                ops.append([rng.choice(["A", "H"]), _rb(rng, rng.choice([20, 32, 36])).hex(), rng.choice(PRESENTATIONS)])
            elif c < 0.55:
                ops.append(["S", _rb(rng, 32).hex(), rng.choice([0, 1, rng.getrandbits(32)]), rng.choice(["sub", "bool", "enum"])])
            elif c < 0.65:
                if rng.random() < 0.5:
                    ops.append(["T", rng.choice([0, 1, 7, rng.getrandbits(32)]), rng.choice(["sub", "bool", "enum"])])
                else:
                    ops.append(["K", rng.choice([0, 1, 7, rng.randint(0, 25)]), rng.choice(["sub", "bool", "enum"])])   # k iterations: keep small
            elif c < 0.75:
                ops.append([rng.choice(["B", "C"]), rng.randint(0, 8 * size - 1), rng.choice(["sub", "enum"])])
            else:
                ops.append(["L"])
        ops.append(["L"])
        out.append((size, present_int(rng.randint(1, 12), rng.choice([None, "sub", "enum"])), present_int(rng.getrandbits(32), rng.choice([None, "sub", "enum"])), ops))
    return out


def chk_history(size, k, tweak, ops):
    """the real object through a history against the memory-less reference, a fresh object, and the peer's test"""
    ops = [list(o) for o in ops]
    if not all(op_ok(size, o) for o in ops):
        return None
    try:
        got = impl_history(size, k, tweak, ops)
    except Exception as e:
        return {"kind": "history-raises", "detail": "%s: %s" % (type(e).__name__, e)}
    want = ref_history(size, k, tweak, ops)
    for n, (g, w) in enumerate(zip(got[1], want[1])):
        if g != w:
            if ops[n][0] == "L":
                return {"kind": "filterload-not-current-state", "op_index": n, "loads_before": sum(1 for o in ops[:n] if o[0] == "L"),
                        "got": (g[0].hex()[:120], g[1], g[2]), "want": (w[0].hex()[:120], w[1], w[2])}
            return {"kind": "observation-differs", "op_index": n, "op": ops[n][0], "got": repr(g)[:100], "want": repr(w)[:100]}
    if got[0] != want[0]:
        return {"kind": "history-filter-bytes-not-bip37", "got": got[0].hex()[:200], "want": want[0].hex()[:200]}
    # every filterload matches every element added before it (histories without attribute assignments)
    if size > 0 and all(o[0] in ("A", "H", "S", "ADDR", "B", "C", "L") for o in ops):
        added = []
        for n, o in enumerate(ops):
            it = op_item(o)
            if it is not None:
                added.append(it)
            if o[0] == "L":
                fb, kk, tt = got[1][n]
                for it in added:
                    if not ref_contains(fb, kk, tt, it):
                        return {"kind": "filterload-does-not-match-added-element", "op_index": n, "item": it.hex()}
    # independent reference 2: a fresh object given only the mutators
    try:
        fresh = B.BloomFilter(size, k, tweak)
        for o in ops:
            if o[0] not in OBSERVERS:
                apply_op(fresh, o)
        fl = apply_op(fresh, ["L"])
        if bytes(fresh.filter_bytes) != got[0]:
            return {"kind": "observers-changed-the-filter", "got": got[0].hex()[:200], "fresh": bytes(fresh.filter_bytes).hex()[:200]}
        if ops and ops[-1][0] == "L" and got[1][-1] != fl:
            return {"kind": "filterload-differs-from-fresh-object", "got": got[1][-1][0].hex()[:120], "fresh": fl[0].hex()[:120]}
    except Exception as e:
        return {"kind": "fresh-object-raises", "detail": "%s: %s" % (type(e).__name__, e)}
    return None


def chk_two_filters(pa, pb, items, order):
    """two live filters with different parameters fed the same elements in an interleaved order (class/module-level
    state would leak from one to the other); order = string of 'a'/'b'/'A'/'B' (capital: filter_load_params)"""
    try:
        fa, fb = B.BloomFilter(*pa), B.BloomFilter(*pb)
        ia, ib, loads = 0, 0, []
        for c in order:
            if c == "a" and ia < len(items):
                fa.add_item(items[ia])
                ia += 1
            elif c == "b" and ib < len(items):
                fb.add_item(items[ib])
                ib += 1
            elif c in "AB":
                f, p, n = (fa, pa, ia) if c == "A" else (fb, pb, ib)
                lp = f.filter_load_params()
                if (bytes(lp[0]), int(lp[1]), int(lp[2])) != (bytes(ref_bloom(p[0], p[1], p[2], items[:n])), p[1], p[2]):
                    return {"kind": "two-filters-filterload", "which": c, "after": n}
        for f, p, n in ((fa, pa, ia), (fb, pb, ib)):
            if bytes(f.filter_bytes) != bytes(ref_bloom(p[0], p[1], p[2], items[:n])):
                return {"kind": "two-filters-bits-not-bip37", "params": list(p), "after": n}
    except Exception as e:
        return {"kind": "two-filters-raises", "detail": "%s: %s" % (type(e).__name__, e)}
    return None


def chk_murmur_sequence(calls):
    """the same function called repeatedly (same data under other seeds, seeds equal under hash(): -1/-2, s/s+2^61-1,
    True/1, int subclasses): each answer must be the reference's, whatever was asked before"""
    for n, (dhex, s, dk, sk) in enumerate(calls):
        d = bytes.fromhex(dhex)
        try:
            got = B.murmur3(present_bytes(d, dk), seed=present_int(s, sk))
        except Exception as e:
            return {"kind": "murmur3-raises", "call": n, "detail": "%s: %s" % (type(e).__name__, e)}
        if got != ref_murmur3(d, s):
            return {"kind": "murmur3-depends-on-history-or-presentation", "call": n, "got": got, "want": ref_murmur3(d, s)}
    return None


def chk_bundled_presentation(mhex, kind):
    m = bytes.fromhex(mhex)
    try:
        got = R.ripemd160(present_bytes(m, kind))
    except Exception as e:
        return {"kind": "bundled-ripemd160-raises", "presentation": kind, "exc": type(e).__name__, "detail": str(e)[:100]}
    if bytes(got) != ref_ripemd160(m):
        return {"kind": "bundled-ripemd160-not-standard", "presentation": kind, "len": len(m)}
    return None


P61 = (1 << 61) - 1


def _sequence_inputs(rng, tier):
    out = []
    for _ in range(30 if tier == "quick" else 2000):
        d = _rb(rng, rng.choice([0, 1, 3, 4, 20, 32, rng.randint(0, 60)])).hex()
        d2 = _rb(rng, len(d) // 2).hex()
        s = rng.choice([0, 1, rng.getrandbits(32), rng.getrandbits(64)])
        out.append([(d, -1, None, None), (d, -2, None, None), (d, -1, None, None)])
        out.append([(d, s, None, None), (d, s + P61, None, None), (d, s, None, None), (d2, s, None, None), (d, s + 1, None, None)])
        out.append([(d, 1, None, None), (d, 1, None, "bool"), (d, 0, None, "bool"), (d, s, None, "sub"), (d, s, None, "enum")])
        out.append([(d, s, k, None) for k in (None,) + PRESENTATIONS] + [(d, s + 1, "bytearray", None), (d, s, None, None)])
    return out


def _two_filter_inputs(rng, tier):
    out = []
    for _ in range(25 if tier == "quick" else 1500):
        pa = (rng.randint(1, 60), rng.randint(1, 12), rng.getrandbits(32))
        pb = rng.choice([(pa[0], pa[1], pa[2] + 1), (pa[0] + 1, pa[1], pa[2]), (pa[0], pa[1] + 1, pa[2]),
                         (rng.randint(1, 60), rng.randint(1, 12), rng.getrandbits(32))])
        items = [_rb(rng, 20) for _ in range(rng.randint(1, 4))]
        order = "".join(rng.choice("aabbAB") for _ in range(3 * len(items) + 2)) + "aaaabbbbAB"
        out.append((pa, pb, items, order))
        out.append((pa, pb, items, "a" * len(items) + "A" + "b" * len(items) + "B"))
        out.append((pa, pb, items, "b" * len(items) + "B" + "a" * len(items) + "A"))
    return out


# ---- implementation thunks ------------------------------------------------------------------------------------
def impl_bloom(size, k, tweak, items):
    bf = B.BloomFilter(size, k, tweak)
    for it in items:
        bf.add_item(it)
    return bytes(bf.filter_bytes)


def impl_bloom_bits(size, sets, checks):
    bf = B.BloomFilter(size, 0, 0)
    for v in sets:
        bf.set_bit(v)
    cs = [bool(bf.check_bit(c)) for c in checks]
    return (bytes(bf.filter_bytes), cs)


def impl_compress(h, block):
    return tuple(R.compress(h[0], h[1], h[2], h[3], h[4], block))


_DATASET = {}


def _cfg_dataset(rng, tier):
    """queries for every configuration worker, run once; returns {cfg: [(fn, data, result)]}"""
    key = tier
    if key in _DATASET:
        return _DATASET[key]
    msgs = _messages(rng, tier)
    res = {}
    for cfg in CONFIGS:
        q = [("choice", b"")]
        if cfg in MAIN_CONFIGS:
            q += [("ripemd160", m) for m in msgs]
            q += [("hash160", m) for m in msgs[:140]] + [("double_sha256", m) for m in msgs[:140]]
        else:
            sm = _short_messages(rng)
            q += [("ripemd160", m) for m in sm]
            q += [("hash160", m) for m in sm[:6]] + [("double_sha256", m) for m in sm[:3]]
        # presentations of the same byte string (bytes subclass / bytearray / memoryview)
        pm = [msgs[0], msgs[3], msgs[56], msgs[64], msgs[130]]
        for kind in PRESENTATIONS:
            q += [("%s@%s" % (fn, kind), m) for fn in ("ripemd160", "hash160", "double_sha256") for m in pm]
        q += [("ripemd160@wiped", m) for m in pm + [msgs[1], msgs[55], msgs[119]]]     # buffer overwritten before .digest()
        out = run_worker(cfg, q)
        res[cfg] = [(fn, d, r) for (fn, d), r in zip(q, out)]
    _DATASET[key] = (msgs, res)
    return _DATASET[key]


def model_cases(rng, tier):
    msgs, cfgres = _cfg_dataset(rng, tier)
    # A. the bundled implementation against its model and against the extracted SPECIFICATION
    for m in msgs:
        yield Case("pure_ripemd160 " + arg(m), (lambda m=m: call19(R.ripemd160, m)))
    for m in (msgs[:131] + msgs[183:194] + msgs[-3:] if tier == "quick" else msgs[:400] + msgs[-40:]):
        yield Case("spec_ripemd160 " + arg(m), (lambda m=m: call19(R.ripemd160, m)))
    for m in [msgs[n] for n in (0, 1, 55, 56, 63, 64, 65, 119, 120, 130, 200)]:
        for kind in PRESENTATIONS:      # the same bytes as bytes subclass / bytearray / memoryview
            yield Case("pure_ripemd160 " + arg(m), (lambda m=m, kind=kind: call19(R.ripemd160, present_bytes(m, kind))), meta=kind)
    # B. pycoin.encoding.hash in every configuration (worker processes) against selection + oracle/model
    for cfg, rows in cfgres.items():
        for fn, d, r in rows:
            fn, _, kind = fn.partition("@")
            if fn == "choice":
                yield Case("choice " + cfg_args(cfg), (lambda r=r: r), meta=cfg_name(cfg))
            elif fn == "ripemd160":
                yield Case("hash_ripemd160 %s %s" % (cfg_args(cfg), arg(d)), (lambda r=r: r), meta=cfg_name(cfg))
            elif fn == "hash160":
                yield Case("hash160 %s %s" % (cfg_args(cfg), arg(d)), (lambda r=r: r), meta=cfg_name(cfg))
            else:
                yield Case("double_sha256 " + arg(d), (lambda r=r: r), meta=cfg_name(cfg))
    # C. compress on arbitrary integer states, well- and ill-sized blocks
    for i in range(500 if tier == "quick" else 20000):
        h = [_word(rng) for _ in range(5)]
        if i % 25 == 0:
            block = _rb(rng, rng.choice([0, 1, 4, 60, 63, 65, 68, 128]))
        else:
            block = rng.choice([_rb(rng, 64), bytes([rng.choice([0, 0xff, 0x80])]) * 64])
        yield Case("compress %s %s" % (" ".join(arg(x) for x in h), arg(block)), (lambda h=h, block=block: call19(impl_compress, h, block)))
    # D. rol for every rotation 0..32, fi for every index
    for i in range(0, 33):
        for x in [0, 1, M32, M32 + 1, 0x80000000, -1, _word(rng), _word(rng), _word(rng)]:
            yield Case("rol %s %s" % (arg(x), arg(i)), (lambda x=x, i=i: call19(R.rol, x, i)))
    for i in (0, 1, 2, 3, 4, 5, -1, 6):
        for _ in range(12):
            x, y, z = _word(rng), _word(rng), _word(rng)
            yield Case("fi %s %s %s %s" % (arg(x), arg(y), arg(z), arg(i)), (lambda x=x, y=y, z=z, i=i: call19(R.fi, x, y, z, i)))
    # E. murmur3: model and specification
    for d, s in _murmur_inputs(rng, tier):
        yield Case("murmur3 %s %s" % (arg(d), arg(s)), (lambda d=d, s=s: call19(B.murmur3, d, s)))
        if len(d) <= 44:
            yield Case("spec_murmur3 %s %s" % (arg(d), arg(s)), (lambda d=d, s=s: call19(B.murmur3, d, s)))
    # F. Bloom filter sessions and raw bit addressing
    for size, k, tweak, items in _bloom_inputs(rng, tier):
        yield Case("bloom %s %s %s %s" % (arg(size), arg(k), arg(tweak), arg(items)),
                   (lambda size=size, k=k, tweak=tweak, items=items: call19(impl_bloom, size, k, tweak, items)))
        if 0 < size <= 400:
            yield Case("spec_bloom %s %s %s %s" % (arg(size), arg(k), arg(tweak), arg(items)),
                       (lambda size=size, k=k, tweak=tweak, items=items: call19(impl_bloom, size, k, tweak, items)))
    for size, vs, cs in _bits_inputs(rng, tier):
        yield Case("bloom_bits %s %s %s" % (arg(size), arg(vs), arg(cs)),
                   (lambda size=size, vs=vs, cs=cs: call19(impl_bloom_bits, size, vs, cs)))
    # G. histories of one BloomFilter object: mutators and observers interleaved (model and memory-less specification)
    for size, k, tweak, ops in _history_inputs(rng, tier):
        line = history_line("bloom_history", size, k, tweak, ops)
        if line is None:
            continue
        yield Case(line, (lambda size=size, k=k, tweak=tweak, ops=ops: call19(impl_history, size, k, tweak, ops)))
        if 0 < size <= 400 and all(op_ok(size, o) for o in ops):
            yield Case(history_line("spec_history", size, k, tweak, ops),
                       (lambda size=size, k=k, tweak=tweak, ops=ops: call19(impl_history, size, k, tweak, ops)))


# ---- direct property checks (implementation against independent references; no Coq involved) ------------------
def chk_pure(m):
    try:
        got = R.ripemd160(m)
    except Exception as e:
        return {"kind": "bundled-ripemd160-raises", "detail": "%s: %s" % (type(e).__name__, e), "len": len(m)}
    if got != ref_ripemd160(m):
        return {"kind": "bundled-ripemd160-not-standard", "len": len(m), "got": got.hex(), "want": ref_ripemd160(m).hex()}
    return None


def chk_cfg_row(cfg, fn, d, r):
    want = {"ripemd160": ref_ripemd160, "hash160": ref_hash160, "double_sha256": ref_dsha}[fn.partition("@")[0]](d)
    if r != "x" + want.hex():
        return {"kind": "%s-not-standard" % fn, "config": cfg_name(cfg), "len": len(d), "got": r, "want": want.hex()}
    return None


def chk_cfg(cfg, fn, d):
    r = run_worker(tuple(cfg), [(fn, d)])[0]
    return chk_cfg_row(tuple(cfg), fn, d, r)


def chk_murmur(d, s):
    try:
        got = B.murmur3(d, seed=s)
    except Exception as e:
        return {"kind": "murmur3-raises", "detail": "%s: %s" % (type(e).__name__, e)}
    if got != ref_murmur3(d, s):
        return {"kind": "murmur3-not-reference", "got": got, "want": ref_murmur3(d, s)}
    return None


def chk_bloom(size, k, tweak, items):
    try:
        bf = B.BloomFilter(size, k, tweak)
    except ValueError:
        return None if (size > 36000 or size < 0) else {"kind": "bloom-constructor-raises", "size": size}
    if size > 36000 or size < 0:
        return {"kind": "bloom-constructor-accepts-bad-size", "size": size}
    for n, it in enumerate(items):
        try:
            bf.add_item(it)
        except ZeroDivisionError:
            return {"kind": "bloom-add-item-zerodivision", "size": size, "k": k}
        except Exception as e:
            return {"kind": "bloom-add-item-raises", "detail": "%s: %s" % (type(e).__name__, e)}
        want = ref_bloom(size, k, tweak, items[:n + 1])
        if bytes(bf.filter_bytes) != bytes(want):
            return {"kind": "bloom-bits-not-bip37", "after_items": n + 1, "got": bytes(bf.filter_bytes).hex()[:200], "want": bytes(want).hex()[:200]}
    for it in items:
        if not ref_contains(bf.filter_bytes, k, tweak, it):
            return {"kind": "bloom-added-item-not-matched", "item": it.hex()}
    return None


def chk_embedded_vectors(with_million):
    """the Bosselaers vectors embedded in ripemd160.py (class TestFrameworkKey; not collected by pycoin's suite)"""
    if with_million:
        t = R.TestFrameworkKey("test_ripemd160")
        res = unittest.TestResult()
        t.run(res)
        if not res.wasSuccessful():
            return {"kind": "embedded-vectors-fail", "detail": str((res.failures + res.errors)[0][1])[-300:]}
        return None
    for msg, hx in [(b"", "9c1185a5c5e9fc54612808977ee8f548b2258d31"), (b"abc", "8eb208f7e05d987a9b044a8e98c6b087f15a0bfc"),
                    (b"1234567890" * 8, "9b752e45573d4b39f4dbd3323cab82bf63326bfb"),
                    (b"a" * 100000, hashlib.new("ripemd160", b"a" * 100000).hexdigest())]:
        if R.ripemd160(msg).hex() != hx:
            return {"kind": "embedded-vectors-fail", "len": len(msg)}
    return None


def prop_cases(rng, tier):
    if tier in _DATASET:
        msgs, cfgres = _DATASET[tier]
    else:
        msgs, cfgres = _cfg_dataset(rng, tier)
    for m in msgs:
        yield PropCase("bundled_vs_hashlib", {"m": m.hex() if len(m) <= 20000 else None, "len": len(m), "seedhex": m[:8].hex()},
                       (lambda m=m: chk_pure(m)))
    for cfg, rows in cfgres.items():
        for fn, d, r in rows:
            if fn == "choice":
                continue
            yield PropCase("config_digest", {"cfg": list(cfg), "fn": fn, "d": d.hex() if len(d) <= 400 else None, "len": len(d)},
                           (lambda cfg=cfg, fn=fn, d=d, r=r: chk_cfg_row(cfg, fn, d, r)))
    yield PropCase("embedded_vectors", {"million": tier == "thorough"}, (lambda: chk_embedded_vectors(tier == "thorough")))
    for d, s in _murmur_inputs(rng, "quick" if tier == "quick" else "thorough"):
        yield PropCase("murmur3_vs_reference", {"d": d.hex(), "seed": s}, (lambda d=d, s=s: chk_murmur(d, s)))
    for size, k, tweak, items in _bloom_inputs(rng, tier):
        if size > 36001:
            continue
        yield PropCase("bloom_bip37", {"size": size, "k": k, "tweak": tweak, "items": [i.hex() for i in items]},
                       (lambda size=size, k=k, tweak=tweak, items=items: chk_bloom(size, k, tweak, items)))
    for size, k, tweak, ops in _history_inputs(rng, tier) + _history_extra(rng, tier):
        yield PropCase("bloom_history", {"size": size, "k": int(k), "tweak": int(tweak), "ops": ops},
                       (lambda size=size, k=k, tweak=tweak, ops=ops: chk_history(size, k, tweak, ops)))
    for pa, pb, items, order in _two_filter_inputs(rng, tier):
        yield PropCase("two_filters", {"a": list(pa), "b": list(pb), "items": [i.hex() for i in items], "order": order},
                       (lambda pa=pa, pb=pb, items=items, order=order: chk_two_filters(pa, pb, items, order)))
    for calls in _sequence_inputs(rng, tier):
        yield PropCase("murmur3_sequence", {"calls": [list(c) for c in calls]}, (lambda calls=calls: chk_murmur_sequence(calls)))
    for n in (0, 1, 55, 56, 64, 65, 130):
        for kind in PRESENTATIONS:
            m = _rb(rng, n)
            yield PropCase("bundled_presentation", {"m": m.hex(), "kind": kind}, (lambda m=m, kind=kind: chk_bundled_presentation(m.hex(), kind)))


def replay_input(check, inp):
    if check == "bundled_vs_hashlib":
        if inp.get("m") is None:
            return {"kind": "replay-needs-the-seeded-run", "len": inp.get("len")}
        return chk_pure(bytes.fromhex(inp["m"]))
    if check == "config_digest":
        if inp.get("d") is None:
            return {"kind": "replay-needs-the-seeded-run", "len": inp.get("len")}
        return chk_cfg(tuple(inp["cfg"]), inp["fn"], bytes.fromhex(inp["d"]))
    if check == "embedded_vectors":
        return chk_embedded_vectors(bool(inp.get("million")))
    if check == "murmur3_vs_reference":
        return chk_murmur(bytes.fromhex(inp["d"]), int(inp["seed"]))
    if check == "bloom_bip37":
        return chk_bloom(inp["size"], inp["k"], inp["tweak"], [bytes.fromhex(i) for i in inp["items"]])
    if check == "bloom_history":
        return chk_history(inp["size"], inp["k"], inp["tweak"], inp["ops"])
    if check == "two_filters":
        return chk_two_filters(tuple(inp["a"]), tuple(inp["b"]), [bytes.fromhex(i) for i in inp["items"]], inp["order"])
    if check == "murmur3_sequence":
        return chk_murmur_sequence([tuple(c) for c in inp["calls"]])
    if check == "bundled_presentation":
        return chk_bundled_presentation(inp["m"], inp["kind"])
    return {"kind": "unknown-check"}


def classify(pc, r):
    return None


KNOWN_REPLAYS = {}


def _parse(tok):
    if tok.startswith("x"):
        return bytes.fromhex(tok[1:])
    if tok.startswith("i-"):
        return -int(tok[2:], 16)
    if tok.startswith("i"):
        return int(tok[1:], 16)
    if tok in ("T", "F"):
        return tok == "T"
    if tok.startswith("["):
        return [_parse(t) for t in tok[1:-1].split(",") if t]
    return tok


def search(rng, tier, disagreements, known_ids):
    """after a proof/correspondence break: the neighbourhood of the disagreeing cases first, then the generic checks"""
    cands = []
    for d in disagreements[:60]:
        toks = d["case"].split(" ")
        fn = toks[0]
        try:
            if fn in ("pure_ripemd160", "spec_ripemd160"):
                m = _parse(toks[1])
                for mm in (m, m[:-1], m + b"\x00", b"\x00" * len(m)):
                    cands.append(PropCase("bundled_vs_hashlib", {"m": mm.hex(), "len": len(mm)}, (lambda mm=mm: chk_pure(mm))))
            elif fn in ("hash_ripemd160", "hash160", "double_sha256"):
                data = _parse(toks[-1])
                wfn = {"hash_ripemd160": "ripemd160"}.get(fn, fn)
                cfgs = MAIN_CONFIGS if fn == "double_sha256" else [c for c in CONFIGS if cfg_args(c) == " ".join(toks[1:5])][:5]
                for cfg in cfgs:
                    cands.append(PropCase("config_digest", {"cfg": list(cfg), "fn": wfn, "d": data.hex(), "len": len(data)},
                                          (lambda cfg=cfg, wfn=wfn, data=data: chk_cfg(cfg, wfn, data))))
            elif fn in ("compress", "rol", "fi"):
                blk = _parse(toks[-1]) if fn == "compress" else b""
                for mm in (blk, blk[:55], blk + blk, b""):
                    cands.append(PropCase("bundled_vs_hashlib", {"m": mm.hex(), "len": len(mm)}, (lambda mm=mm: chk_pure(mm))))
            elif fn in ("murmur3", "spec_murmur3"):
                dd, s = _parse(toks[1]), _parse(toks[2])
                for s2 in (s, s & M32, 0):
                    cands.append(PropCase("murmur3_vs_reference", {"d": dd.hex(), "seed": s2}, (lambda dd=dd, s2=s2: chk_murmur(dd, s2))))
            elif fn in ("bloom", "spec_bloom"):
                size, k, tweak, items = _parse(toks[1]), _parse(toks[2]), _parse(toks[3]), _parse(toks[4])
                if size <= 36001:
                    cands.append(PropCase("bloom_bip37", {"size": size, "k": k, "tweak": tweak, "items": [i.hex() for i in items]},
                                          (lambda size=size, k=k, tweak=tweak, items=items: chk_bloom(size, k, tweak, items))))
            elif fn in ("bloom_history", "spec_history"):
                size, k, tweak = _parse(toks[1]), _parse(toks[2]), _parse(toks[3])
                ops = []
                for t in toks[4][1:-1].split(","):
                    if not t:
                        continue
                    f = t.split(":")
                    ops.append([f[0]] + [(x[1:] if x.startswith("x") else _parse(x)) for x in f[1:]])
                variants = [ops, [o for o in ops if o[0] not in ("T", "K", "P", "R")]]
                inter = []
                for o in variants[1]:
                    inter += [o, ["L"]]
                variants += [inter, [["L"]] + inter]
                for n in range(1, len(ops)):
                    variants.append(ops[:n] + [["L"]])
                for vv in variants:
                    if 0 <= size <= 36000:
                        cands.append(PropCase("bloom_history", {"size": size, "k": k, "tweak": tweak, "ops": vv},
                                              (lambda size=size, k=k, tweak=tweak, vv=vv: chk_history(size, k, tweak, vv))))
            elif fn == "bloom_bits":
                size, vs = _parse(toks[1]), _parse(toks[2])
                if 0 < size <= 5000:
                    it = _rb(rng, 20)
                    cands.append(PropCase("bloom_bip37", {"size": size, "k": 7, "tweak": 5, "items": [it.hex()]},
                                          (lambda size=size, it=it: chk_bloom(size, 7, 5, [it]))))
        except Exception:
            continue
    tried = 0
    for pc in cands:
        tried += 1
        try:
            r = pc.thunk()
        except Exception as e:
            r = {"kind": "raises", "detail": str(e)}
        if r is not None and classify(pc, r) not in known_ids:
            return {"check": pc.name, "input": pc.inp, "failure": r}
    _DATASET.pop("search", None)
    for pc in prop_cases(rng, tier):
        try:
            r = pc.thunk()
        except Exception as e:
            r = {"kind": "raises", "detail": str(e)}
        if r is not None and classify(pc, r) not in known_ids:
            return {"check": pc.name, "input": pc.inp, "failure": r}
    return None
