"""C03 — script evaluation agrees with Bitcoin consensus.  Coordinator's wiring of the two halves:
   c03_model (Gallina model of pycoin's VM, correspondence run) and c03_spec (Core spec, impl-vs-spec differential)."""
import struct
from common import *
import c03_model
import c03_spec

PROP = "C03"
DRIVER = c03_model.DRIVER            # "C03model": correspondence implementation vs Model/VMpy.v
EXTRA_DRIVERS = [c03_spec.DRIVER_SPEC]
EXTRA_TARGETS = ["Proofs/VMpyP.vo", "Proofs/VMpySigP.vo", "Proofs/VMpyTieC04.vo", "Proofs/CondStackP.vo",
                 "Extract/ExtractC03spec.vo"]
EXTRA_PROPS = ["C03agree", "C03spend"]
INTERACTIVE = True
ORACLES = c03_model.ORACLES
RULE = (c03_model.RULE_MODEL + "; direct checks: real pycoin (BitcoinVM.eval_script / Tx.check_solution) vs the extracted Core spec "
        "Spec/VMcore.v on generated scripts and spends (the spec itself re-validated on Core's script_tests/tx_valid/tx_invalid vectors each run)")
PARTIAL = [
    "C03_eval_agrees (Props/C03agree.v) proves VMpy.eval_script = VMcore.EvalScript for ALL scripts under hypotheses c03_hyps: "
    "(H1) MINIMALIF/WITNESS_PUBKEYTYPE clear for base scripts (check_solution strips them), (H2) a DER flag set or the oracle "
    "answers false for blobs pycoin's lax DER reader rejects, (size) items below 2^32 bytes for base scripts",
    "the spend pipeline (check_solution vs VerifyScript: P2SH / witness dispatch, CLEANSTACK, SIGPUSHONLY) is NOT covered by a "
    "theorem; it is decided by the differential run (17k spends quick) and the correspondence",
    "flag sets with none of DERSIG/LOW_S/STRICTENC (Core's lax DER parser) are outside the agreement claim: open finding lax-der-parser",
    "ECDSA verification, key parsing and digest computation are folded into the o_checksig oracle (C01/C04/C10 own them)",
]
TRUSTED = ["Spec/VMcore.v is a hand transcription of Bitcoin Core's interpreter (DESIGN.md Appendix A), validated on all 1405 vectors "
           "of /repo/tests/btc/data on every run", "harness/c03_spec.py's independent Python SignatureHash/lax-DER/pubkey parsing answers the spec's checksig oracle"]

model_cases = c03_model.model_cases
nontrivial = c03_model.nontrivial


def prop_cases(rng, tier):
    c03_spec.ensure_spec_driver()
    for pc in c03_spec.prop_cases(rng, tier):
        yield pc


classify = c03_spec.classify
KNOWN_REPLAYS = c03_spec.KNOWN_REPLAYS
replay_input = c03_spec.replay_input


def _to_spec_case(d):
    """model-side input dict (c03_model.parse_case) -> c03_spec EvalCase / SpendCase on the same synthetic transaction"""
    version, lock_time, sequence, amount, shape = struct.unpack("<LLLQB", d["ctx"])
    n_in, n_out, idx = c03_model._SHAPES[shape]
    if d["kind"] == "eval":
        tx, _ = c03_model.build_tx(d["ctx"])
    else:
        tx, _ = c03_model.build_tx(d["ctx"], d["script_sig"], d["script_pubkey"], d["witness"])
    vin = [[ti.previous_hash, ti.previous_index, ti.script, ti.sequence, list(ti.witness)] for ti in tx.txs_in]
    vout = [[to.coin_value, to.script] for to in tx.txs_out]
    stx = c03_spec.SynTx(version, vin, vout, lock_time)
    if d["kind"] == "eval":
        return "eval", c03_spec.EvalCase(d["flags"], d["sv"], d["script"], d["stack"], stx, idx, amount, "from-model")
    return "spend", c03_spec.SpendCase(d["flags"], stx, idx, d["script_pubkey"], amount, "from-model")


def search(rng, tier, disagreements, known_ids):
    """proof or correspondence broke: is there an input on which the implementation and the Core spec differ?"""
    c03_spec.ensure_spec_driver()
    # 1. the neighbourhood of the model disagreements, run through the impl-vs-spec predicate
    try:
        for d in c03_model.search_from_disagreements(disagreements, rng=rng, limit=400):
            try:
                kind, c = _to_spec_case(d)
            except Exception:
                continue
            r = c03_spec.chk_eval(c) if kind == "eval" else c03_spec.chk_spend(c)
            if r is not None:
                pc = PropCase(kind, c.to_json(), None)
                if classify(pc, r) not in known_ids:
                    return {"check": kind, "input": c.to_json(), "failure": r}
    except Exception as e:
        print("[C03] neighbourhood search raised %s: %s" % (type(e).__name__, e))
    # 2. the spec side's own search (generic generator, thorough budget)
    return c03_spec.search(rng, tier, disagreements, known_ids)
