"""C04 — signature hashes equal the consensus definition for every hash type.

correspondence : extracted Model/Sighash.v  vs  SolutionChecker(tx)._signature_hash / _signature_for_hash_type_segwit /
                 _segwit_signature_preimage / delete_subscript / _delete_signature / _make_sighash_f on five Tx classes
direct checks  : implementation vs the extracted Core/BIP143 SPEC (Spec/SighashCore.v; hashlib applied to the spec's
                 preimage), the SIGHASH_SINGLE constant, fork-id refusals, FindAndDelete, non-mutation, and validation of
                 the SPEC itself on the BIP143 examples of /repo/tests and on the signatures of Core's tx_valid.json.
"""
from common import *
import ast as _ast

from pycoin.coins.bitcoin.Tx import Tx as BtcTx
from pycoin.coins.litecoin import LTCTx
from pycoin.coins.bcash.Tx import Tx as BchTx
from pycoin.coins.bgold.Tx import Tx as BtgTx
from pycoin.coins.groestlcoin.Tx import Tx as GrsTx
from pycoin.coins.bitcoin.SolutionChecker import BitcoinSolutionChecker as BSC
from pycoin.encoding.bytes32 import to_bytes_32

import c04_history as HIST

PROP = "C04"
DRIVER = "C04"
INTERACTIVE = True
RULE = ("correspondence: one driver line per (function, transaction class, transaction, script, input index, LIST of hash "
        "types: ~33 per line in quick, all 256 + one wide value in thorough, 64 per line); each line compares one result per "
        "hash type (digest as integer = hashlib applied to the model's preimage, or exception class); distinct = distinct "
        "line; non-trivial = at least one hash type yields a digest/bytes rather than an exception")
PARTIAL = ["'computing a hash never modifies the transaction': a pure model cannot alias; checked directly on the "
           "implementation (as_bin(include_unspents) + object identities before/after every entry point), not a theorem",
           "legacy digest on script codes with an undecodable instruction: equal to Core's original FindAndDelete formulation "
           "(all scripts); Core's streaming SerializeScriptCode differs from that formulation there (consensus-unobservable)",
           "negative Python ints in transaction fields / hash_type are outside the model (N)"]
TRUSTED = ["struct.pack '<L' '<Q' '<H' '<B' modelled as fixed-width little-endian with struct.error on overflow (Base/Varint.v)",
           "Spec/SighashCore.v is a transcription of Bitcoin Core's GetScriptOp / FindAndDelete / CTransactionSignatureSerializer "
           "and of BIP143 made without network access; validated on the BIP143 examples and on the signatures of tx_valid.json"]
ASSUMPTIONS = ["hash functions are parameters of the theorems (any functions); no collision-freeness is assumed or needed"]

CLASSES = {"BTC": BtcTx, "LTC": LTCTx, "BCH": BchTx, "BTG": BtgTx, "GRS": GrsTx}
COINS = ["BTC", "LTC", "BCH", "BTG", "GRS"]


def sha(b):
    return hashlib.sha256(b).digest()


def dsha(b):
    return sha(sha(b))


# ================================================================================================
# transactions as plain data:  {"v":int, "ins":[(hash,index,script,seq)], "outs":[(value,script)], "lock":int,
#                               "uns":[None|(value,script)]}
def tx_tokens(t):
    ins = "[" + ",".join("%s:%x:%s:%x" % (h.hex(), i, s.hex(), q) for h, i, s, q in t["ins"]) + "]"
    outs = "[" + ",".join("%x:%s" % (v, s.hex()) for v, s in t["outs"]) + "]"
    uns = "[" + ",".join("N" if u is None else "%x:%s" % (u[0], u[1].hex()) for u in t["uns"]) + "]"
    return "i%x %s %s i%x %s" % (t["v"], ins, outs, t["lock"], uns)


def _lst(tok):
    body = tok[1:-1]
    return body.split(",") if body else []


def tx_from_tokens(toks):
    v, ins, outs, lock, uns = toks
    t = {"v": int(v[1:], 16), "lock": int(lock[1:], 16), "ins": [], "outs": [], "uns": []}
    for e in _lst(ins):
        h, i, s, q = e.split(":")
        t["ins"].append((bytes.fromhex(h), int(i or "0", 16), bytes.fromhex(s), int(q or "0", 16)))
    for e in _lst(outs):
        a, s = e.split(":")
        t["outs"].append((int(a or "0", 16), bytes.fromhex(s)))
    for e in _lst(uns):
        if e == "N":
            t["uns"].append(None)
        else:
            a, s = e.split(":")
            t["uns"].append((int(a or "0", 16), bytes.fromhex(s)))
    return t


def tx_json(t):
    return {"v": t["v"], "lock": t["lock"], "ins": [[h.hex(), i, s.hex(), q] for h, i, s, q in t["ins"]],
            "outs": [[v, s.hex()] for v, s in t["outs"]],
            "uns": [None if u is None else [u[0], u[1].hex()] for u in t["uns"]]}


def tx_unjson(j):
    return {"v": j["v"], "lock": j["lock"], "ins": [(bytes.fromhex(h), i, bytes.fromhex(s), q) for h, i, s, q in j["ins"]],
            "outs": [(v, bytes.fromhex(s)) for v, s in j["outs"]],
            "uns": [None if u is None else (u[0], bytes.fromhex(u[1])) for u in j["uns"]]}


def build(coin, t):
    T = CLASSES[coin]
    tx = T(t["v"], [T.TxIn(h, i, s, q) for h, i, s, q in t["ins"]], [T.TxOut(v, s) for v, s in t["outs"]], t["lock"])
    tx.unspents = [None if u is None else T.TxOut(u[0], u[1]) for u in t["uns"]]
    return tx


def checker(coin, t):
    tx = build(coin, t)
    return tx.SolutionChecker(tx)


# ================================================================================================
# Python transcription of Spec/SighashCore.v (used by search/replay and when the driver is unavailable; in normal
# runs it is itself compared with the extracted spec)
def r_le(v, w):
    return (v % (1 << (8 * w))).to_bytes(w, "little")


def r_compact(n):
    if n < 253:
        return bytes([n])
    if n <= 0xFFFF:
        return b"\xfd" + r_le(n, 2)
    if n <= 0xFFFFFFFF:
        return b"\xfe" + r_le(n, 4)
    return b"\xff" + r_le(n, 8)


def r_get_op(s):
    if not s:
        return ("fail", 0)
    op = s[0]
    r = s[1:]
    if op <= 78:
        w = 0 if op < 76 else {76: 1, 77: 2, 78: 4}[op]
        if len(r) < w:
            return ("fail", 1)
        n = op if op < 76 else int.from_bytes(r[:w], "little")
        if len(r) - w < n:
            return ("fail", 1 + w)
        return ("ok", op, 1 + w + n)
    return ("ok", op, 1)


def r_decodable(s):
    while s:
        g = r_get_op(s)
        if g[0] != "ok":
            return False
        s = s[g[2]:]
    return True


def r_undecodable_tail(s):
    while True:
        g = r_get_op(s)
        if g[0] != "ok":
            return s
        s = s[g[2]:]


def r_fad(b, s):
    if not b:
        return s
    out = b""
    while True:
        if s.startswith(b):
            s = s[len(b):]
            continue
        g = r_get_op(s)
        if g[0] != "ok":
            return out + s
        out += s[:g[2]]
        s = s[g[2]:]


def r_push(v):
    n = len(v)
    if n < 76:
        return bytes([n]) + v
    if n <= 0xFF:
        return b"\x4c" + r_le(n, 1) + v
    if n <= 0xFFFF:
        return b"\x4d" + r_le(n, 2) + v
    return b"\x4e" + r_le(n, 4) + v


def r_script_code_base(script, sigs):
    for sg in sigs:
        script = r_fad(r_push(sg), script)
    return script


def r_ser_script_code(s):
    nsep = 0
    t = s
    while True:
        g = r_get_op(t)
        if g[0] != "ok":
            break
        if g[1] == 0xAB:
            nsep += 1
        t = t[g[2]:]
    out = b""
    t = s
    while True:
        g = r_get_op(t)
        if g[0] != "ok":
            out += t[:g[1]]
            break
        if g[1] != 0xAB:
            out += t[:g[2]]
        t = t[g[2]:]
    return r_compact(len(s) - nsep) + out


def r_ser_out(o):
    return r_le(o[0], 8) + r_compact(len(o[1])) + o[1]


R_NULL_OUT = ((1 << 64) - 1, b"")
R_ONE = b"\x01" + b"\x00" * 31


def r_legacy(script, t, n_in, ht, streaming=False):
    """-> ("C", 32 bytes) | ("P", preimage).  streaming=False: the original formulation (FindAndDelete of
    OP_CODESEPARATOR, script serialized whole); True: today's SerializeScriptCode.  Equal on decodable scripts."""
    code = r_ser_script_code(script) if streaming else (lambda f: r_compact(len(f)) + f)(r_fad(b"\xab", script))
    vin, vout = t["ins"], t["outs"]
    acp = (ht & 0x80) != 0
    single = (ht & 31) == 3
    none = (ht & 31) == 2
    if n_in >= len(vin):
        return ("C", R_ONE)
    if single and n_in >= len(vout):
        return ("C", R_ONE)
    out = r_le(t["v"], 4)
    n_inputs = 1 if acp else len(vin)
    out += r_compact(n_inputs)
    for k in range(n_inputs):
        k2 = n_in if acp else k
        h, i, _s, q = vin[k2]
        out += h + r_le(i, 4)
        out += code if k2 == n_in else r_compact(0)
        out += r_le(0, 4) if (k2 != n_in and (single or none)) else r_le(q, 4)
    n_outputs = 0 if none else (n_in + 1 if single else len(vout))
    out += r_compact(n_outputs)
    for k in range(n_outputs):
        if single and k != n_in:
            out += r_ser_out(R_NULL_OUT)
        else:
            out += r_ser_out(vout[k])
    out += r_le(t["lock"], 4)
    return ("P", out + r_le(ht, 4))


def r_bip143(H, script, t, n_in, amount, ht):
    vin, vout = t["ins"], t["outs"]
    acp = (ht & 0x80) != 0
    single = (ht & 31) == 3
    none = (ht & 31) == 2
    z = b"\x00" * 32
    hp = z if acp else H(b"".join(h + r_le(i, 4) for h, i, _s, _q in vin))
    hs = H(b"".join(r_le(q, 4) for _h, _i, _s, q in vin)) if (not acp and not single and not none) else z
    if not single and not none:
        ho = H(b"".join(r_ser_out(o) for o in vout))
    elif single and n_in < len(vout):
        ho = H(r_ser_out(vout[n_in]))
    else:
        ho = z
    h, i, _s, q = vin[n_in] if n_in < len(vin) else (b"", 0, b"", 0)
    return (r_le(t["v"], 4) + hp + hs + h + r_le(i, 4) + r_compact(len(script)) + script + r_le(amount, 8)
            + r_le(q, 4) + ho + r_le(t["lock"], 4) + r_le(ht, 4))


def r_forkid(H, fk, script, t, n_in, amount, ht):
    if ht & 0x40 == 0:
        return None
    return r_bip143(H, script, t, n_in, amount, ht | (fk << 8))


# ================================================================================================
# generators
MEANINGFUL = [1, 2, 3, 0x81, 0x82, 0x83, 0x41, 0x42, 0x43, 0xC1, 0xC2, 0xC3]
EXTRA_HT = [0, 4, 0x1F, 0x20, 0x22, 0x23, 0x62, 0x63, 0x9E, 0xA2, 0xE3, 0xFF, 0x40, 0x80, 0xC0]


def hash_types(rng, tier, wide=False):
    if tier == "thorough":
        l = list(range(256))
    else:
        l = MEANINGFUL + [rng.choice(EXTRA_HT) for _ in range(4)] + [rng.getrandbits(8) for _ in range(16)]
    if wide:
        l = l + [rng.choice([0x100, 0x141, 0x1FF, 0x4F41, 0x80000001, 0xFFFFFFFF, 0xFFFFFF43, 1 << 32, (1 << 32) + 0x41,
                             rng.getrandbits(32), rng.getrandbits(33)])]
    return l


def _sig_blob(rng):
    c = rng.random()
    if c < 0.45:
        n = rng.choice([70, 71, 72])
        return b"\x30" + bytes([n - 2]) + bytes(rng.getrandbits(8) for _ in range(n - 2)) + bytes([rng.choice(MEANINGFUL)])
    if c < 0.60:
        return bytes([rng.choice([0, 1, 5, 16, 17, 0x81, 0x80, 0xAB, rng.getrandbits(8)])])
    if c < 0.65:
        return b""
    n = rng.choice([2, 3, 9, 74, 75, 76, 77, 255, 256, 300])
    return bytes(rng.getrandbits(8) for _ in range(n))


def _push_forms(d, rng):
    """a push of d: minimal (pycoin's), Core's CScript()<<d, or a deliberately non-minimal one"""
    c = rng.random()
    if c < 0.45:
        return BSC.ScriptTools.compile_push_data_list([d])
    if c < 0.70:
        return r_push(d)
    n = len(d)
    forms = [b"\x4e" + n.to_bytes(4, "little") + d]
    if n <= 0xFFFF:
        forms.append(b"\x4d" + n.to_bytes(2, "little") + d)
    if n <= 0xFF:
        forms.append(b"\x4c" + bytes([n]) + d)
    if 0 < n <= 75:
        forms.append(bytes([n]) + d)
    return rng.choice(forms)


NONPUSH = [0x00, 0x4F, 0x51, 0x52, 0x55, 0x60, 0x61, 0x63, 0x67, 0x68, 0x75, 0x76, 0x87, 0x88, 0xA9, 0xAC, 0xAD, 0xAE, 0xAF,
           0xB1, 0xB2, 0x50, 0xBA, 0xFF]
TAILS = ["05ab", "0501", "4c", "4c10ab", "4d01", "4dff", "4e010000", "4e05000000ab", "4bab", "4b", "02", "4cff55",
         "4e", "4d", "4effffffffab", "01"]


def gen_script(rng, sigs, malformed_p=0.2):
    parts = []
    nsep = rng.choice([0, 0, 1, 1, 2, 3])
    for _ in range(rng.randint(0, 7)):
        c = rng.random()
        if c < 0.30 and sigs:
            parts.append(_push_forms(rng.choice(sigs), rng))
        elif c < 0.55:
            parts.append(bytes([rng.choice(NONPUSH)]))
        elif c < 0.62:
            parts.append(bytes([rng.getrandbits(8) | 0x80]))
        else:
            n = rng.choice([1, 1, 2, 3, 20, 32, 33, 65, 75, 76, 80, rng.randint(1, 90)])
            d = bytearray(rng.getrandbits(8) for _ in range(n))
            if rng.random() < 0.4:
                d[rng.randrange(n)] = 0xAB           # a code separator byte INSIDE pushed data
            if sigs and rng.random() < 0.2:
                d = bytearray(b"\x99" + _push_forms(rng.choice(sigs), rng))[:520]   # a signature push inside data
            parts.append(_push_forms(bytes(d), rng))
    for _ in range(nsep):
        parts.insert(rng.randint(0, len(parts)), b"\xab")
    s = b"".join(parts)
    if rng.random() < malformed_p:
        tail = bytes.fromhex(rng.choice(TAILS))
        if sigs and rng.random() < 0.5:
            tail += _push_forms(rng.choice(sigs), rng)
        if rng.random() < 0.5:
            tail += b"\xab"
        if len(tail) > 1 and rng.random() < 0.3:
            tail = tail[:rng.randint(1, len(tail))]
        s += tail
    return s


def gen_scenario(rng, wf=True):
    """-> (tx data, script code, input index, signature blobs).  wf: every field in range, index < #inputs, unspents present"""
    nin = rng.choice([1, 1, 2, 3, 4, 5, 6])
    nout = rng.choice([0, 1, 1, 2, 3, 4, 5, 6])
    u32 = lambda: rng.choice([0, 1, 2, 0xFFFFFFFF, 0xFFFFFFFE, 0x80000000, rng.getrandbits(32), rng.getrandbits(8), rng.getrandbits(16)])
    u64 = lambda: rng.choice([0, 1, 546, 5000000000, 2100000000000000, (1 << 63), (1 << 64) - 1, rng.getrandbits(64), rng.getrandbits(40)])
    bad = (lambda p: (not wf) and rng.random() < p)
    sigs = [_sig_blob(rng) for _ in range(rng.choice([0, 1, 1, 2, 3]))]
    ins = []
    for _ in range(nin):
        hl = 32 if not bad(0.06) else rng.choice([0, 31, 33, 40])
        ins.append((bytes(rng.getrandbits(8) for _ in range(hl)),
                    u32() if not bad(0.04) else (1 << 32) + rng.getrandbits(4),
                    gen_script(rng, sigs, 0.05) if rng.random() < 0.7 else b"",
                    u32() if not bad(0.04) else (1 << 32)))
    outs = []
    for _ in range(nout):
        outs.append((u64() if not bad(0.05) else (1 << 64) + rng.getrandbits(3),
                     gen_script(rng, [], 0.05) if rng.random() < 0.8 else b""))
    uns = []
    for _ in range(nin):
        if bad(0.08):
            uns.append(None)
        else:
            uns.append((u64() if not bad(0.05) else (1 << 64), gen_script(rng, [], 0.0)))
    if bad(0.06):
        uns = uns[:rng.randint(0, nin)]
    t = {"v": u32() if not bad(0.03) else (1 << 32) + 1, "ins": ins, "outs": outs,
         "lock": u32() if not bad(0.03) else (1 << 32), "uns": uns}
    c = rng.random()
    if c < 0.55:
        idx = rng.randrange(nin)
    elif c < 0.75:
        idx = min(nin - 1, nout) if wf else nout              # at the output count
    elif c < 0.90:
        idx = nin - 1
    else:
        idx = (nin - 1) if wf else rng.choice([nin, nin + 1, nout + 1, 7])
    script = gen_script(rng, sigs, 0.2)
    return t, script, idx, sigs


def boundary_scenarios():
    """compact-size thresholds: script code of 252..254 / 65535..65537 bytes (with separators), 253 inputs, 253 / 300 outputs"""
    res = []
    h = bytes(range(32))
    base = {"v": 2, "lock": 7, "ins": [(h, 1, b"\x51", 0xFFFFFFFE)], "outs": [(5000, b"\x51")], "uns": [(7000, b"\x51")]}
    for total in (252, 253, 254, 255, 256, 65535, 65536, 65537):
        for nsep in ((0, 1, 2) if total < 1000 else (1,)):
            body = total - nsep - 1
            push = r_push(b"\xab" * (body - (1 if body <= 76 else 2 if body <= 257 else 3)))
            script = b"\xab" * nsep + push
            script += b"\x61" * (total - len(script))
            res.append((dict(base), script[:total], 0))
    many_in = dict(base, ins=[(h, k, b"", k) for k in range(253)], uns=[(k + 1, b"\x51") for k in range(253)])
    res.append((many_in, b"\xab\xac", 252))
    res.append((many_in, b"\xac", 0))
    for n in (252, 253):
        many_out = dict(base, outs=[(k, bytes([0x51 + (k & 7)])) for k in range(n)],
                        ins=[(h, k, b"", k) for k in range(n)], uns=[(k + 1, b"\x51") for k in range(n)])
        res.append((many_out, b"\xac", n - 1))
        res.append((many_out, b"\xac", 1))
    # input positions beyond one byte and beyond CPython's small-int cache (>= 257): NONE / SINGLE blank the sequences of the
    # OTHER inputs only, whatever the position of the signed one (seed C06-e1 compared the position with `is`)
    big = dict(base, outs=[(k, bytes([0x51 + (k & 7)])) for k in range(259)],
               ins=[(h, k, b"", k + 5) for k in range(260)], uns=[(k + 1, b"\x51") for k in range(260)])
    for idx in (255, 256, 257, 258, 259):
        res.append((big, b"\xac", idx))
    return res


# ================================================================================================
# implementation thunks
def _res(f, *a):
    try:
        return canon(f(*a))
    except Exception as e:  # noqa
        return "!" + exn_tag(e)


def impl_list(coin, t, entry, script, idx, hts):
    sc = checker(coin, t)
    f = {"L": sc._signature_hash, "S": sc._signature_for_hash_type_segwit, "P": sc._segwit_signature_preimage}[entry]
    return "[" + " ".join(_res(f, script, idx, h) for h in hts) + "]"


def impl_sighash_f_script(script, begin, sigs):
    """the script that sig_for_hash_type_f hands to _signature_hash"""
    tx = BtcTx(1, [BtcTx.TxIn(b"\0" * 32, 0)], [], 0)
    sc = tx.SolutionChecker(tx)
    got = []
    sc._signature_hash = lambda s, i, h: got.append(s) or 0
    vm = type("VM", (), {})()
    vm.script = script
    vm.begin_code_hash = begin
    sc._make_sighash_f(0)(1, sigs, vm)
    return got[0]


def hts_arg(hts):
    return "[" + ",".join("i%x" % h for h in hts) + "]"


def nontrivial(line, r):
    if r.startswith("["):
        return any(not x.startswith("!") for x in r[1:-1].split(" ") if x)
    return not r.startswith("!")


def model_cases(rng, tier):
    n_scen = 220 if tier == "quick" else 1200
    for k in range(n_scen):
        t, script, idx, sigs = gen_scenario(rng, wf=(rng.random() < 0.7))
        toks = tx_tokens(t)
        for coin in COINS:
            hts = hash_types(rng, tier, wide=True)
            # thorough: all 256 hash types, 64 per driver line (keeps one line cheap)
            parts = [hts[i:i + 64] for i in range(0, len(hts), 64)]
            for entry, fn in (("L", "sighash"), ("S", "sighash_segwit")):
                for hp in parts:
                    yield Case("%s %s %s %s i%x %s" % (fn, coin, toks, arg(script), idx, hts_arg(hp)),
                               (lambda coin=coin, t=t, entry=entry, script=script, idx=idx, hp=hp:
                                impl_list(coin, t, entry, script, idx, hp)))
            if coin in ("BTC", "GRS", "BTG"):
                h2 = hts[:12] + hts[-3:]
                yield Case("segwit_preimage %s %s %s i%x %s" % (coin, toks, arg(script), idx, hts_arg(h2)),
                           (lambda coin=coin, t=t, script=script, idx=idx, h2=h2: impl_list(coin, t, "P", script, idx, h2)))
    for t, script, idx in boundary_scenarios():
        toks = tx_tokens(t)
        big = len(script) > 1000 or len(t["ins"]) > 50
        hts = [1, 2, 3, 0x81, 0x83, 0x41, 0xC2] if big else MEANINGFUL + [0]
        for coin in (("BTC", "GRS") if big else ("BTC", "BTG", "GRS")):
            for entry, fn in (("L", "sighash"), ("S", "sighash_segwit")):
                yield Case("%s %s %s %s i%x %s" % (fn, coin, toks, arg(script), idx, hts_arg(hts)),
                           (lambda coin=coin, t=t, entry=entry, script=script, idx=idx, hts=hts:
                            impl_list(coin, t, entry, script, idx, hts)))
    # histories on one transaction object + one checker object (Model/SighashHistory.v `run`)
    n_hist = 260 if tier == "quick" else 6000
    for k in range(n_hist):
        t, ops = HIST.gen_history(rng, gen_script, wf=(rng.random() < 0.75))
        coin = COINS[k % 5]
        other = None
        if k % 3 == 0:
            # a second history on ANOTHER class is interleaved on the implementation side; the model runs this one alone
            other = (COINS[(k // 5 + 1 + k) % 5], HIST.gen_history(rng, gen_script, wf=True)[1])
        yield Case("history %s %s %s" % (coin, tx_tokens(t), HIST.ops_token(ops)),
                   (lambda coin=coin, t=t, ops=ops, other=other: "[" + " ".join(HIST.exec_history(build, coin, t, ops, other)) + "]"))
    # the script walks
    n_walk = 2500 if tier == "quick" else 60000
    for k in range(n_walk):
        sigs = [_sig_blob(rng) for _ in range(rng.choice([1, 1, 2, 3]))]
        script = gen_script(rng, sigs, 0.3)
        c = rng.random()
        if c < 0.3:
            sub = b"\xab"
        elif c < 0.8:
            sub = _push_forms(rng.choice(sigs), rng)
        else:
            sub = rng.choice([b"", b"\x00", b"\x51\x52", script[:rng.randint(0, 3)], bytes([rng.getrandbits(8)])])
        yield Case("delete_subscript %s %s" % (arg(script), arg(sub)),
                   (lambda script=script, sub=sub: call(BSC.delete_subscript, script, sub)))
        sg = rng.choice(sigs)
        yield Case("delete_signature %s %s" % (arg(script), arg(sg)),
                   (lambda script=script, sg=sg: call(BSC(None)._delete_signature, script, sg)))
        if k % 3 == 0:
            begin = rng.choice([0, 0, 1, len(script) // 2, len(script), len(script) + 2])
            yield Case("sighash_f_script %s i%x %s" % (arg(script), begin, arg(sigs)),
                       (lambda script=script, begin=begin, sigs=sigs: call(impl_sighash_f_script, script, begin, sigs)))
    # exhaustive small domain: every one-byte script / every one-byte signature / every opcode followed by a separator
    for o in range(256):
        for s in (bytes([o]), bytes([o, 0xAB]), bytes([0xAB, o, 1, 0xAB]), bytes([o, 2, 0xAB, 0xAB, 0xAB])):
            yield Case("delete_subscript %s %s" % (arg(s), arg(b"\xab")), (lambda s=s: call(BSC.delete_subscript, s, b"\xab")))
        s = bytes([0x01, o, 0x50 + (o & 15), 0x4F, 0x00, 0xAC])
        yield Case("delete_signature %s %s" % (arg(s), arg(bytes([o]))),
                   (lambda s=s, o=o: call(BSC(None)._delete_signature, s, bytes([o]))))
    # big pushes around the PUSHDATA thresholds
    for n in (75, 76, 255, 256, 65535, 65536):
        d = bytes([0x5A]) * n
        s = b"\xab" + r_push(d) + b"\xac" + BSC.ScriptTools.compile_push_data_list([d]) + b"\xab"
        yield Case("delete_signature %s %s" % (arg(s), arg(d)), (lambda s=s, d=d: call(BSC(None)._delete_signature, s, d)))
        yield Case("delete_subscript %s %s" % (arg(s), arg(b"\xab")), (lambda s=s: call(BSC.delete_subscript, s, b"\xab")))


# ================================================================================================
# the extracted specification, run in one batch (falls back to the Python transcription)
class Spec:
    def __init__(self):
        self.lines = []
        self.refs = []
        self.out = None
        self.used_driver = False

    def ask(self, line, ref):
        """queue a spec line; ref() computes the same canonical answer with the Python transcription"""
        self.lines.append(line)
        self.refs.append(ref)
        return len(self.lines) - 1

    def run(self, use_driver=True):
        self.out = None
        if use_driver and os.path.exists(os.path.join(ML, "driver_c04")):
            try:
                out = Driver("C04", None, True).run(self.lines)
                if len(out) == len(self.lines) and not any(o.startswith("!DRIVER") for o in out):
                    self.out = out
                    self.used_driver = True
            except Exception:
                self.out = None
        if self.out is None:
            self.out = [r() for r in self.refs]

    def get(self, k):
        return self.out[k]


def _core(r):
    return "(%s %s)" % (r[0], canon(r[1]))


def parse_core_list(s):
    """"[(P x..) (C x..)]" -> [("P", bytes)]"""
    body = s[1:-1].strip()
    res = []
    if not body:
        return res
    for m in body[1:-1].split(") ("):
        k, v = m.split(" ")
        res.append((k, bytes.fromhex(v[1:])))
    return res


def parse_bytes_list(s):
    body = s[1:-1].strip()
    return [None if x == "N" else bytes.fromhex(x[1:]) for x in body.split(" ")] if body else []


def chk_digests(coin, t, entry, script, idx, hts, expected, what):
    """expected[k]: int digest | "REFUSE" (ScriptError required)"""
    sc = checker(coin, t)
    f = sc._signature_hash if entry == "L" else sc._signature_for_hash_type_segwit
    for h, e in zip(hts, expected):
        try:
            got = f(script, idx, h)
        except sc.ScriptError:
            got = "REFUSE"
        except Exception as ex:
            return {"kind": what + "-raises", "hash_type": h, "detail": "%s: %s" % (type(ex).__name__, ex)}
        if got != e:
            return {"kind": what, "hash_type": h, "coin": coin, "entry": entry,
                    "got": got if isinstance(got, str) else "%064x" % got,
                    "required": e if isinstance(e, str) else "%064x" % e,
                    "script_decodable": r_decodable(script)}
    return None


def chk_single_bug(coin, t, script, idx, hts):
    sc = checker(coin, t)
    for h in hts:
        try:
            v = sc._signature_hash(script, idx, h)
        except Exception as ex:
            return {"kind": "single-bug-raises", "hash_type": h, "detail": "%s: %s" % (type(ex).__name__, ex)}
        if v != (1 << 248) or to_bytes_32(v) != R_ONE:
            return {"kind": "single-bug-value", "hash_type": h, "got": "%x" % v}
    return None


def chk_fad(script, sub, expected):
    got = BSC.delete_subscript(script, sub)
    if got != expected:
        return {"kind": "find-and-delete", "got": got.hex(), "required": expected.hex(), "script_decodable": r_decodable(script)}
    return None


def chk_delsig(script, sg, expected):
    got = BSC(None)._delete_signature(script, sg)
    if got != expected:
        return {"kind": "delete-signature", "got": got.hex(), "required": expected.hex(), "script_decodable": r_decodable(script)}
    return None


def chk_script_code(script, begin, sigs, expected):
    got = impl_sighash_f_script(script, begin, sigs)
    if got != expected:
        return {"kind": "script-code", "got": got.hex(), "required": expected.hex()}
    return None


def _snapshot(tx):
    return (tx.as_bin(include_unspents=True), tx.version, tx.lock_time, id(tx.txs_in), id(tx.txs_out), id(tx.unspents),
            tuple((id(i), id(i.previous_hash), i.previous_index, id(i.script), i.script, i.sequence, id(i.witness), tuple(i.witness))
                  for i in tx.txs_in),
            tuple((id(o), o.coin_value, id(o.script), o.script) for o in tx.txs_out),
            tuple((id(o), o.coin_value, id(o.script)) for o in tx.unspents), tx.hash(), tx.w_hash())


def chk_nonmutation(coin, t, script, idx, hts, sigs):
    tx = build(coin, t)
    sc = tx.SolutionChecker(tx)
    before = _snapshot(tx)
    s0 = bytes(script)
    vm = type("VM", (), {})()
    vm.script = script
    vm.begin_code_hash = 0
    for h in hts:
        for f in (lambda: sc._signature_hash(script, idx, h), lambda: sc._signature_for_hash_type_segwit(script, idx, h),
                  lambda: sc._segwit_signature_preimage(script, idx, h), lambda: sc._make_sighash_f(idx)(h, sigs, vm),
                  lambda: sc._make_witness_sighash_f(idx)(h, sigs, vm)):
            try:
                f()
            except Exception:
                pass
            if _snapshot(tx) != before or script != s0 or vm.script != s0:
                return {"kind": "transaction-modified", "hash_type": h, "coin": coin}
    return None


# ---- spec validation on published vectors ------------------------------------------------------------
def _joined_str(node):
    return node.value if isinstance(node, _ast.Constant) and isinstance(node.value, str) else None


def harvest_bip143():
    """(name, tx data, script, idx, amount, hash_type, expected preimage) from tests/btc/segwit_test.py"""
    path = os.path.join(REPO, "tests", "btc", "segwit_test.py")
    if not os.path.exists(path):
        return []
    tree = _ast.parse(open(path).read())
    env = {"SIGHASH_ALL": 1, "SIGHASH_NONE": 2, "SIGHASH_SINGLE": 3, "SIGHASH_ANYONECANPAY": 0x80}
    res = []
    for fn in _ast.walk(tree):
        if not (isinstance(fn, _ast.FunctionDef) and fn.name in ("test_bip143_tx_1", "test_bip143_tx_5")):
            continue
        call0 = None
        for n in _ast.walk(fn):
            if isinstance(n, _ast.Call) and isinstance(n.func, _ast.Attribute) and n.func.attr == "check_bip143_tx":
                call0 = n
                break
        if call0 is None:
            continue
        try:
            tx_u_hex = _ast.literal_eval(call0.args[0])
            tx_s_hex = _ast.literal_eval(call0.args[1])
            pairs = _ast.literal_eval(call0.args[2])
        except Exception:
            continue
        tx_s = BtcTx.from_hex(tx_s_hex)
        t = {"v": tx_s.version, "lock": tx_s.lock_time,
             "ins": [(bytes(i.previous_hash), i.previous_index, b"", i.sequence) for i in tx_s.txs_in],
             "outs": [(o.coin_value, o.script) for o in tx_s.txs_out],
             "uns": [(int(v * 1e8), bytes.fromhex(s)) for v, s in pairs]}
        for n in _ast.walk(fn):
            if not (isinstance(n, _ast.Call) and isinstance(n.func, _ast.Attribute) and n.func.attr == "assertEqual" and len(n.args) == 2):
                continue
            a, b = n.args
            inner = [m for m in _ast.walk(a) if isinstance(m, _ast.Call) and isinstance(m.func, _ast.Attribute)
                     and m.func.attr == "_segwit_signature_preimage"]
            if not inner or _joined_str(b) is None:
                continue
            kw = {k.arg: k.value for k in inner[0].keywords}
            try:
                idx = _ast.literal_eval(kw["tx_in_idx"])
                ht = eval(compile(_ast.Expression(kw["hash_type"]), "<ht>", "eval"), {"__builtins__": {}}, env)
            except Exception:
                continue
            if fn.name == "test_bip143_tx_1":
                script = b"\x76\xa9\x14" + t["uns"][idx][1][2:] + b"\x88\xac"
            else:
                script = bytes(tx_s.txs_in[0].witness[-1])
            res.append((fn.name, t, script, idx, t["uns"][idx][0], ht, bytes.fromhex(b.value)))
    return res


# the first example of BIP143 (P2WPKH), kept here in case the test file moves
BIP143_EX1 = {
    "t": {"v": 1, "lock": 0x11,
          "ins": [(bytes.fromhex("fff7f7881a8099afa6940d42d1e7f6362bec38171ea3edf433541db4e4ad969f"), 0, b"", 0xFFFFFFEE),
                  (bytes.fromhex("ef51e1b804cc89d182d279655c3aa89e815b1b309fe287d9b2b55d57b90ec68a"), 1, b"", 0xFFFFFFFF)],
          "outs": [(112340000, bytes.fromhex("76a9148280b37df378db99f66f85c95a783a76ac7a6d5988ac")),
                   (223450000, bytes.fromhex("76a9143bde42dbee7e4dbe6a21b2d50ce2f0167faa815988ac"))],
          "uns": [(625000000, bytes.fromhex("2103c9f4836b9a4f77fc0d81f7bcb01b7f1b35916864b9476c241ce9fc198bd25432ac")),
                  (600000000, bytes.fromhex("00141d0f172a0ecb48aee1be1f2687d2963ae33f71a1"))]},
    "script": bytes.fromhex("76a9141d0f172a0ecb48aee1be1f2687d2963ae33f71a188ac"), "idx": 1, "amount": 600000000, "ht": 1,
    "sighash": "c37af31116d1b27caf68aae9e3ac82f1477929014d5b917657d0eb49478cb670"}


def tx_valid_signatures():
    """simple P2PKH / P2PK / P2WPKH inputs of Core's tx_valid.json: (tx data, kind, script code, idx, amount, sig, pubkey)"""
    path = os.path.join(REPO, "tests", "btc", "data", "tx_valid.json")
    if not os.path.exists(path):
        return []
    from pycoin.symbols.btc import network
    res = []
    for tv in json.load(open(path)):
        if len(tv) != 3:
            continue
        try:
            tx = network.tx.from_hex(tv[1])
            prev = {}
            for p in tv[0]:
                prev[(bytes.fromhex(p[0])[::-1], p[1] & 0xFFFFFFFF)] = (network.script.compile(p[2]), p[3] if len(p) == 4 else 0)
        except Exception:
            continue
        t = {"v": tx.version, "lock": tx.lock_time,
             "ins": [(bytes(i.previous_hash), i.previous_index, bytes(i.script), i.sequence) for i in tx.txs_in],
             "outs": [(o.coin_value, bytes(o.script)) for o in tx.txs_out], "uns": [None] * len(tx.txs_in)}
        for idx, i in enumerate(tx.txs_in):
            pk = prev.get((bytes(i.previous_hash), i.previous_index))
            if pk is None:
                continue
            spk, amount = pk
            ops = []
            s = bytes(i.script)
            ok = True
            while s:
                g = r_get_op(s)
                if g[0] != "ok" or g[1] > 78:
                    ok = False
                    break
                w = {76: 1, 77: 2, 78: 4}.get(g[1], 0)
                ops.append(s[1 + w:g[2]])
                s = s[g[2]:]
            if not ok:
                continue
            if len(spk) == 25 and spk[:3] == b"\x76\xa9\x14" and spk[23:] == b"\x88\xac" and len(ops) == 2:
                res.append((t, "p2pkh", spk, idx, amount, ops[0], ops[1]))
            elif len(spk) in (35, 67) and spk[0] == len(spk) - 2 and spk[-1] == 0xAC and len(ops) == 1:
                res.append((t, "p2pk", spk, idx, amount, ops[0], spk[1:-1]))
            elif len(spk) == 22 and spk[:2] == b"\x00\x14" and not i.script and len(i.witness) == 2:
                sc = b"\x76\xa9\x14" + spk[2:] + b"\x88\xac"
                res.append((t, "p2wpkh", sc, idx, amount, bytes(i.witness[0]), bytes(i.witness[1])))
    return res


def _ecdsa_ok(pub, digest, sig_der):
    from pycoin.ecdsa.secp256k1 import secp256k1_generator as G
    from pycoin.encoding.sec import sec_to_public_pair
    from pycoin.satoshi.der import sigdecode_der
    try:
        pp = sec_to_public_pair(pub, G)
        r, s = sigdecode_der(sig_der, use_broken_open_ssl_mechanism=True)
        return bool(G.verify(pp, int.from_bytes(digest, "big"), (r, s)))
    except Exception as e:
        return "error %s: %s" % (type(e).__name__, e)


# ================================================================================================
def prop_cases(rng, tier, use_driver=True):
    """lazy: the work is cut into chunks, each with its own batch run of the extracted specification"""
    n_scen = 120 if tier == "quick" else 900
    n_fad = 1500 if tier == "quick" else 30000
    chunks = 4 if tier == "quick" else 60
    for pc in _history_cases(rng, tier):
        yield pc
    for c in range(chunks):
        last = (c == chunks - 1)
        for pc in _prop_chunk(rng, tier, use_driver, n_scen // chunks, n_fad // chunks, extras=(c == 0)):
            yield pc


def _hist_inp(coin, t, ops, other=None):
    d = {"coin": coin, "tx": tx_json(t), "ops": [HIST.op_json(o) for o in ops]}
    if other:
        d["other"] = {"coin": other[0], "ops": [HIST.op_json(o) for o in other[1]]}
    return d


def chk_pairs(coin, t, first, seconds):
    for second in seconds:
        for ops in ([first, second, first], [second, first]):
            r = HIST.check_history(sys.modules[__name__], coin, t, ops)
            if r:
                r["ops"] = [HIST.op_json(o) for o in ops]
                return r
    return None


def _history_cases(rng, tier):
    """digest histories on ONE checker object, interleaved with direct mutations of the transaction, five classes"""
    me = sys.modules[__name__]
    n = 400 if tier == "quick" else 8000
    for k in range(n):
        t, ops = HIST.gen_history(rng, gen_script, wf=(rng.random() < 0.8))
        coin = COINS[k % 5]
        other = None
        if k % 4 == 0:
            other = (COINS[(k + 1 + k // 5) % 5], HIST.gen_history(rng, gen_script, wf=True)[1])
        yield PropCase("history_vs_ref", _hist_inp(coin, t, ops, other),
                       (lambda coin=coin, t=t, ops=ops, other=other: HIST.check_history(me, coin, t, ops, other)))
    # exhaustive small domain: every ordered pair of observations (entry x input x hash type) on a 3-in / 3-out and a
    # 3-in / 2-out transaction
    for nout in (3, 2):
        h = lambda b: bytes([b]) * 32
        t = {"v": 2, "lock": 500123, "ins": [(h(k + 1), 7 * k + 1, b"", 0xFFFFFFF0 + k) for k in range(3)],
             "outs": [(1000 * (k + 1), bytes([0x51 + k]) * (k + 1)) for k in range(nout)],
             "uns": [(50000 + k, b"\x00\x14" + bytes([k]) * 20) for k in range(3)]}
        scripts = [b"\x76\xa9\x14" + bytes([k]) * 20 + b"\x88\xac" for k in range(3)]
        obs = HIST.pair_histories(t, scripts)
        for ci, coin in enumerate(COINS):
            firsts = obs if tier == "thorough" else obs[(ci + nout) % 7::7]
            for first in firsts:
                yield PropCase("history_pairs", {"coin": coin, "tx": tx_json(t), "first": HIST.op_json(first), "nout": nout},
                               (lambda coin=coin, t=t, first=first, obs=obs: chk_pairs(coin, t, first, obs)))
    # presentations of the same arguments
    for k in range(60 if tier == "quick" else 1500):
        t, script, idx, sigs = gen_scenario(rng, wf=True)
        coin = COINS[k % 5]
        ht = rng.choice(MEANINGFUL + [0, 0x23])
        yield PropCase("presentation", {"coin": coin, "tx": tx_json(t), "script": script.hex(), "idx": idx, "ht": ht},
                       (lambda coin=coin, t=t, script=script, idx=idx, ht=ht: HIST.check_presentations(me, coin, t, script, idx, ht)))


def _prop_chunk(rng, tier, use_driver, n_scen, n_fad, extras):
    spec = Spec()
    plan = []     # (name, inp, thunk)
    scen = [gen_scenario(rng, wf=True) for _ in range(n_scen)]
    if extras:
        scen += [(t, script, idx, []) for t, script, idx in boundary_scenarios()]
    for t, script, idx, sigs in scen:
        toks = tx_tokens(t)
        hts = hash_types(rng, tier) if (len(script) < 1000 and len(t["ins"]) < 50) else [1, 2, 3, 0x81, 0x83, 0x41, 0xC2]
        jin = {"tx": tx_json(t), "script": script.hex(), "idx": idx, "hts": hts, "sigs": [s.hex() for s in sigs]}
        amount = t["uns"][idx][0]
        k_leg = spec.ask("spec_legacy %s %s i%x %s" % (toks, arg(script), idx, hts_arg(hts)),
                         (lambda t=t, script=script, idx=idx, hts=hts: "[" + " ".join(_core(r_legacy(script, t, idx, h)) for h in hts) + "]"))
        if r_decodable(script):
            k_str = spec.ask("spec_legacy_streaming %s %s i%x %s" % (toks, arg(script), idx, hts_arg(hts)),
                             (lambda t=t, script=script, idx=idx, hts=hts:
                              "[" + " ".join(_core(r_legacy(script, t, idx, h, streaming=True)) for h in hts) + "]"))
            plan.append(("core_formulations_agree", {"tx": tx_json(t), "script": script.hex(), "idx": idx, "hts": hts},
                         (lambda k_str=k_str, k_leg=k_leg: None if spec.get(k_str) == spec.get(k_leg) else
                          {"kind": "spec-formulations-differ-on-decodable-script", "streaming": spec.get(k_str)[:300], "old": spec.get(k_leg)[:300]})))
        k_bd = spec.ask("spec_bip143 d %s %s i%x i%x %s" % (toks, arg(script), idx, amount, hts_arg(hts)),
                        (lambda t=t, script=script, idx=idx, hts=hts, amount=amount:
                         "[" + " ".join(canon(r_bip143(dsha, script, t, idx, amount, h)) for h in hts) + "]"))
        k_bs = spec.ask("spec_bip143 s %s %s i%x i%x %s" % (toks, arg(script), idx, amount, hts_arg(hts)),
                        (lambda t=t, script=script, idx=idx, hts=hts, amount=amount:
                         "[" + " ".join(canon(r_bip143(sha, script, t, idx, amount, h)) for h in hts) + "]"))
        k_f0 = spec.ask("spec_forkid d i0 %s %s i%x i%x %s" % (toks, arg(script), idx, amount, hts_arg(hts)),
                        (lambda t=t, script=script, idx=idx, hts=hts, amount=amount:
                         "[" + " ".join(canon(r_forkid(dsha, 0, script, t, idx, amount, h)) for h in hts) + "]"))
        k_fg = spec.ask("spec_forkid d i4f %s %s i%x i%x %s" % (toks, arg(script), idx, amount, hts_arg(hts)),
                        (lambda t=t, script=script, idx=idx, hts=hts, amount=amount:
                         "[" + " ".join(canon(r_forkid(dsha, 79, script, t, idx, amount, h)) for h in hts) + "]"))

        def legacy_exp(k, H):
            return [int.from_bytes(v if c == "C" else H(v), "big") for c, v in parse_core_list(spec.get(k))]

        def pre_exp(k, H):
            return [("REFUSE" if p is None else int.from_bytes(H(p), "big")) for p in parse_bytes_list(spec.get(k))]

        for coin, H in (("BTC", dsha), ("LTC", dsha), ("GRS", sha)):
            plan.append(("legacy_vs_spec", dict(jin, coin=coin),
                         (lambda coin=coin, H=H, t=t, script=script, idx=idx, hts=hts, k=k_leg:
                          chk_digests(coin, t, "L", script, idx, hts, legacy_exp(k, H), "legacy-digest"))))
        for coin, H, k in (("BTC", dsha, k_bd), ("LTC", dsha, k_bd), ("BCH", dsha, k_bd), ("GRS", sha, k_bs)):
            plan.append(("bip143_vs_spec", dict(jin, coin=coin),
                         (lambda coin=coin, H=H, t=t, script=script, idx=idx, hts=hts, k=k:
                          chk_digests(coin, t, "S", script, idx, hts, pre_exp(k, H), "bip143-digest"))))
        for coin, entry, k in (("BCH", "L", k_f0), ("BTG", "L", k_fg), ("BTG", "S", k_fg)):
            plan.append(("forkid_vs_spec", dict(jin, coin=coin, entry=entry),
                         (lambda coin=coin, entry=entry, t=t, script=script, idx=idx, hts=hts, k=k:
                          chk_digests(coin, t, entry, script, idx, hts, pre_exp(k, dsha), "forkid-digest"))))
        if idx >= len(t["outs"]):
            sh = [h for h in range(256) if h & 31 == 3]
            for coin in ("BTC", "LTC", "GRS"):
                plan.append(("single_bug", dict(jin, coin=coin, hts=sh),
                             (lambda coin=coin, t=t, script=script, idx=idx, sh=sh: chk_single_bug(coin, t, script, idx, sh))))
        coin = rng.choice(COINS)
        nm_h = hts[:6] + hts[-2:]
        plan.append(("nonmutation", dict(jin, coin=coin, hts=nm_h),
                     (lambda coin=coin, t=t, script=script, idx=idx, nm_h=nm_h, sigs=sigs: chk_nonmutation(coin, t, script, idx, nm_h, sigs))))
    # refusal for all 256 hash types on one scenario per chunk
    t, script, idx, sigs = gen_scenario(rng, wf=True)
    allh = list(range(256))
    amount = t["uns"][idx][0]
    for coin, entry, fk in (("BCH", "L", 0), ("BTG", "L", 79), ("BTG", "S", 79)):
        k = spec.ask("spec_forkid d i%x %s %s i%x i%x %s" % (fk, tx_tokens(t), arg(script), idx, amount, hts_arg(allh)),
                     (lambda t=t, script=script, idx=idx, amount=amount, fk=fk:
                      "[" + " ".join(canon(r_forkid(dsha, fk, script, t, idx, amount, h)) for h in allh) + "]"))
        plan.append(("forkid_vs_spec", {"tx": tx_json(t), "script": script.hex(), "idx": idx, "hts": allh, "sigs": [], "coin": coin, "entry": entry},
                     (lambda coin=coin, entry=entry, t=t, script=script, idx=idx, k=k:
                      chk_digests(coin, t, entry, script, idx, allh,
                                  [("REFUSE" if p is None else int.from_bytes(dsha(p), "big")) for p in parse_bytes_list(spec.get(k))],
                                  "forkid-digest"))))
    # FindAndDelete
    for k in range(n_fad):
        sigs = [_sig_blob(rng) for _ in range(rng.choice([1, 1, 2, 3]))]
        script = gen_script(rng, sigs, 0.25)
        sg = rng.choice(sigs)
        sub = b"\xab" if rng.random() < 0.4 else r_push(sg)
        if True:
            ka = spec.ask("spec_fad %s %s" % (arg(sub), arg(script)), (lambda sub=sub, script=script: canon(r_fad(sub, script))))
            plan.append(("fad_vs_spec", {"script": script.hex(), "sub": sub.hex()},
                         (lambda script=script, sub=sub, ka=ka: chk_fad(script, sub, bytes.fromhex(spec.get(ka)[1:])))))
        kb = spec.ask("spec_script_code_base %s [%s]" % (arg(script), arg(sg)), (lambda sg=sg, script=script: canon(r_script_code_base(script, [sg]))))
        plan.append(("delsig_vs_spec", {"script": script.hex(), "sig": sg.hex()},
                     (lambda script=script, sg=sg, kb=kb: chk_delsig(script, sg, bytes.fromhex(spec.get(kb)[1:])))))
        if k % 4 == 0:
            begin = rng.choice([0, 0, 1, len(script) // 2])
            kc = spec.ask("spec_script_code_base %s %s" % (arg(script[begin:]), arg(sigs)),
                          (lambda script=script, begin=begin, sigs=sigs: canon(r_script_code_base(script[begin:], sigs))))
            plan.append(("script_code_vs_spec", {"script": script.hex(), "begin": begin, "sigs": [s.hex() for s in sigs]},
                         (lambda script=script, begin=begin, sigs=sigs, kc=kc:
                          chk_script_code(script, begin, sigs, bytes.fromhex(spec.get(kc)[1:])))))
    for o in (list(range(1, 17)) + [0x81, 0, 0x11, 0x80] if extras else []):
        sg = bytes([o])
        script = bytes([0x50 + (o & 15), 0x4F, 0x01, o, 0xAC])
        kb = spec.ask("spec_script_code_base %s [%s]" % (arg(script), arg(sg)), (lambda sg=sg, script=script: canon(r_script_code_base(script, [sg]))))
        plan.append(("delsig_vs_spec", {"script": script.hex(), "sig": sg.hex()},
                     (lambda script=script, sg=sg, kb=kb: chk_delsig(script, sg, bytes.fromhex(spec.get(kb)[1:])))))
    # validation of the SPEC: BIP143 examples, signatures of Core's tx_valid.json
    vec = harvest_bip143() if extras else []
    for name, t, script, idx, amount, ht, exp in vec:
        k = spec.ask("spec_bip143 d %s %s i%x i%x i%x" % (tx_tokens(t), arg(script), idx, amount, ht),
                     (lambda t=t, script=script, idx=idx, amount=amount, ht=ht: canon(r_bip143(dsha, script, t, idx, amount, ht))))
        plan.append(("spec_bip143_vector", {"vector": name, "hash_type": ht},
                     (lambda k=k, exp=exp: None if spec.get(k) == canon(exp) else
                      {"kind": "spec-vector", "spec": spec.get(k)[:200], "published": exp.hex()[:200]})))
    e = BIP143_EX1
    k = spec.ask("spec_bip143 d %s %s i%x i%x i%x" % (tx_tokens(e["t"]), arg(e["script"]), e["idx"], e["amount"], e["ht"]),
                 (lambda e=e: canon(r_bip143(dsha, e["script"], e["t"], e["idx"], e["amount"], e["ht"]))))
    if extras:
      plan.append(("spec_bip143_vector", {"vector": "BIP143 example 1 (built in), %d harvested from tests/btc/segwit_test.py" % len(vec)},
                 (lambda k=k, e=e: None if dsha(bytes.fromhex(spec.get(k)[1:])).hex() == e["sighash"] else
                  {"kind": "spec-vector", "spec_digest": dsha(bytes.fromhex(spec.get(k)[1:])).hex(), "published": e["sighash"]})))
    sigs_valid = tx_valid_signatures() if extras else []
    for t, kind, sc, idx, amount, sg, pub in sigs_valid:
        if not sg:
            continue
        ht = sg[-1]
        if kind == "p2wpkh":
            k = spec.ask("spec_bip143 d %s %s i%x i%x i%x" % (tx_tokens(t), arg(sc), idx, amount, ht),
                         (lambda t=t, sc=sc, idx=idx, amount=amount, ht=ht: canon(r_bip143(dsha, sc, t, idx, amount, ht))))
            wrap = True
        else:
            code = r_fad(r_push(sg), sc)
            k = spec.ask("spec_legacy_streaming %s %s i%x i%x" % (tx_tokens(t), arg(code), idx, ht),
                         (lambda t=t, code=code, idx=idx, ht=ht: _core(r_legacy(code, t, idx, ht, streaming=True))))
            wrap = False

        def th(k=k, wrap=wrap, sg=sg, pub=pub, kind=kind, ht=ht):
            r = spec.get(k)
            if wrap and not r.startswith("("):
                r = "(P %s)" % r
            c, v = r[1:-1].split(" ")
            digest = bytes.fromhex(v[1:]) if c == "C" else dsha(bytes.fromhex(v[1:]))
            ok = _ecdsa_ok(pub, digest, sg[:-1])
            return None if ok is True else {"kind": "spec-signature-vector", "input_kind": kind, "hash_type": ht, "verify": ok}
        plan.append(("spec_tx_valid_signature", {"kind": kind, "hash_type": ht, "idx": idx, "tx": tx_json(t)}, th))
    n_spec = len(spec.lines)
    spec.run(use_driver)
    if spec.used_driver:
        # the Python transcription used by search/replay must agree with the extracted specification
        refs = spec.refs
        for k in range(n_spec):
            plan.append(("pyref_agrees_with_extracted_spec", {"line": spec.lines[k][:300]},
                         (lambda k=k: None if refs[k]() == spec.get(k) else
                          {"kind": "pyref-differs", "line": spec.lines[k][:400], "pyref": refs[k]()[:300], "spec": spec.get(k)[:300]})))
    for name, inp, th in plan:
        yield PropCase(name, inp, th)


# ================================================================================================
def classify(pc, r):
    return None          # no open finding is left for C04 (2ba5b6d and 50939fb repaired both)


KNOWN_REPLAYS = {}


def _legacy_exp_ref(t, script, idx, hts, H):
    return [int.from_bytes(v if c == "C" else H(v), "big") for c, v in (r_legacy(script, t, idx, h) for h in hts)]


def _pre_exp_ref(f, hts, H):
    return [("REFUSE" if p is None else int.from_bytes(H(p), "big")) for p in (f(h) for h in hts)]


def direct_with_pyref(t, script, idx, hts, sigs=()):
    """all digest checks of one scenario against the Python transcription of the spec -> first failure as (name, inp, r)"""
    jin = {"tx": tx_json(t), "script": script.hex(), "idx": idx, "hts": hts, "sigs": [s.hex() for s in sigs]}
    if not (idx < len(t["ins"]) and idx < len(t["uns"]) and t["uns"][idx] is not None):
        return None
    amount = t["uns"][idx][0]
    for coin, H in (("BTC", dsha), ("LTC", dsha), ("GRS", sha)):
        r = chk_digests(coin, t, "L", script, idx, hts, _legacy_exp_ref(t, script, idx, hts, H), "legacy-digest")
        if r:
            return ("legacy_vs_spec", dict(jin, coin=coin), r)
    for coin, H in (("BTC", dsha), ("LTC", dsha), ("BCH", dsha), ("GRS", sha)):
        r = chk_digests(coin, t, "S", script, idx, hts,
                        _pre_exp_ref(lambda h: r_bip143(H, script, t, idx, amount, h), hts, H), "bip143-digest")
        if r:
            return ("bip143_vs_spec", dict(jin, coin=coin), r)
    for coin, entry, fk in (("BCH", "L", 0), ("BTG", "L", 79), ("BTG", "S", 79)):
        r = chk_digests(coin, t, entry, script, idx, hts,
                        _pre_exp_ref(lambda h: r_forkid(dsha, fk, script, t, idx, amount, h), hts, dsha), "forkid-digest")
        if r:
            return ("forkid_vs_spec", dict(jin, coin=coin, entry=entry), r)
    if idx >= len(t["outs"]):
        sh = [h for h in hts if h & 31 == 3]
        for coin in ("BTC", "LTC", "GRS"):
            r = chk_single_bug(coin, t, script, idx, sh)
            if r:
                return ("single_bug", dict(jin, coin=coin, hts=sh), r)
    return None


def replay_input(check, inp):
    if check in ("legacy_vs_spec", "bip143_vs_spec", "forkid_vs_spec", "single_bug", "nonmutation"):
        t = tx_unjson(inp["tx"])
        script = bytes.fromhex(inp["script"])
        idx, hts, coin = inp["idx"], inp["hts"], inp["coin"]
        sigs = [bytes.fromhex(s) for s in inp.get("sigs", [])]
        if check == "nonmutation":
            return chk_nonmutation(coin, t, script, idx, hts, sigs)
        if check == "single_bug":
            return chk_single_bug(coin, t, script, idx, hts)
        amount = t["uns"][idx][0]
        H = sha if coin == "GRS" else dsha
        if check == "legacy_vs_spec":
            return chk_digests(coin, t, "L", script, idx, hts, _legacy_exp_ref(t, script, idx, hts, H), "legacy-digest")
        if check == "bip143_vs_spec":
            return chk_digests(coin, t, "S", script, idx, hts, _pre_exp_ref(lambda h: r_bip143(H, script, t, idx, amount, h), hts, H), "bip143-digest")
        fk = 0 if coin == "BCH" else 79
        return chk_digests(coin, t, inp["entry"], script, idx, hts,
                           _pre_exp_ref(lambda h: r_forkid(dsha, fk, script, t, idx, amount, h), hts, dsha), "forkid-digest")
    if check == "fad_vs_spec":
        s, b = bytes.fromhex(inp["script"]), bytes.fromhex(inp["sub"])
        return chk_fad(s, b, r_fad(b, s))
    if check == "delsig_vs_spec":
        s, g = bytes.fromhex(inp["script"]), bytes.fromhex(inp["sig"])
        return chk_delsig(s, g, r_script_code_base(s, [g]))
    if check == "script_code_vs_spec":
        s = bytes.fromhex(inp["script"])
        sg = [bytes.fromhex(x) for x in inp["sigs"]]
        return chk_script_code(s, inp["begin"], sg, r_script_code_base(s[inp["begin"]:], sg))
    me = sys.modules[__name__]
    if check == "history_vs_ref":
        other = None
        if inp.get("other"):
            other = (inp["other"]["coin"], [HIST.op_unjson(o) for o in inp["other"]["ops"]])
        return HIST.check_history(me, inp["coin"], tx_unjson(inp["tx"]), [HIST.op_unjson(o) for o in inp["ops"]], other)
    if check == "history_pairs":
        t = tx_unjson(inp["tx"])
        scripts = [b"\x76\xa9\x14" + bytes([k]) * 20 + b"\x88\xac" for k in range(3)]
        return chk_pairs(inp["coin"], t, HIST.op_unjson(inp["first"]), HIST.pair_histories(t, scripts))
    if check == "presentation":
        return HIST.check_presentations(me, inp["coin"], tx_unjson(inp["tx"]), bytes.fromhex(inp["script"]), inp["idx"], inp["ht"])
    return {"kind": "not-replayable-check", "check": check}


def search(rng, tier, disagreements, known_ids):
    """after a proof/correspondence break: look for an input on which the property itself fails (spec = Python transcription)"""
    def report(name, inp, r):
        pc = PropCase(name, inp, None)
        if classify(pc, r) in known_ids:
            return None
        return {"check": name, "input": inp, "failure": r}
    allh = list(range(256))
    # 1. neighbourhood of the disagreeing cases
    for d in disagreements[:40]:
        toks = d["case"].split(" ")
        fn = toks[0]
        try:
            if fn in ("sighash", "sighash_segwit", "segwit_preimage"):
                t = tx_from_tokens(toks[2:7])
                script = bytes.fromhex(toks[7][1:])
                idx = int(toks[8][1:], 16)
                for idx2 in sorted({idx, 0, len(t["ins"]) - 1, min(len(t["outs"]), len(t["ins"]) - 1)}):
                    t2 = dict(t)
                    # make the scenario well-formed around the disagreeing one
                    t2["uns"] = [(u if u is not None else (1, b"\x51")) for u in (t["uns"] + [None] * len(t["ins"]))[:len(t["ins"])]]
                    if 0 <= idx2 < len(t2["ins"]):
                        f = direct_with_pyref(t2, script, idx2, allh)
                        if f:
                            got = report(*f)
                            if got:
                                return got
            elif fn == "history":
                coin = toks[1]
                t = tx_from_tokens(toks[2:7])
                ops = HIST.parse_ops_token(toks[7])
                me = sys.modules[__name__]
                cands = [ops]
                obs = [o for o in ops if HIST.is_observer(o)]
                # the observations alone, reversed, and every ordered pair of them
                cands += [obs, obs[::-1]] + [[a, b] for a in obs[:8] for b in obs[:8]]
                for c2 in COINS:
                    for ops2 in (cands if c2 == coin else cands[:3]):
                        r = HIST.check_history(me, c2, t, ops2)
                        if r:
                            got = report("history_vs_ref", _hist_inp(c2, t, ops2), r)
                            if got:
                                return got
            elif fn in ("delete_subscript", "delete_signature", "sighash_f_script"):
                script = bytes.fromhex(toks[1][1:])
                if fn == "delete_subscript":
                    sub = bytes.fromhex(toks[2][1:])
                    cands = [(script, sub), (script, b"\xab")]
                    for s, b in cands:
                        if b and r_get_op(b) == ("ok", b[0], len(b)):
                            r = chk_fad(s, b, r_fad(b, s))
                            if r:
                                got = report("fad_vs_spec", {"script": s.hex(), "sub": b.hex()}, r)
                                if got:
                                    return got
                elif fn == "delete_signature":
                    sg = bytes.fromhex(toks[2][1:])
                    r = chk_delsig(script, sg, r_script_code_base(script, [sg]))
                    if r:
                        got = report("delsig_vs_spec", {"script": script.hex(), "sig": sg.hex()}, r)
                        if got:
                            return got
        except Exception:
            continue
    # 2. the generic generator, specification = Python transcription (the driver may be unavailable or stale)
    for pc in prop_cases(rng, tier, use_driver=False):
        try:
            r = pc.thunk()
        except Exception as e:
            r = {"kind": "raises", "detail": "%s: %s" % (type(e).__name__, e)}
        if r is not None and classify(pc, r) not in known_ids:
            return {"check": pc.name, "input": pc.inp, "failure": r}
    # 3. all 256 hash types on fresh well-formed scenarios
    for _ in range(150 if tier == "quick" else 1500):
        t, script, idx, sigs = gen_scenario(rng, wf=True)
        f = direct_with_pyref(t, script, idx, allh, sigs)
        if f:
            got = report(*f)
            if got:
                return got
    return None
