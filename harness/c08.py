"""C08 — addresses and output scripts are in one-to-one correspondence on every network."""
from common import *
import importlib, pkgutil, hashlib
import pycoin.symbols as _symbols
from pycoin.encoding.b58 import b2a_hashed_base58, b2a_base58
from pycoin.networks.parseable_str import parse_b58_double_sha256, parse_bech32, parseable_str
import itertools
from pycoin.contrib import bech32m
from pycoin.key.BIP49Node import BIP49Node
from pycoin.key.BIP84Node import BIP84Node
from pycoin.ecdsa.secp256k1 import secp256k1_generator

PROP = "C08"
EXTRA_PROPS = ["C08compose"]   # composition theorems (see DESIGN.md section 0)
DRIVER = "C08"
INTERACTIVE = True
RULE = ("correspondence: one driver line per call of ContractAPI.for_* / info_for_script / _info_from_multisig_script / match, "
        "AddressAPI.for_* / for_script, ParseAPI.address / p2pkh / p2sh / p2pkh_segwit / p2sh_segwit / p2tr (result compared as "
        "(info, script(), address())), ContractAPI.for_address, Key/BIP49Node/BIP84Node.address, per network; distinct = distinct "
        "line; non-trivial = the model returns a value other than None/exception")
PARTIAL = [
    "the three Groestlcoin networks (GRS, GRSRT, TGRS) are in the generated table but outside the theorems and the "
    "correspondence: their Base58 encoder needs the absent groestlcoin_hash package (ImportError) and the symbol files "
    "replace parse.address by a function returning None; a direct check records exactly that behaviour",
    "Base58Check / Bech32 codecs are parameters of the theorems (premises B1-B3, S1-S3 in Props/C08.v; C11 owns the codec "
    "models); the premises are checked on pycoin's codecs by the direct checks `codec_premises`",
    "Key.address is modelled from the key's SEC encoding on; that sec() is the encoding of the key's point belongs to C10",
]
TRUSTED = [
    "harness/gens/networks_c08.py: table of pycoin/symbols (live network objects cross-checked with the AST keyword literals) "
    "and the constants of ContractAPI/ParseAPI harvested from their AST",
    "C12's finished model of ScriptStreamer.get_opcode / compile_push_data (coq/Model/Push.v) is imported",
    "oracles b58enc/b58dec/segenc/segparse are pycoin's own b2a_hashed_base58 / parse_b58_double_sha256 / bech32m.encode / "
    "parse_bech32 (the codecs are C11's subject, not C08's)",
    "text level of ScriptTools.compile (str.split, str.upper, int(), binascii) modelled token by token",
]

KINDS = ["p2pkh", "p2sh", "p2pkh_wit", "p2sh_wit", "p2tr"]
KIND_LEN = [20, 20, 20, 32, 32]


# ------------------------------------------------------------------------------------------------
# networks
def _load():
    nets, other = {}, {}
    for m in sorted(x.name for x in pkgutil.iter_modules(_symbols.__path__)):
        n = importlib.import_module("pycoin.symbols." + m).network
        if type(n.parse).__name__ == "ParseAPI" and "address" not in vars(n.parse):
            nets[n.symbol] = n
        else:
            other[n.symbol] = n
    return nets, other


NETS, NONSTD = _load()
SYMS = sorted(NETS)
BTC = NETS["BTC"]
C = BTC.contract


def prefixes(net):
    a = net.address
    return [a._address_prefix, a._pay_to_script_prefix, a._bech32_hrp, a._bech32_hrp, a._bech32_hrp]


def kinds_of(net):
    return [k for k, p in enumerate(prefixes(net)) if p is not None]


def addr_of(net, k, payload):
    return getattr(net.address, "for_" + KINDS[k])(payload)


# ------------------------------------------------------------------------------------------------
# independent constructions (used as the spec side of the direct checks)
def spec_push(d):
    n = len(d)
    if n == 0:
        return b"\x00"
    if n == 1 and 1 <= d[0] <= 16:
        return bytes([0x50 + d[0]])
    if n == 1 and d[0] == 0x81:
        return b"\x4f"
    if n <= 75:
        return bytes([n]) + d
    if n <= 255:
        return b"\x4c" + bytes([n]) + d
    if n <= 65535:
        return b"\x4d" + n.to_bytes(2, "little") + d
    return b"\x4e" + n.to_bytes(4, "little") + d


def spec_script(k, p):
    if k == 0:
        return b"\x76\xa9" + spec_push(p) + b"\x88\xac"
    if k == 1:
        return b"\xa9" + spec_push(p) + b"\x87"
    if k in (2, 3):
        return b"\x00" + spec_push(p)
    if k == 4:
        return b"\x51" + spec_push(p)
    if k == 5:
        return spec_push(p) + b"\xac"
    raise ValueError(k)


def spec_multisig(m, keys, n_op=None, tail=b"\xae"):
    n_op = (0x50 + len(keys)) if n_op is None else n_op
    return bytes([0x50 + m]) + b"".join(spec_push(k) for k in keys) + bytes([n_op]) + tail


def rb(rng, n):
    return bytes(rng.getrandbits(8) for _ in range(n))


def canon_info(d):
    t = d["type"]
    if t in ("p2pkh", "p2pkh_wit", "p2sh"):
        return (t, d["hash160"])
    if t == "p2sh_wit":
        return (t, d["hash256"])
    if t == "p2pk":
        return (t, d["sec"])
    if t == "p2tr":
        return (t, d["synthetic_key"])
    if t == "nulldata":
        return (t, d["data"])
    if t == "multisig":
        return (t, d["m"], list(d["sec_keys"]))
    if t == "unknown":
        return (t, d["script"])
    raise ValueError(t)


def xcall(f, *a):
    """like call() but the result is already canonical text; SyntaxError is the model's E_OTHER"""
    try:
        return f(*a)
    except SyntaxError:
        return "!E_OTHER"
    except Exception as e:  # noqa
        return "!" + exn_tag(e)


# ------------------------------------------------------------------------------------------------
# oracles: pycoin's own codecs (C11 owns them)
def _o_b58dec(b):
    d = parse_b58_double_sha256(b.decode("utf8"))
    return b"\x00" if d is None else b"\x01" + d


def _o_segenc(b):
    l = b[0]
    r = bech32m.encode(b[1:1 + l].decode("ascii"), b[1 + l], b[2 + l:])
    return b"\x00" if r is None else b"\x01" + r.encode("ascii")


def _o_segparse(b):
    v = parse_bech32(b.decode("utf8"))
    if v is None:
        return b"\x00"
    hrp, ver, data, spec = v
    return b"\x01" + bytes([len(hrp)]) + hrp.encode("ascii") + bytes([ver, spec]) + data


ORACLES = {
    "b58enc": lambda b: b2a_hashed_base58(b).encode("ascii"),
    "b58dec": _o_b58dec,
    "segenc": _o_segenc,
    "segparse": _o_segparse,
}


# ------------------------------------------------------------------------------------------------
# generators
def payloads(rng, tier):
    """payloads for the script constructors: every length 0..40 plus the text-level boundary cases"""
    out = [rb(rng, n) for n in range(0, 41)]
    out += [bytes([c]) for c in list(range(0, 0x20)) + [0x7f, 0x80, 0x81, 0x99, 0xff]]
    out += [b"\x1a\xdd", b"\x12\x34", b"\x01\x23", b"\x99" * 8, b"\x99" * 9, b"\x99" * 10, b"\x99" * 11,
            bytes.fromhex("18446744073709551615"), bytes.fromhex("18446744073709551616"), bytes.fromhex("18446744073709551614"),
            bytes.fromhex("0018446744073709551615"), bytes.fromhex("1844674407370955161a"), bytes.fromhex("10" * 20),
            bytes.fromhex("12" * 20), bytes.fromhex("12" * 32), bytes.fromhex("99" * 33), b"\x00" * 20, b"\xff" * 20,
            b"\x00" * 32, b"\xff" * 32, bytes.fromhex("0080"), bytes.fromhex("0128"), bytes.fromhex("3276"), bytes.fromhex("3277")]
    out += [rb(rng, n) for n in (33, 64, 65, 74, 75, 76, 77, 119, 120, 121, 254, 255, 256, 257, 520, 521)]
    for _ in range(60 if tier == "quick" else 2000):
        n = rng.choice([1, 2, 2, 3, 4, 5, 8, 9, 10, 20, 32])
        # decimal-looking hex
        out.append(bytes(rng.choice([0x10, 0x23, 0x45, 0x67, 0x89, 0x90, 0x01, 0x99, rng.getrandbits(8)]) for _ in range(n)))
    return out


def keys_for(rng, n, size=None):
    return [rb(rng, size or rng.choice([33, 33, 33, 65])) for _ in range(n)]


def classifier_scripts(rng, tier):
    """standard scripts of every kind, near misses, multisig edge cases, random scripts"""
    out = []
    h20, h32 = rb(rng, 20), rb(rng, 32)
    for k in range(5):
        p = rb(rng, KIND_LEN[k])
        s = spec_script(k, p)
        out.append(s)
        out += [s[:i] for i in range(len(s))]                      # every truncation
        out += [s + b"\x00", s + b"\x61", s + s, b"\x61" + s]      # trailing / leading bytes
        for n in (0, 1, 19, 21, 31, 32, 33, 20, 75, 76):           # wrong payload lengths
            out.append(spec_script(k, rb(rng, n)))
        # non-minimal pushes of the right payload
        out.append(s.replace(spec_push(p), b"\x4c" + bytes([len(p)]) + p))
        out.append(s.replace(spec_push(p), b"\x4d" + len(p).to_bytes(2, "little") + p))
        out.append(s.replace(spec_push(p), b"\x4e" + len(p).to_bytes(4, "little") + p))
        # one opcode changed
        for i in range(len(s)):
            if i < 3 or i >= len(s) - 2:
                out.append(s[:i] + bytes([s[i] ^ 1]) + s[i + 1:])
    # p2pk: key sizes around the bounds, non-minimal
    for n in (0, 1, 20, 32, 33, 34, 65, 75, 76, 77, 119, 120, 121, 122, 255, 256):
        k = rb(rng, n)
        out.append(spec_push(k) + b"\xac")
        out.append(spec_push(k) + b"\xac\xac")
        out.append(spec_push(k))
        out.append(b"\x4c" + bytes([n & 255]) + k + b"\xac")
        if n < 256:
            out.append(b"\x4d" + n.to_bytes(2, "little") + k + b"\xac")
    # witness versions / OP_n <data>
    for v in [0x00, 0x4f] + list(range(0x50, 0x62)):
        for n in (2, 20, 32, 33, 40):
            out.append(bytes([v]) + spec_push(rb(rng, n)))
    # nulldata
    out += [b"\x6a", b"\x6a" + rb(rng, 5), b"\x6a\x04abcd", b"\x6a\x4c", b"\x6a" + spec_script(0, h20)]
    # multisig
    for m in range(0, 18):
        for n in sorted({m, m + 1, 1, 2, 3, 15, 16, 17, 18, 20} - {0}):
            if n > 20 or (tier == "quick" and n > 3 and n not in (15, 16, 17) and m not in (1, n, 15, 16)):
                continue
            ks = keys_for(rng, n, 33)
            for n_op in {0x50 + n, 0x50 + n + 1, 0x50 + n - 1}:
                out.append(spec_multisig(m, ks, n_op & 255))
    ks = keys_for(rng, 3)
    good = spec_multisig(2, ks)
    out += [good, good[:-1], good + b"\x00", good[:-1] + b"\xaf", good[:-1] + b"\xad", good[:-2], good[:-1] + b"\xae\xae",
            bytes([0x52]), bytes([0x52, 0x53, 0xae]), bytes([0x52, 0x52, 0xae]), bytes([0x50, 0x50, 0xae]),
            bytes([0x51, 0x50, 0xae]), bytes([0x51, 0x00, 0xae]), b"\x01\x02" + good[1:], b"\x4c\x01\x02" + good[1:]]
    out += [good[:i] for i in range(len(good))]
    for sz in (32, 33, 34, 75, 76, 119, 120, 121):
        k1 = rb(rng, sz)
        out.append(spec_multisig(1, [k1]))
        out.append(spec_multisig(1, [k1, rb(rng, 33)]))
        out.append(spec_multisig(1, [rb(rng, 33), k1]))
    k1 = rb(rng, 33)
    out.append(b"\x51\x4c\x21" + k1 + b"\x51\xae")                     # PUSHDATA1 key
    out.append(b"\x51\x4d\x21\x00" + k1 + b"\x51\xae")                 # PUSHDATA2 key
    out.append(b"\x51" + spec_push(k1) + b"\x01\x01\xae")             # n as data push 01 01
    out.append(b"\x51" + spec_push(k1) + b"\x4c\x01\x01\xae")
    out.append(b"\x01\x01" + spec_push(k1) + b"\x51\xae")             # m as data push (non-minimal, first opcode is read leniently)
    for nk in (17, 18, 20, 30):
        ks = keys_for(rng, nk, 33)
        for m in (1, 15):
            out.append(spec_multisig(m, ks, 0x50 + nk))                # closing opcode beyond OP_16 (former finding, fixed)
    # every one-byte script, a sample of two-byte scripts
    out += [bytes([o]) for o in range(256)]
    for a in (0x00, 0x01, 0x14, 0x20, 0x4c, 0x4d, 0x4e, 0x51, 0x60, 0x6a, 0x76, 0xa9, 0xac, 0xae):
        out += [bytes([a, b]) for b in range(0, 256, 1 if tier == "thorough" else 5)]
    # random scripts: opcodes and pushes
    ops = [0x00, 0x4f, 0x51, 0x52, 0x60, 0x61, 0x6a, 0x76, 0x87, 0x88, 0xa9, 0xac, 0xad, 0xae, 0xaf, 0xb1]
    for _ in range(1500 if tier == "quick" else 60000):
        parts = []
        for _ in range(rng.randint(0, 6)):
            r = rng.random()
            if r < 0.45:
                parts.append(bytes([rng.choice(ops)]))
            elif r < 0.9:
                n = rng.choice([1, 2, 20, 20, 32, 32, 33, 33, 65, 75, 76, 120, 121, rng.randint(0, 130)])
                d = rb(rng, n)
                parts.append(spec_push(d) if rng.random() < 0.85 else b"\x4c" + bytes([n]) + d)
            else:
                parts.append(rb(rng, rng.randint(1, 4)))
        out.append(b"".join(parts))
    return out


def b32_raw(hrp, ver, prog, spec):
    data = [ver] + bech32m.convertbits(prog, 8, 5)
    return bech32m.bech32_encode(hrp, data, spec)


def own_strings(rng, net, tier):
    """strings aimed at one network: its own addresses, wrong payload lengths under its prefixes, damaged strings"""
    out = []
    pk, sh, hrp = net.address._address_prefix, net.address._pay_to_script_prefix, net.address._bech32_hrp
    lens = range(0, 41) if (tier == "thorough" or net.symbol in ("BTC", "ZEC", "PIVX", "LTC", "XTN")) else (0, 1, 19, 20, 21, 32)
    for pre in (pk, sh):
        if pre is None:
            continue
        for n in lens:
            out.append(b2a_hashed_base58(pre + rb(rng, n)))
        good = b2a_hashed_base58(pre + rb(rng, 20))
        out += [good[:-1], good + "1", "1" + good, good.swapcase(), good[:5] + ("2" if good[5] != "2" else "3") + good[6:],
                " " + good, good + " ", good.lower()]
        # right length, other version bytes
        out.append(b2a_hashed_base58(bytes([pre[0] ^ 1]) + pre[1:] + rb(rng, 20)))
        out.append(b2a_hashed_base58(pre + b"\x00" + rb(rng, 20))[:])
        out.append(b2a_hashed_base58(pre[:-1] + rb(rng, 20)))
        out.append(b2a_base58(pre + rb(rng, 24)))                  # bad checksum
    for h in ([hrp] if hrp else []) + ["bc", "tb", "zz"]:
        for ver in (0, 1, 2, 16, 17, 31):
            for n in (0, 1, 2, 19, 20, 21, 31, 32, 33, 40, 41):
                prog = rb(rng, n)
                for spec in (1, 2):
                    if tier == "quick" and h != hrp and not (ver in (0, 1) and n in (20, 32)):
                        continue
                    s = b32_raw(h, ver, prog, spec)
                    out.append(s)
                    if ver in (0, 1) and n in (20, 32):
                        out += [s.upper(), s[:-1] + ("q" if s[-1] != "q" else "p"), s[0].upper() + s[1:], s[:-1]]
        # non-zero padding / extra padding quintet
        data = [0] + bech32m.convertbits(rb(rng, 20), 8, 5)
        data[-1] |= 1
        out.append(bech32m.bech32_encode(h, data, 1))
        out.append(bech32m.bech32_encode(h, [0] + bech32m.convertbits(rb(rng, 20), 8, 5) + [0], 1))
        out.append(bech32m.bech32_encode(h, [], 1))
        out.append(bech32m.bech32_encode(h, [0], 1))
    out += ["", " ", "1", "bc1", "éé", "0" * 30, "l" * 30, "1" * 25, "1" * 34, "???", "(nulldata 00)",
            "bc1" + "q" * 39, "BC1" + "Q" * 39]
    return out


def foreign_cases(rng):
    """(A, kind, payload, string) for every network and every kind it defines"""
    out = []
    for a in SYMS:
        A = NETS[a]
        for k in kinds_of(A):
            p = rb(rng, KIND_LEN[k])
            out.append((a, k, p, addr_of(A, k, p)))
    return out


# ------------------------------------------------------------------------------------------------
# one parseable_str object offered to several networks in turn (pycoin.cmds.ku.parse_key)
def sibling_groups():
    """standard networks sharing a network_name (BTC/XTN/XRT "Bitcoin", LTC/XLT, ZEC/tZEC ...)"""
    g = {}
    for sym in SYMS:
        g.setdefault(NETS[sym].network_name, []).append(sym)
    return [v for _, v in sorted(g.items()) if len(v) > 1]


def history_sequences(rng, tier):
    """(sequence of symbols, string): every ordering of 2..4 members of every sibling group (exhaustive) on the addresses of
    each member, every ordered pair of networks sharing a prefix or hrp, and random sequences of 2-4 networks"""
    out = []
    for grp in sibling_groups():
        strings = []
        for sym in grp:
            for k in kinds_of(NETS[sym]):
                strings.append(addr_of(NETS[sym], k, rb(rng, KIND_LEN[k])))
        strings += ["", "xyz", strings[0].upper(), strings[0][:-1]]
        for n in range(2, min(4, len(grp)) + 1):
            for seq in itertools.permutations(grp, n):
                for s in strings:
                    out.append((list(seq), s))
        for sym in grp:       # the same network twice, and around a sibling
            out.append(([sym, sym], strings[0]))
            out.append(([sym, grp[0], sym], strings[-5] if len(strings) > 5 else strings[0]))
    # networks with a common prefix / hrp (not necessarily the same name)
    for a in SYMS:
        for b in SYMS:
            if a != b and any(x is not None and x in prefixes(NETS[b]) for x in prefixes(NETS[a])):
                for k in kinds_of(NETS[a]):
                    if rng.random() < (1.0 if tier == "thorough" else 0.25):
                        out.append(([b, a], addr_of(NETS[a], k, rb(rng, KIND_LEN[k]))))
    for _ in range(400 if tier == "quick" else 8000):
        seq = [rng.choice(SYMS) for _ in range(rng.randint(2, 4))]
        src = NETS[rng.choice(seq + [rng.choice(SYMS)])]
        k = rng.choice(kinds_of(src))
        out.append((seq, addr_of(src, k, rb(rng, KIND_LEN[k]))))
    return out


def _impl_parse_seq(seq, s):
    ps = parseable_str(s)
    res = []
    for sym in seq:
        net = NETS[sym]
        try:
            c = net.parse.address(ps)
            if c is None:
                res.append("N")
            else:
                # script() and address() are computed by the network the Contract is bound to; the model computes them on
                # the network that was asked
                res.append("(" + canon(canon_info(c.info())) + " " + call(c.script) + " " + call(c.address) + ")")
        except Exception as e:  # noqa
            res.append("!" + exn_tag(e))
    return "[" + " ".join(res) + "]"


def chk_history(seq, s, via="address"):
    """each network's answer to a SHARED parseable_str equals its answer to a fresh str, and the Contract belongs to the
    network that was asked"""
    ps = parseable_str(s)
    for i, sym in enumerate(seq):
        net = NETS[sym]
        f = getattr(net.parse, via)
        got = f(ps)
        want = f(str(s))
        if (got is None) != (want is None):
            return {"kind": "shared-string-verdict-differs", "step": i, "net": sym, "seq": seq, "string": s,
                    "shared": None if got is None else got.address(), "fresh": None if want is None else want.address()}
        if got is not None:
            if got._network is not net:
                return {"kind": "contract-bound-to-other-network", "step": i, "net": sym, "seq": seq, "string": s,
                        "bound_to": getattr(got._network, "symbol", "?")}
            if got.script() != want.script() or got.address() != want.address() or got.info() != want.info():
                return {"kind": "shared-string-contract-differs", "step": i, "net": sym, "seq": seq, "string": s}
    return None


# ------------------------------------------------------------------------------------------------
# implementation thunks
def _impl_for_kind(k, p):
    f = [C.for_p2pkh, C.for_p2sh, C.for_p2pkh_wit, C.for_p2sh_wit, C.for_p2tr, C.for_p2pk, C.for_nulldata][k]
    return canon(f(p))


def _impl_match(text, s):
    r = C.match(text, s)
    if r is None:
        return "N"
    return canon(tuple(list(r.get(k, [])) for k in ("PUBKEY_LIST", "PUBKEYHASH_LIST", "SEGWIT_LIST", "DATA_LIST", "SYNTHETIC_KEY")))


def _impl_parse(net, which, s):
    c = getattr(net.parse, which)(s)
    if c is None:
        return "N"
    return "(" + canon(canon_info(c.info())) + " " + call(c.script) + " " + call(c.address) + ")"


def _impl_multisig_info(s):
    d = C._info_from_multisig_script(s)
    return "N" if d is None else canon(canon_info(d))


TEMPLATE_TEXTS = [
    "OP_DUP OP_HASH160 'PUBKEYHASH' OP_EQUALVERIFY OP_CHECKSIG", "OP_0 'SEGWIT'", "OP_HASH160 'PUBKEYHASH' OP_EQUAL",
    "'PUBKEY' OP_CHECKSIG", "OP_1 'SYNTHETIC_KEY'",
]
EXTRA_TEMPLATES = [
    "OP_RETURN 'DATA'", "'DATA' 'DATA'", "OP_DUP", "", "'PUBKEY' 'DATA' 'PUBKEY' OP_2 OP_CHECKMULTISIG",
    "OP_1 'PUBKEY' 'PUBKEY' OP_2 OP_CHECKMULTISIG", "'SEGWIT' 'SYNTHETIC_KEY' 'PUBKEYHASH'", "OP_16 'FOO' OP_1NEGATE",
]


def tmpl_arg(text):
    items = []
    for t in text.split():
        if t.startswith("'"):
            items.append("q" + t[1:-1].encode().hex())
        else:
            items.append("o" + t.encode().hex())
    return "[" + ",".join(items) + "]"


def sarg(s):
    return "x" + s.encode("utf8").hex()


_KEYCACHE = {}


def key_material(rng, n):
    out = []
    for _ in range(n):
        se = rng.randrange(1, 2 ** 256 - 2 ** 33)
        out.append(se)
    return out


def bip_nodes(net, seed):
    k = (net.symbol, seed)
    if k not in _KEYCACHE:
        n49 = BIP49Node.make_subclass(net.symbol, network=net, generator=secp256k1_generator).from_master_secret(seed)
        n84 = BIP84Node.make_subclass(net.symbol, network=net, generator=secp256k1_generator).from_master_secret(seed)
        _KEYCACHE[k] = (n49, n84)
    return _KEYCACHE[k]


def model_cases(rng, tier):
    # ---- ContractAPI.for_* on every payload shape
    for p in payloads(rng, tier):
        for k in range(7):
            yield Case("for_kind %s %s" % (arg(k), arg(p)), (lambda k=k, p=p: xcall(_impl_for_kind, k, p)))
    ms = list(range(-2, 21)) + [127, 128, 255, 256, 2 ** 31, 2 ** 63, 2 ** 64 - 1, 2 ** 64, 2 ** 64 + 1, 10 ** 20, 10 ** 21, -(2 ** 64 - 1), -2 ** 64,
                                1844674407370955161, 18446744073709551620]
    for m in ms:
        for nk in (0, 1, 2, 3, 16, 17) if abs(m) < 30 else (1,):
            ks = keys_for(rng, nk)
            yield Case("for_multisig %s %s" % (arg(m), arg(ks)), (lambda m=m, ks=ks: xcall(lambda: canon(C.for_multisig(m, ks)))))
    for ks in ([b""], [b"", b"\x02" * 33], [b"\x10"], [b"\x12\x34", b"\x1a\xdd"], [b"\x05" * 5] * 3, [b"\x02" * 130]):
        yield Case("for_multisig %s %s" % (arg(1), arg(ks)), (lambda ks=ks: xcall(lambda: canon(C.for_multisig(1, ks)))))
    # ---- classifier
    scripts = classifier_scripts(rng, tier)
    for s in scripts:
        yield Case("info_for_script " + arg(s), (lambda s=s: xcall(lambda: canon(canon_info(C.info_for_script(s))))))
    for i, s in enumerate(scripts):
        if i % 3 == 0 or (s[:1] and 0x50 <= s[0] <= 0x61):
            yield Case("multisig_info " + arg(s), (lambda s=s: xcall(_impl_multisig_info, s)))
    for i, s in enumerate(scripts):
        if i % (4 if tier == "quick" else 1) == 0:
            k = i % 5
            yield Case("match_std %s %s" % (arg(k), arg(s)), (lambda k=k, s=s: xcall(_impl_match, TEMPLATE_TEXTS[k], s)))
        if i % (9 if tier == "quick" else 2) == 0:
            t = EXTRA_TEMPLATES[i % len(EXTRA_TEMPLATES)]
            yield Case("match %s %s" % (tmpl_arg(t), arg(s)), (lambda t=t, s=s: xcall(_impl_match, t, s)))
    for k in range(5):   # each standard script against each template
        for j in range(5):
            s = spec_script(j, rb(rng, KIND_LEN[j]))
            yield Case("match_std %s %s" % (arg(k), arg(s)), (lambda k=k, s=s: xcall(_impl_match, TEMPLATE_TEXTS[k], s)))
    # ---- AddressAPI per network
    for sym in SYMS:
        net = NETS[sym]
        nm = arg(sym.encode())
        lens = list(range(0, 41)) if (tier == "thorough" or sym in ("BTC", "ZEC", "LTC")) else [0, 19, 20, 21, 31, 32, 33, 40]
        for which in ("p2pkh", "p2sh", "p2pkh_wit", "p2sh_wit", "p2tr", "p2s", "p2s_wit"):
            for n in lens:
                p = rb(rng, n)
                yield Case("addr %s %s %s" % (nm, which, arg(p)),
                           (lambda net=net, which=which, p=p: call(getattr(net.address, "for_" + which), p)))
        ss = [spec_script(k, rb(rng, KIND_LEN[k])) for k in range(5)] + [spec_script(5, rb(rng, 33)), spec_script(5, rb(rng, 65)),
              b"\x6a\x01\x02", b"", b"\x51", spec_multisig(1, keys_for(rng, 2)), spec_script(0, rb(rng, 19)), spec_script(3, rb(rng, 33))]
        for s in ss:
            yield Case("addr %s script %s" % (nm, arg(s)), (lambda net=net, s=s: call(net.address.for_script, s)))
    # ---- ParseAPI per network: own strings, every foreign network's addresses
    foreign = foreign_cases(rng)
    for sym in SYMS:
        net = NETS[sym]
        nm = arg(sym.encode())
        for s in own_strings(rng, net, tier):
            yield Case("parse %s address %s" % (nm, sarg(s)), (lambda net=net, s=s: xcall(_impl_parse, net, "address", s)))
        for (a, k, p, s) in foreign:
            yield Case("parse %s address %s" % (nm, sarg(s)), (lambda net=net, s=s: xcall(_impl_parse, net, "address", s)),
                       meta={"from": a, "kind": KINDS[k]})
        # the individual parsers on the network's own good addresses and on a few foreign ones
        samples = [addr_of(net, k, rb(rng, KIND_LEN[k])) for k in kinds_of(net)] + [f[3] for f in foreign[:: 17]]
        for which in ("p2pkh", "p2sh", "p2pkh_segwit", "p2sh_segwit", "p2tr"):
            for s in samples:
                yield Case("parse %s %s %s" % (nm, which, sarg(s)), (lambda net=net, which=which, s=s: xcall(_impl_parse, net, which, s)))
        for s in samples[:5] + ["", "xyz"]:
            yield Case("for_address %s %s" % (nm, sarg(s)), (lambda net=net, s=s: call(net.contract.for_address, s)))
    # ---- one parseable_str through several networks
    for seq, st in history_sequences(rng, tier):
        yield Case("parse_seq %s %s" % (",".join(arg(x.encode()) for x in seq), sarg(st)),
                   (lambda seq=seq, st=st: _impl_parse_seq(seq, st)))
    # ---- key -> address
    for sym in SYMS:
        net = NETS[sym]
        nm = arg(sym.encode())
        for se in key_material(rng, 2 if tier == "quick" else 10):
            key = net.keys.private(se)
            for comp in (True, False):
                sec = key.sec(is_compressed=comp)
                yield Case("key_address %s %s" % (nm, arg(sec)), (lambda key=key, comp=comp: call(key.address, comp)))
        n49, n84 = bip_nodes(net, b"c08-" + sym.encode())
        for comp in (True, False):
            yield Case("bip49_address %s %s" % (nm, arg(n49.sec(is_compressed=comp))), (lambda n=n49, comp=comp: call(n.address, comp)))
            yield Case("bip84_address %s %s" % (nm, arg(n84.sec(is_compressed=comp))), (lambda n=n84, comp=comp: call(n.address, comp)))


def nontrivial(line, r):
    return not r.startswith("!") and r != "N"


# ------------------------------------------------------------------------------------------------
# direct checks of the property on the implementation
def _h160(b):
    h = hashlib.new("ripemd160")
    h.update(hashlib.sha256(b).digest())
    return h.digest()


def chk_roundtrip(sym, k, p):
    """script -> address -> script on one network (C08_script_address_script)"""
    net = NETS[sym]
    want = spec_script(k, p)
    built = getattr(net.contract, "for_" + KINDS[k])(p)
    if built != want:
        return {"kind": "constructor-differs-from-spec", "got": built.hex(), "want": want.hex()}
    s = addr_of(net, k, p)
    if s is None:
        return {"kind": "no-address-for-defined-kind"}
    if net.address.for_script(want) != s:
        return {"kind": "for_script-differs-from-for_kind", "got": net.address.for_script(want), "want": s}
    c = net.parse.address(s)
    if c is None:
        return {"kind": "own-address-rejected", "address": s}
    if c.script() != want:
        return {"kind": "address-parses-to-other-script", "address": s, "got": c.script().hex(), "want": want.hex()}
    if c.address() != s or net.contract.for_address(s) != want:
        return {"kind": "contract-address-differs", "address": s, "got": c.address()}
    return None


def chk_accept(sym, s):
    """whatever a network accepts has a standard kind, the right payload length and is the address (up to
    Bech32 case) of the script it denotes (C08_accept_implies_reencode)"""
    net = NETS[sym]
    c = net.parse.address(s)
    if c is None:
        return None
    info = c.info()
    t = info.get("type")
    ok = {"p2pkh": ("hash160", 20), "p2sh": ("hash160", 20), "p2pkh_wit": ("hash160", 20), "p2sh_wit": ("hash256", 32),
          "p2tr": ("synthetic_key", 32)}
    if t not in ok:
        return {"kind": "accepted-string-is-no-standard-kind", "type": t, "string": s}
    if len(info[ok[t][0]]) != ok[t][1]:
        return {"kind": "accepted-payload-length", "type": t, "len": len(info[ok[t][0]]), "string": s}
    sc = c.script()
    if sc != spec_script(list(ok).index(t), info[ok[t][0]]):
        return {"kind": "contract-script-differs-from-spec", "string": s}
    s2 = net.address.for_script(sc)
    if s2 is None or not (s2 == s or (t in ("p2pkh_wit", "p2sh_wit", "p2tr") and s2 == s.lower())):
        return {"kind": "accepted-string-is-not-the-re-encoding", "string": s, "reencoded": s2}
    c2 = net.parse.address(s2)
    if c2 is None or c2.script() != sc:
        return {"kind": "re-encoding-denotes-other-script", "string": s, "reencoded": s2}
    return None


def chk_cross(a, k, p, b):
    """an address produced on A is accepted on B exactly when B's own prefix/hrp of some kind equals A's, and then B
    re-encodes what it understood to the same string with the same payload (C08_cross_network)"""
    A, B = NETS[a], NETS[b]
    s = addr_of(A, k, p)
    c = B.parse.address(s)
    pa = prefixes(A)[k]
    pb = prefixes(B)
    if k < 2:
        exp = 0 if pb[0] == pa else (1 if pb[1] == pa else None)
    else:
        exp = k if pb[k] == pa else None
    if c is None:
        if exp is not None:
            return {"kind": "foreign-address-with-equal-prefix-rejected", "string": s}
        return None
    if exp is None:
        return {"kind": "foreign-address-accepted-without-equal-prefix", "string": s, "as": c.info().get("type"),
                "prefix_a": pa.hex() if isinstance(pa, bytes) else pa}
    if c.script() != spec_script(exp, p):
        return {"kind": "foreign-address-denotes-unexpected-script", "string": s, "got": c.script().hex()}
    if c.address() != s or B.address.for_script(c.script()) != s:
        return {"kind": "accepting-network-does-not-produce-the-string", "string": s, "got": c.address()}
    return None


def chk_classify(s):
    """a script reported as a standard kind is rebuilt exactly from the report (C08_classification_faithful)"""
    info = C.info_for_script(s)
    t = info["type"]
    try:
        back = C.for_info(info)
    except Exception as e:
        return {"kind": "for_info-raises", "type": t, "detail": "%s: %s" % (type(e).__name__, e), "script": s.hex()[:300]}
    if back != s:
        r = {"kind": "classification-not-faithful", "type": t, "script": s.hex()[:3000], "rebuilt_tail": back[-6:].hex()}
        if t == "multisig":
            r["n_keys"] = len(info["sec_keys"])
        return r
    # independent classification of the five address kinds
    exp = None
    for k in range(5):
        n = KIND_LEN[k]
        for n in ((20, 32) if k in (2, 3) else (n,)):
            pre, post = {0: (b"\x76\xa9", b"\x88\xac"), 1: (b"\xa9", b"\x87"), 2: (b"\x00", b""), 3: (b"\x00", b""), 4: (b"\x51", b"")}[k]
            if len(s) == len(pre) + 1 + n + len(post) and s.startswith(pre + bytes([n])) and s.endswith(post):
                exp = {0: "p2pkh", 1: "p2sh", 4: "p2tr"}.get(k) or ("p2pkh_wit" if n == 20 else "p2sh_wit")
    if exp is not None and t != exp:
        return {"kind": "standard-script-misclassified", "script": s.hex(), "type": t, "want": exp}
    if exp is None and t in ("p2pkh", "p2sh", "p2pkh_wit", "p2sh_wit", "p2tr"):
        return {"kind": "non-standard-script-given-an-address-kind", "script": s.hex(), "type": t}
    return None


def chk_key(sym, se, comp):
    net = NETS[sym]
    key = net.keys.private(se)
    sec = key.sec(is_compressed=comp)
    want = net.address.for_script(spec_script(0, _h160(sec)))
    got = key.address(is_compressed=comp)
    if got != want:
        return {"kind": "key-address-differs", "got": got, "want": want}
    if comp and key.address() != want:
        return {"kind": "key-address-default-differs"}
    n49, n84 = bip_nodes(net, b"c08-" + sym.encode())
    h = _h160(n49.sec(is_compressed=comp))
    want49 = net.address.for_script(spec_script(1, _h160(spec_script(2, h))))
    if n49.address(is_compressed=comp) != want49:
        return {"kind": "bip49-address-differs", "got": n49.address(is_compressed=comp), "want": want49}
    h = _h160(n84.sec(is_compressed=comp))
    want84 = net.address.for_script(spec_script(2, h)) if net.address._bech32_hrp else None
    if n84.address(is_compressed=comp) != want84:
        return {"kind": "bip84-address-differs", "got": n84.address(is_compressed=comp), "want": want84}
    return None


def chk_codec_b58(d):
    """premises B1-B3 of Props/C08.v on pycoin's Base58Check"""
    s = b2a_hashed_base58(d)
    if parse_b58_double_sha256(s) != d:
        return {"kind": "premise-B1-decode-encode", "data": d.hex()}
    if 2 * len(s) > 3 * (len(d) + 4):
        return {"kind": "premise-B3-length", "data": d.hex(), "len": len(s)}
    return None


def chk_codec_b58_dec(s):
    d = parse_b58_double_sha256(s)
    if d is not None and b2a_hashed_base58(d) != s:
        return {"kind": "premise-B2-decode-not-canonical", "string": s}
    return None


def chk_codec_seg(hrp, ver, prog):
    """premises S1-S2 on pycoin's bech32m"""
    s = bech32m.encode(hrp, ver, prog)
    valid = ver <= 16 and 2 <= len(prog) <= 40 and (ver != 0 or len(prog) in (20, 32))
    if s is None:
        if valid:
            return {"kind": "premise-S2-encode-refuses-valid-program", "hrp": hrp, "ver": ver, "len": len(prog)}
        return None
    if parse_bech32(s) != (hrp, ver, prog, 1 if ver == 0 else 2):
        return {"kind": "premise-S1-parse-of-encode", "string": s}
    if len(s) != len(hrp) + 8 + (8 * len(prog) + 4) // 5:
        return {"kind": "premise-S1-length", "string": s}
    return None


def chk_codec_seg_parse(s):
    """premise S3: what parse_bech32 reads with a valid program re-encodes to the lower-cased string"""
    v = parse_bech32(s)
    if v is None:
        return None
    hrp, ver, prog, spec = v
    valid = ver <= 16 and 2 <= len(prog) <= 40 and (ver != 0 or len(prog) in (20, 32))
    if valid and spec == (1 if ver == 0 else 2):
        if bech32m.encode(hrp, ver, prog) != s.lower():
            return {"kind": "premise-S3-reencode", "string": s, "got": bech32m.encode(hrp, ver, prog)}
    return None


def chk_groestl(sym):
    """the three Groestlcoin networks: parsers disabled, Base58 encoder unavailable (documented, table-only)"""
    net = NONSTD[sym]
    if net.parse.address("FiY8i8U4j3q4uT1kq9y1vb1y9v2Wb6vVbX") is not None:
        return {"kind": "groestl-parser-enabled"}
    import io, contextlib
    try:
        with contextlib.redirect_stdout(io.StringIO()), contextlib.redirect_stderr(io.StringIO()):
            net.address.for_p2pkh(b"\x00" * 20)
    except ImportError:
        return None
    return {"kind": "groestl-encoder-available"}


def prop_cases(rng, tier):
    reps = 3 if tier == "quick" else 40
    for sym in SYMS:
        for k in kinds_of(NETS[sym]):
            ps = [rb(rng, KIND_LEN[k]) for _ in range(reps)] + [b"\x00" * KIND_LEN[k], b"\xff" * KIND_LEN[k], bytes.fromhex("12" * KIND_LEN[k])]
            for p in ps:
                yield PropCase("roundtrip", {"net": sym, "kind": k, "payload": p.hex()}, (lambda sym=sym, k=k, p=p: chk_roundtrip(sym, k, p)))
    foreign = foreign_cases(rng)
    for sym in SYMS:
        for s in own_strings(rng, NETS[sym], tier):
            yield PropCase("accept", {"net": sym, "string": s}, (lambda sym=sym, s=s: chk_accept(sym, s)))
        for (a, k, p, s) in foreign:
            yield PropCase("accept", {"net": sym, "string": s}, (lambda sym=sym, s=s: chk_accept(sym, s)))
    # every ordered pair x every kind of A (exhaustive), fresh payloads
    for (a, k, p, s) in foreign_cases(rng):
        for b in SYMS:
            yield PropCase("cross", {"a": a, "kind": k, "payload": p.hex(), "b": b}, (lambda a=a, k=k, p=p, b=b: chk_cross(a, k, p, b)))
    for s in classifier_scripts(rng, tier):
        yield PropCase("classify", {"script": s.hex()}, (lambda s=s: chk_classify(s)))
    for sym in SYMS:
        for se in key_material(rng, 1 if tier == "quick" else 5):
            for comp in (True, False):
                yield PropCase("key", {"net": sym, "se": "%x" % se, "compressed": comp}, (lambda sym=sym, se=se, comp=comp: chk_key(sym, se, comp)))
    for n in list(range(0, 61)) + [100, 200]:
        for d in (rb(rng, n), b"\xff" * n, b"\x00" * n, b"\x00" * (n // 2) + b"\xff" * (n - n // 2)):
            yield PropCase("codec_premises", {"b58": d.hex()}, (lambda d=d: chk_codec_b58(d)))
    hrps = sorted({NETS[s].address._bech32_hrp for s in SYMS if NETS[s].address._bech32_hrp})
    for hrp in hrps:
        for ver in (0, 1, 2, 16, 17):
            for n in (0, 1, 2, 19, 20, 21, 31, 32, 33, 40, 41):
                yield PropCase("codec_premises", {"hrp": hrp, "ver": ver, "len": n},
                               (lambda hrp=hrp, ver=ver, n=n, p=rb(rng, n): chk_codec_seg(hrp, ver, p)))
    for sym in SYMS[::4] + ["BTC"]:
        for s in own_strings(rng, NETS[sym], "quick"):
            yield PropCase("codec_premises", {"string": s}, (lambda s=s: chk_codec_b58_dec(s) or chk_codec_seg_parse(s)))
    # history: one parseable_str object through sequences of networks; exhaustive over ordered pairs x the second one's kinds
    for seq, st in history_sequences(rng, tier):
        for via in ("address", "payable"):
            yield PropCase("history", {"seq": seq, "string": st, "via": via}, (lambda seq=seq, st=st, via=via: chk_history(seq, st, via)))
    for a in SYMS:
        for b in SYMS:
            for k in kinds_of(NETS[b]):
                st = addr_of(NETS[b], k, rb(rng, KIND_LEN[k]))
                yield PropCase("history", {"seq": [a, b], "string": st, "via": "address"}, (lambda a=a, b=b, st=st: chk_history([a, b], st)))
    yield PropCase("classify", {"script": "regression:multisig17"}, _regress_multisig17)
    # the six prefix-of-prefix offenders of DESIGN.md section 7 #17 (fixed in /repo): named regressions
    for a, k, b in (("ZEC", 0, "CHC"), ("ZEC", 1, "CHC"), ("tZEC", 1, "CHC"), ("PIVX", 1, "BTC"), ("PIVX", 1, "BCH"), ("DCRT", 1, "FTC")):
        for _ in range(5):
            p = rb(rng, 20)
            yield PropCase("cross", {"a": a, "kind": k, "payload": p.hex(), "b": b, "former_offender": True},
                           (lambda a=a, k=k, p=p, b=b: chk_cross(a, k, p, b)))
    for sym in sorted(NONSTD):
        yield PropCase("groestl_table_only", {"net": sym}, (lambda sym=sym: chk_groestl(sym)))


def replay_input(check, inp):
    if check == "roundtrip":
        return chk_roundtrip(inp["net"], inp["kind"], bytes.fromhex(inp["payload"]))
    if check == "accept":
        return chk_accept(inp["net"], inp["string"])
    if check == "cross":
        return chk_cross(inp["a"], inp["kind"], bytes.fromhex(inp["payload"]), inp["b"])
    if check == "history":
        return chk_history(inp["seq"], inp["string"], inp.get("via", "address"))
    if check == "classify":
        if inp["script"].startswith("regression:"):
            return _regress_multisig17()
        return chk_classify(bytes.fromhex(inp["script"]))
    if check == "key":
        return chk_key(inp["net"], int(inp["se"], 16), inp["compressed"])
    if check == "codec_premises":
        if "b58" in inp:
            return chk_codec_b58(bytes.fromhex(inp["b58"]))
        if "string" in inp:
            return chk_codec_b58_dec(inp["string"]) or chk_codec_seg_parse(inp["string"])
        return chk_codec_seg(inp["hrp"], inp["ver"], b"\x07" * inp["len"])
    if check == "groestl_table_only":
        return chk_groestl(inp["net"])
    return {"kind": "unknown-check"}


def classify(pc, r):
    return None


def _regress_multisig17():
    """former finding multisig-n-over-16 (fixed in /repo by ed0c18d): a closing opcode beyond OP_16 is no key count"""
    ks = [bytes([2]) + bytes([i + 1]) * 32 for i in range(17)]
    s = spec_multisig(1, ks, 0x61)
    if C.info_for_script(s)["type"] != "unknown":
        return {"kind": "classification-not-faithful", "type": C.info_for_script(s)["type"], "script": s.hex(), "n_keys": 17}
    return chk_classify(s)


KNOWN_REPLAYS = {}


def search(rng, tier, disagreements, known_ids):
    """after a proof/correspondence break: look for an input on which the property itself fails"""
    cands = []
    for d in disagreements[:200]:
        toks = d["case"].split(" ")
        fn = toks[0]
        try:
            if fn == "parse" or fn == "for_address":
                sym = bytes.fromhex(toks[1][1:]).decode()
                s = bytes.fromhex(toks[-1][1:]).decode("utf8")
                cands.append(PropCase("accept", {"net": sym, "string": s}, (lambda sym=sym, s=s: chk_accept(sym, s))))
                if d.get("meta"):
                    a, k = d["meta"]["from"], KINDS.index(d["meta"]["kind"])
                    for _ in range(3):
                        p = rb(rng, KIND_LEN[k])
                        cands.append(PropCase("cross", {"a": a, "kind": k, "payload": p.hex(), "b": sym},
                                              (lambda a=a, k=k, p=p, sym=sym: chk_cross(a, k, p, sym))))
                for k in kinds_of(NETS[sym]):
                    p = rb(rng, KIND_LEN[k])
                    cands.append(PropCase("roundtrip", {"net": sym, "kind": k, "payload": p.hex()}, (lambda sym=sym, k=k, p=p: chk_roundtrip(sym, k, p))))
            elif fn == "parse_seq":
                seq = [bytes.fromhex(t[1:]).decode() for t in toks[1].split(",")]
                st = bytes.fromhex(toks[2][1:]).decode("utf8")
                cands.append(PropCase("history", {"seq": seq, "string": st, "via": "address"}, (lambda seq=seq, st=st: chk_history(seq, st))))
            elif fn == "addr":
                sym = bytes.fromhex(toks[1][1:]).decode()
                for k in kinds_of(NETS[sym]):
                    p = rb(rng, KIND_LEN[k])
                    cands.append(PropCase("roundtrip", {"net": sym, "kind": k, "payload": p.hex()}, (lambda sym=sym, k=k, p=p: chk_roundtrip(sym, k, p))))
            elif fn in ("info_for_script", "multisig_info", "match", "match_std"):
                s = bytes.fromhex(toks[-1][1:])
                cands.append(PropCase("classify", {"script": s.hex()}, (lambda s=s: chk_classify(s))))
            elif fn == "for_kind":
                k = int(toks[1][1:], 16)
                p = bytes.fromhex(toks[2][1:])
                if k < 5 and len(p) == KIND_LEN[k]:
                    cands.append(PropCase("roundtrip", {"net": "BTC", "kind": k, "payload": p.hex()}, (lambda k=k, p=p: chk_roundtrip("BTC", k, p))))
            elif fn in ("key_address", "bip49_address", "bip84_address"):
                sym = bytes.fromhex(toks[1][1:]).decode()
                for se in key_material(rng, 2):
                    for comp in (True, False):
                        cands.append(PropCase("key", {"net": sym, "se": "%x" % se, "compressed": comp},
                                              (lambda sym=sym, se=se, comp=comp: chk_key(sym, se, comp))))
        except Exception:
            continue
    cands += list(prop_cases(rng, "quick"))
    for pc in cands:
        try:
            r = pc.thunk()
        except Exception as e:
            r = {"kind": "raises", "detail": "%s: %s" % (type(e).__name__, e)}
        if r is not None and classify(pc, r) not in known_ids:
            return {"check": pc.name, "input": pc.inp, "failure": r}
    return None
