"""C05, key-supply HISTORIES: one Keychain (or lookup) object across add_key_paths / add_keys_path / add_secret(s) /
add_p2s_script / get / clear_secrets calls and several Tx.sign passes over several transactions.

* correspondence: Model/SolveKeychain.v (kc_run) against pycoin.key.Keychain on random operation histories;
* direct checks, independent of the model: every answer of the historied keychain against a keychain built AFRESH from
  the same contents and asked once; every signing pass against signing with a fresh complete keychain (byte-equal
  scriptSig / witness) and against the property's own expectation (an input validates under the STANDARD flags exactly
  when its key was supplied: path filed and master secret added, or the key added itself), never valid before the
  secret exists; a dict lookup reused across passes and transactions against a rebuilt one.
"""
import random as _random
from common import *


def _c05():
    import c05
    return c05


KIDS = {}          # kid (bytes) -> private Key object (BIP32 node or plain Key)
PATH_POOL = ["0", "1", "0/1", "0/0/0", "7", "5H", "44H/0H/2", "1H/3"]


def _o_kfp(b):
    return KIDS[bytes(b)].fingerprint()


def _o_derive(b):
    n = b[0]
    kid, path = bytes(b[1:1 + n]), bytes(b[1 + n:]).decode()
    return KIDS[kid].subkey_for_path(path).secret_exponent().to_bytes(32, "big")


ORACLES = {"c05_kfp": _o_kfp, "c05_derive": _o_derive}


class Hist:
    pass


_HTAG = [0]


def gen_history(seedstr, force_sym=None):
    """deterministic from seedstr: keys, a list of keychain operations (with signing attempts), final probes"""
    C = _c05()
    rng = _random.Random("kc/" + seedstr)
    h = Hist()
    h.seed = seedstr
    h.sym = force_sym or rng.choice(C.SYMS)
    net = C.NETS[h.sym]
    h.net = net
    _HTAG[0] += 1
    tag = b"h" + _HTAG[0].to_bytes(3, "big")
    h.kids = {}
    n_m = rng.choice([1, 1, 2, 3])
    for i in range(n_m):
        kid = tag + b"M%d" % i
        h.kids[kid] = net.keys.bip32_seed(b"c05kc/" + seedstr.encode() + b"/%d" % i)
    for i in range(rng.choice([0, 0, 1, 2])):
        kid = tag + b"L%d" % i
        h.kids[kid] = net.keys.private(rng.randrange(1, C.ORDER), is_compressed=rng.random() < 0.6)
    if rng.random() < 0.3:     # a BIP32 subkey handled as a key of its own
        kid = tag + b"N0"
        h.kids[kid] = h.kids[tag + b"M0"].subkey_for_path("9H/1")
    KIDS.update(h.kids)
    masters = [k for k in h.kids if k[4:5] in (b"M", b"N")]
    loose = [k for k in h.kids if k[4:5] == b"L"]
    h.scripts = [bytes([0x51 + rng.randrange(8)]) * rng.randint(1, 4) for _ in range(rng.choice([0, 0, 1, 2]))]
    # the subkeys that matter: (kid, path)
    pool = []
    for kid in masters:
        for p in rng.sample(PATH_POOL, rng.randint(1, 4)):
            pool.append((kid, p))
    if tag + b"N0" in h.kids:          # two routes to the same keys: N0 = M0/9H/1
        for q in ("0", "1"):
            if rng.random() < 0.7:
                pool.append((tag + b"N0", q))
                pool.append((tag + b"M0", "9H/1/" + q))
    h.pool = pool

    def sub(kid, p):
        return h.kids[kid].subkey_for_path(p)

    # operations
    ops = []
    n_ops = rng.randint(4, 14)
    filed = set()
    for _ in range(n_ops):
        r = rng.random()
        if r < 0.25:
            kid = rng.choice(masters + loose)
            ps = [p for k, p in pool if k == kid] or [""]
            ps = rng.sample(ps, rng.randint(1, len(ps)))
            if rng.random() < 0.2:
                ps.append(rng.choice(PATH_POOL))
            ops.append(("P", kid, ps, rng.random() < 0.5))
            filed |= set((kid, p) for p in ps)
        elif r < 0.32:
            p = rng.choice(["0", "1", "0/1", "7"])
            ks = rng.sample(masters + loose, rng.randint(1, len(masters + loose)))
            ops.append(("K", ks, p))
            filed |= set((k, p) for k in ks)
        elif r < 0.55:
            ops.append(("S", rng.choice(masters + loose)))
        elif r < 0.60 and h.scripts:
            ops.append(("2", rng.choice(h.scripts)))
        elif r < 0.85:
            ops.append(("G", None))        # hash chosen below, when the candidates are known
        elif r < 0.97:
            ops.append(("T", None))
        else:
            ops.append(("C",))
    # candidate hashes
    cands = []
    for kid, p in sorted(set(pool) | filed):
        k = sub(kid, p)
        cands.append((k.hash160(is_compressed=True), "sub-c", kid, p))
        cands.append((k.hash160(is_compressed=False), "sub-u", kid, p))
    for kid in h.kids:
        k = h.kids[kid]
        cands.append((k.hash160(is_compressed=True), "own-c", kid, ""))
        cands.append((k.hash160(is_compressed=False), "own-u", kid, ""))
    for s in h.scripts:
        cands.append((C._h160(s), "p2s-160", None, None))
        cands.append((hashlib.sha256(s).digest(), "p2s-256", None, None))
    cands.append((bytes(rng.getrandbits(8) for _ in range(20)), "random", None, None))
    h.cands = cands
    # signing attempts: transactions over single-key inputs on candidate keys (BIP32 subkeys in either form outside
    # witness programs, loose keys in their own form)
    h.txs = []
    for _ in range(rng.choice([1, 2, 3])):
        ins = []
        for _ in range(rng.randint(1, 3)):
            if pool and rng.random() < 0.8:
                kid, p = rng.choice(pool)
                k = sub(kid, p)
                comp = rng.random() < 0.65
            else:
                kid, p = rng.choice(list(h.kids)), ""
                k = h.kids[kid]
                comp = k.is_compressed() if kid[4:5] == b"L" else True
            kind = rng.choice([C.K_P2PKH, C.K_P2PKH, C.K_P2WPKH, C.K_P2SH_P2WPKH, C.K_P2PK]) if comp else \
                rng.choice([C.K_P2PKH, C.K_P2PK])
            ins.append((kid, p, comp, kind))
        h.txs.append(ins)
    out = []
    for o in ops:
        if o[0] == "G":
            out.append(("G", rng.choice(cands)[0]))
        elif o[0] == "T":
            out.append(("T", rng.randrange(len(h.txs)), rng.choice([None, 1, 0x82, 3])))
        else:
            out.append(o)
    h.ops = out
    return h


def _mk_tx(h, ti):
    """Scenario-like object (for c05.build_tx) for transaction ti of the history"""
    C = _c05()
    sc = C.Scenario()
    sc.net, sc.sym = h.net, h.sym
    sc.inputs = []
    for kid, p, comp, kind in h.txs[ti]:
        se = h.kids[kid].subkey_for_path(p).secret_exponent()
        sc.inputs.append(C.Inp(h.net, kind, 1, [(se, comp)]))
    sc.txin_specs = [(bytes([0x40 + ti, i]) * 16, i, 0xfffffffe) for i in range(len(sc.inputs))]
    sc.txout_specs = [(1000 + ti, h.net.contract.for_p2pkh(b"\x33" * 20))]
    sc.version, sc.lock_time = 2, 0
    sc.unspent_values = [50000 + i for i in range(len(sc.inputs))]
    return sc


def _canon_get(v):
    if v is None:
        return None
    if isinstance(v, (bytes, bytearray)):
        return (0, bytes(v))
    return (1, v[0].to_bytes(32, "big"), bool(v[2]))


def _apply_table_op(kc, h, o):
    if o[0] == "P":
        key = h.kids[o[1]]
        if o[3] and all("H" not in p for p in o[2]):
            key = key.public_copy()          # watch-only filing
        kc.add_key_paths(key, o[2])
    elif o[0] == "K":
        kc.add_keys_path([h.kids[k] for k in o[1]], o[2])
    elif o[0] == "2":
        kc.add_p2s_script(o[1])


def fresh_keychain(h, upto):
    """a keychain built afresh from the contents after the first `upto` operations: tables, then the secrets"""
    kc = h.net.keychain()
    secrets = []
    for o in h.ops[:upto]:
        _apply_table_op(kc, h, o)
        if o[0] == "S":
            if o[1] not in secrets:
                secrets.append(o[1])
        elif o[0] == "C":
            secrets = []
    kc.add_secrets([h.kids[k] for k in secrets])
    return kc, secrets


def expected_supplied(h, upto, kid, p):
    """the property's own notion: is the secret of subkey (kid, p) supplied by the contents after `upto` operations —
    by ANY filed route whose private key is present, or as a key that was added itself"""
    return h.kids[kid].subkey_for_path(p).secret_exponent() in known_secrets(h, upto)


def known_secrets(h, upto):
    """secret exponents the contents after `upto` operations supply: added keys' own, and filed subkeys of added keys"""
    secrets, filed = [], []
    for o in h.ops[:upto]:
        if o[0] == "S" and o[1] not in secrets:
            secrets.append(o[1])
        elif o[0] == "C":
            secrets = []
        elif o[0] == "P":
            filed += [(o[1], q) for q in o[2]]
        elif o[0] == "K":
            filed += [(k, o[2]) for k in o[1]]
    known = set(h.kids[k].secret_exponent() for k in secrets)
    known |= set(h.kids[k].subkey_for_path(q).secret_exponent() for k, q in filed if k in secrets)
    return known


def play_history(h):
    """run the history on one Keychain; returns (get answers in order, per signing attempt records, keychain)"""
    C = _c05()
    kc = h.net.keychain()
    answers, signs = [], []
    states = {}
    for j, o in enumerate(h.ops):
        if o[0] in ("P", "K", "2"):
            _apply_table_op(kc, h, o)
        elif o[0] == "S":
            kc.add_secret(h.kids[o[1]])
        elif o[0] == "C":
            kc.clear_secrets()
        elif o[0] == "G":
            answers.append(_canon_get(kc.get(o[1])))
        elif o[0] == "T":
            ti, ht = o[1], o[2]
            sc = _mk_tx(h, ti)
            for inp in sc.inputs:            # the lookups the signer is about to make (idempotent), recorded
                hh = inp.hash if inp.kind != C.K_P2PK else C._h160(inp.secs[0])
                answers.append(_canon_get(kc.get(hh)))
            before = states.get(ti, [(b"", []) for _ in sc.inputs])
            tx = C.build_tx(sc, before)
            kw = {} if ht is None else {"hash_type": ht}
            scripts = [s for inp in sc.inputs for s in inp.lookup_scripts]
            exc = None
            try:
                tx.sign(kc, p2sh_lookup=h.net.tx.solve.build_p2sh_lookup(scripts), **kw)
            except Exception as e:  # noqa
                exc = exn_tag(e)
            after = C.state_of(tx)
            states[ti] = after
            signs.append({"op": j, "ti": ti, "ht": ht, "before": before, "after": after, "exc": exc,
                          "valid": [bool(tx.is_solution_ok(i, flags=C.std_flags(h.sym))) for i in range(len(sc.inputs))]})
    finals = []
    for hh, cls, kid, p in h.cands:
        finals.append(_canon_get(kc.get(hh)))
    return answers, finals, signs, kc


def history_line(h):
    C = _c05()
    toks = []
    n = 0
    for o in h.ops:
        if o[0] == "P":
            toks += ["P", arg(o[1]), arg([p.encode() for p in o[2]])]; n += 1
        elif o[0] == "K":
            toks += ["K", arg(list(o[1])), arg(o[2].encode())]; n += 1
        elif o[0] == "S":
            toks += ["S", arg(o[1])]; n += 1
        elif o[0] == "2":
            toks += ["2", arg(o[1])]; n += 1
        elif o[0] == "C":
            toks += ["C"]; n += 1
        elif o[0] == "G":
            toks += ["G", arg(o[1])]; n += 1
        elif o[0] == "T":
            sc = _mk_tx(h, o[1])
            for inp in sc.inputs:
                hh = inp.hash if inp.kind != C.K_P2PK else C._h160(inp.secs[0])
                toks += ["G", arg(hh)]; n += 1
    for hh, cls, kid, p in h.cands:
        toks += ["G", arg(hh)]; n += 1
    return "kc_run %s %s" % (arg(n), " ".join(toks))


def impl_history(seedstr, sym):
    h = gen_history(seedstr, sym)
    answers, finals, signs, kc = play_history(h)
    return canon(answers + finals)


def model_cases(rng, tier):
    n = 40 if tier == "quick" else 900
    base = "%x" % rng.getrandbits(64)
    for i in range(n):
        seedstr = "%s/k%d" % (base, i)
        try:
            h = gen_history(seedstr)
            line = history_line(h)
        except Exception as e:   # the implementation raised while the history was being prepared
            tag = exn_tag(e)
            yield Case("kc_history_failed " + arg(seedstr.encode()), (lambda tag=tag: "!IMPL_RAISED:" + tag), {"kcseed": seedstr})
            continue
        # the thunk replays the SAME kids (registered under h's tag), so it re-uses h
        yield Case(line, (lambda h=h: canon((lambda r: r[0] + r[1])(play_history(h)))), {"kcseed": seedstr, "sym": h.sym})


# ------------------------------------------------------------------------------------------------
def chk_history(seedstr, sym=None):
    """history independence and the property's expectation on one history (implementation only)"""
    C = _c05()
    h = gen_history(seedstr, sym)
    try:
        answers, finals, signs, kc = play_history(h)
    except Exception as e:
        return {"kind": "keychain-raises", "detail": "%s: %s" % (type(e).__name__, e)}
    nops = len(h.ops)
    known_hit = None
    # 1. every final answer against a keychain built afresh from the same contents and asked ONCE
    for (hh, cls, kid, p), got in zip(h.cands, finals):
        ref_kc, secrets = fresh_keychain(h, nops)
        ref = _canon_get(ref_kc.get(hh))
        if got != ref:
            f = {"kind": "keychain-history-dependent", "hash_class": cls, "hash": hh.hex(), "kid": None if kid is None else kid[4:].decode(),
                 "path": p, "historied": repr(got)[:120], "fresh": repr(ref)[:120]}
            if _is_known_unc(f):
                known_hit = known_hit or f         # the open finding: keep looking for anything else
                continue
            return f
        # and against the property's expectation for the filed (own-form) hashes and the added keys
        if cls in ("own-c", "own-u") and kid in secrets and (got is None or got[0] != 1):
            return {"kind": "keychain-forgets-added-secret", "hash_class": cls, "kid": kid[4:].decode()}
        if got is not None and got[0] == 1 and kid is not None:
            want = h.kids[kid].subkey_for_path(p).secret_exponent().to_bytes(32, "big")
            if got[1] != want:
                return {"kind": "keychain-wrong-secret", "hash_class": cls}
            if int.from_bytes(want, "big") not in known_secrets(h, nops):
                return {"kind": "keychain-key-without-secret", "hash_class": cls, "kid": kid[4:].decode()}
    # 2. every signing attempt: the property's expectation, and a fresh complete keychain
    for s in signs:
        if s["exc"] is not None:
            return {"kind": "sign-raises", "detail": s["exc"], "op": s["op"]}
        sc = _mk_tx(h, s["ti"])
        ref_kc, _ = fresh_keychain(h, s["op"])
        tx = C.build_tx(sc, s["before"])
        kw = {} if s["ht"] is None else {"hash_type": s["ht"]}
        scripts = [x for inp in sc.inputs for x in inp.lookup_scripts]
        tx.sign(ref_kc, p2sh_lookup=h.net.tx.solve.build_p2sh_lookup(scripts), **kw)
        if C.state_of(tx) != s["after"]:
            return {"kind": "sign-history-dependent", "op": s["op"], "tx": s["ti"],
                    "detail": "signing with the historied keychain differs from signing with a keychain built afresh from the same contents"}
        ever = [any(expected_supplied(h, t["op"], kid, p) for t in signs if t["ti"] == s["ti"] and t["op"] <= s["op"])
                for (kid, p, comp, kind) in h.txs[s["ti"]]]
        if s["valid"] != ever:
            return {"kind": "validity-vs-supplied-keys", "op": s["op"], "tx": s["ti"], "valid": s["valid"], "supplied": ever}
    return known_hit


def _is_known_unc(f):
    return False        # the uncompressed-subkey finding is fixed in /repo bacec40: nothing is excused any more


def chk_watch_only_then_secret(sym, order):
    """the C05-c3 shape, on every coin: file the paths, try (get / sign) without the secret, add the secret in one or
    several steps, sign the same and another transaction with the same keychain"""
    C = _c05()
    net = C.NETS[sym]
    m1 = net.keys.bip32_seed(b"c05 watch-only A " + sym.encode())
    m2 = net.keys.bip32_seed(b"c05 watch-only B " + sym.encode())
    paths = ["0/%d" % i for i in range(3)] + ["3H/1"]
    subs = [m1.subkey_for_path(p) for p in paths[:2]] + [m2.subkey_for_path(p) for p in paths[2:]]
    kinds = [C.K_P2PKH, C.K_P2WPKH, C.K_P2SH_P2WPKH, C.K_P2PKH]

    def scen(salt):
        sc = C.Scenario()
        sc.net, sc.sym = net, sym
        sc.inputs = [C.Inp(net, kd, 1, [(k.secret_exponent(), True)]) for kd, k in zip(kinds, subs)]
        ms = C.Inp(net, C.K_P2SH_MS, 2, [(k.secret_exponent(), True) for k in subs[:3]])
        sc.inputs.append(ms)
        sc.txin_specs = [(bytes([salt, i]) * 16, i, 0xffffffff) for i in range(len(sc.inputs))]
        sc.txout_specs = [(777, net.contract.for_p2pkh(b"\x44" * 20))]
        sc.version, sc.lock_time, sc.unspent_values = 1, 0, [9000 + i for i in range(len(sc.inputs))]
        return sc
    sc = scen(1)
    scripts = [x for inp in sc.inputs for x in inp.lookup_scripts]
    p2 = net.tx.solve.build_p2sh_lookup(scripts)
    kc = net.keychain()
    kc.add_key_paths(m1.public_copy(), paths[:3])
    kc.add_key_paths(m2, paths[2:])
    tx = C.build_tx(sc, [(b"", []) for _ in sc.inputs])
    if order == "get-first":
        for k in subs:
            if kc.get(k.hash160()) is not None:
                return {"kind": "keychain-key-without-secret"}
    tx.sign(kc, p2sh_lookup=p2)
    v = [tx.is_solution_ok(i, flags=C.std_flags(sym)) for i in range(len(sc.inputs))]
    if any(v):
        return {"kind": "valid-without-keys", "valid": v}
    kc.add_secret(m1)
    tx.sign(kc, p2sh_lookup=p2)
    v = [tx.is_solution_ok(i, flags=C.std_flags(sym)) for i in range(len(sc.inputs))]
    if v != [True, True, False, False, True]:
        return {"kind": "validity-vs-supplied-keys", "after": "add_secret(master A)", "valid": v, "supplied": [True, True, False, False, True]}
    kc.add_secrets([m2])
    tx.sign(kc, p2sh_lookup=p2)
    v = [tx.is_solution_ok(i, flags=C.std_flags(sym)) for i in range(len(sc.inputs))]
    if v != [True] * 5:
        return {"kind": "validity-vs-supplied-keys", "after": "add_secrets([master B])", "valid": v, "supplied": [True] * 5}
    sc2 = scen(2)
    tx2 = C.build_tx(sc2, [(b"", []) for _ in sc2.inputs])
    tx2.sign(kc, p2sh_lookup=p2)
    if tx2.bad_solution_count(flags=C.std_flags(sym)) != 0:
        return {"kind": "validity-vs-supplied-keys", "after": "second transaction, same keychain", "bad": tx2.bad_solution_count(flags=C.std_flags(sym))}
    # the same two transactions signed by a keychain that had the secrets from the start
    ref = net.keychain()
    ref.add_key_paths(m1, paths[:3]); ref.add_key_paths(m2, paths[2:]); ref.add_secrets([m1, m2])
    for s_, t_ in ((sc, tx), (sc2, tx2)):
        r = C.build_tx(s_, [(b"", []) for _ in s_.inputs])
        r.sign(ref, p2sh_lookup=p2)
        if r.as_bin() != t_.as_bin() and s_ is sc2:
            return {"kind": "sign-history-dependent", "detail": "second transaction differs from the fresh-keychain signature"}
    return None


def chk_uncompressed_subkey(sym="btc", order="unc-first"):
    """former finding keychain-uncompressed-subkey-unregistered (fixed in /repo bacec40), kept as a permanent check: P2PKH
    inputs on the UNCOMPRESSED and the compressed encoding of a filed BIP32 subkey, keys supplied as a keychain of
    hierarchical keys, in both input orders"""
    C = _c05()
    net = C.NETS[sym]
    master = net.keys.bip32_seed(b"c05 uncompressed")
    paths = ["0/0", "0/1"]
    sub = master.subkey_for_path("0/0")
    kc = net.keychain()
    kc.add_key_paths(master, paths)
    kc.add_secret(master)
    sc = C.Scenario()
    sc.net, sc.sym = net, sym
    forms = [False, True] if order == "unc-first" else [True, False]
    sc.inputs = [C.Inp(net, C.K_P2PKH, 1, [(sub.secret_exponent(), c)]) for c in forms]
    sc.txin_specs = [(bytes([0x61 + i]) * 32, i, 0xffffffff) for i in range(2)]
    sc.txout_specs = [(1234, net.contract.for_p2pkh(b"\x55" * 20))]
    sc.version, sc.lock_time, sc.unspent_values = 1, 0, [10000, 20000]
    tx = C.build_tx(sc, [(b"", []), (b"", [])])
    tx.sign(kc)
    v = [bool(tx.is_solution_ok(i, flags=C.std_flags(sym))) for i in range(2)]
    if v != [True, True]:
        return {"kind": "validity-vs-supplied-keys", "uncompressed_bip32_subkey": True, "order": order, "forms_compressed": forms,
                "valid": v, "supplied": [True, True]}
    return None


def chk_two_routes(sym="btc", order="account-first"):
    """former finding keychain-first-filed-route-shadows (fixed in /repo 50fdc0a), kept as a permanent check: the same key
    filed by two routes (account key watch-only, master key with the longer path) in both filing orders; only the master
    secret is added"""
    C = _c05()
    net = C.NETS[sym]
    M = net.keys.bip32_seed(b"c05 two routes")
    N = M.subkey_for_path("9H/1")
    leaf = N.subkey_for_path("0")
    kc = net.keychain()
    if order == "account-first":
        kc.add_key_paths(N.public_copy(), ["0"]); kc.add_key_paths(M, ["9H/1/0"])
    else:
        kc.add_key_paths(M, ["9H/1/0"]); kc.add_key_paths(N.public_copy(), ["0"])
    kc.add_secret(M)
    sc = C.Scenario()
    sc.net, sc.sym = net, sym
    sc.inputs = [C.Inp(net, C.K_P2PKH, 1, [(leaf.secret_exponent(), True)]), C.Inp(net, C.K_P2WPKH, 1, [(leaf.secret_exponent(), True)])]
    sc.txin_specs = [(bytes([0x71 + i]) * 32, i, 0xffffffff) for i in range(2)]
    sc.txout_specs = [(1234, net.contract.for_p2pkh(b"\x55" * 20))]
    sc.version, sc.lock_time, sc.unspent_values = 1, 0, [10000, 20000]
    tx = C.build_tx(sc, [(b"", []), (b"", [])])
    tx.sign(kc)
    v = [bool(tx.is_solution_ok(i, flags=C.std_flags(sym))) for i in range(2)]
    if v != [True, True]:
        return {"kind": "validity-vs-supplied-keys", "two_routes": True, "order": order, "valid": v, "supplied": [True, True],
                "get_is_none": kc.get(leaf.hash160()) is None}
    return None


def chk_dict_reuse(seedstr):
    """one lookup dict / p2sh dict across passes and transactions against dicts rebuilt for every call"""
    C = _c05()
    sc = C.gen_scenario(seedstr, False)
    keys = [k[0] for inp in sc.inputs for k in inp.keyspecs]
    scripts = [s for inp in sc.inputs for s in inp.lookup_scripts]
    net = sc.net
    look = net.tx.solve.build_hash160_lookup(keys)
    p2 = net.tx.solve.build_p2sh_lookup(scripts)
    snap = (dict(look), dict(p2))
    for hh in list(look)[:3] + [b"\x00" * 20]:
        look.get(hh)
    outs = []
    for rebuilt in (False, True):
        res = []
        for salt in (0, 1):
            tx = C.build_tx(sc, [(b"", []) for _ in sc.inputs])
            tx.lock_time = (tx.lock_time + salt) & 0xffffffff
            a, b = (net.tx.solve.build_hash160_lookup(keys), net.tx.solve.build_p2sh_lookup(scripts)) if rebuilt else (look, p2)
            tx.sign(a, p2sh_lookup=b, hash_type=1)
            tx.sign(a, p2sh_lookup=b, hash_type=0x83)
            res.append(tx.as_bin())
        outs.append(res)
    if outs[0] != outs[1]:
        return {"kind": "sign-history-dependent", "detail": "a reused lookup dict signs differently from a rebuilt one"}
    if (dict(look), dict(p2)) != snap:
        return {"kind": "lookup-mutated", "detail": "Tx.sign changed the caller's lookup dict"}
    return None


def prop_cases(rng, tier):
    C = _c05()
    n = 30 if tier == "quick" else 700
    base = "%x" % rng.getrandbits(64)
    for i in range(n):
        s = "%s/k%d" % (base, i)
        yield PropCase("kc-history", {"seed": s}, (lambda s=s: chk_history(s)))
    for sym in C.SYMS:
        for order in ("get-first", "sign-first"):
            yield PropCase("kc-watch-only", {"sym": sym, "order": order}, (lambda sym=sym, order=order: chk_watch_only_then_secret(sym, order)))
        for order in ("unc-first", "comp-first"):
            yield PropCase("kc-uncompressed", {"sym": sym, "order": order}, (lambda sym=sym, order=order: chk_uncompressed_subkey(sym, order)))
        for order in ("account-first", "master-first"):
            yield PropCase("kc-two-routes", {"sym": sym, "order": order}, (lambda sym=sym, order=order: chk_two_routes(sym, order)))
    for i in range(6 if tier == "quick" else 60):
        s = "%s/d%d" % (base, i)
        yield PropCase("dict-reuse", {"seed": s}, (lambda s=s: chk_dict_reuse(s)))


def replay_input(check, inp):
    if check == "kc-history":
        return chk_history(inp["seed"], inp.get("sym"))
    if check == "kc-watch-only":
        return chk_watch_only_then_secret(inp["sym"], inp["order"])
    if check == "kc-uncompressed":
        return chk_uncompressed_subkey(inp["sym"], inp["order"])
    if check == "kc-two-routes":
        return chk_two_routes(inp["sym"], inp["order"])
    if check == "dict-reuse":
        return chk_dict_reuse(inp["seed"])
    return None


def classify(pc, r):
    return None          # both keychain findings are fixed in /repo (bacec40, 50fdc0a): nothing is excused
