"""C17 — signed text messages verify for the signer only and never crash the verifier."""
from common import *
import binascii, base64, importlib, pkgutil
from pycoin.ecdsa.Generator import Generator
from pycoin.ecdsa.rfc6979 import deterministic_generate_k
from pycoin.contrib.msg_signing import MessageSigner
from pycoin.encoding.exceptions import EncodingError
from pycoin.encoding.sec import public_pair_to_sec
import c17_armour as ARM
import c17_unicode as UNI

PROP = "C17"
EXTRA_PROPS = ["C17compose"]   # composition theorems (see DESIGN.md section 0)
DRIVER = "C17"
INTERACTIVE = True
RULE = ("correspondence: one driver line per call of a2b_base64 / b2a_base64+strip / _decode_signature / hash_for_signing / "
        "k*G / sign_with_recid / signature_for_message_hash / sign_message / pair_for_message_hash / verify_message "
        "(toy generators built with the public Generator and MessageSigner constructors) / parse_signed_message; "
        "distinct = distinct line; non-trivial = the model returns a value (not an exception)")
PARTIAL = [
    "the theorems are over an abstract group; for secp256k1 their premises (prime order, group laws on <G>, points_for_x "
    "completeness, p <= 2n) are mathematical facts that are not proved here (they are proved for the toy curve p=43); "
    "the production networks are covered by direct checks only",
    "RFC 6979 nonce generation is outside the model (the nonce is an input); C01 covers it",
    "network.parse.address (address text -> kind + hash160) is outside the model (C08/C18); keys are modelled as public pair / "
    "hash160-carrying object / parsed address (kind, hash160) / unparseable",
    "armoured form: Model/MsgArmour.v models str.replace/split/re.split/strip/lower by hand on code-point lists (the regular "
    "expression is replaced by an equivalent hand-written matcher); the three round-trip theorems are proved for that model and "
    "tied to the code by correspondence on ~9000 generated armoured and malformed texts; their domain excludes every message "
    "containing '\\n-----BEGIN ' (slightly more than the marker lines proper) and messages with a bare carriage return",
]
TRUSTED = ["binascii.a2b_base64/b2a_base64 of CPython 3.12 modelled by hand (Model/Base64.v), tied by ~10^4 correspondence cases",
           "pycoin Generator over toy curves is used as the implementation side of the group (pure-Python Curve.add/multiply)"]
ASSUMPTIONS = ["the signature is a str (the model's text); the code also accepts bytes, where non-ASCII bytes are skipped by binascii instead of "
               "rejected: covered by a direct totality check only",
               "GRS/GRSRT/TGRS cannot compute addresses in this sandbox (groestlcoin_hash absent): only their digest (hash_for_signing) is exercised",
               "messages are valid Unicode (str.encode('utf8') succeeds); a lone surrogate in the message makes both sign_message and "
               "verify_message raise UnicodeEncodeError and is outside the property's domain",
               "strings shorter than 2^64 bytes (stream_satoshi_string)"]

# ---- toy curves: (p, a, b, gx, gy, n), p = 3 mod 4, n prime ------------------------------------------------------
def _first_point(p, a, b):
    for x in range(0, p):
        al = (x * x * x + a * x + b) % p
        y = pow(al, (p + 1) // 4, p)
        if y and (y * y - al) % p == 0:
            return (x, y)
    raise ValueError


_SMALL = [(11, 2, 7, 7), (19, 0, 2, 13), (43, 0, 7, 31), (43, 1, 5, 37), (79, 0, 6, 67), (211, 0, 2, 199)]
TOYS = [(p, a, b) + _first_point(p, a, b) + (n,) for p, a, b, n in _SMALL] + [
    (1019, 1, 20, 7, 215, 1033), (1019, 1, 24, 1, 364, 1009), (4099, 1, 34, 1, 6, 4049),
    (65539, 0, 11, 2, 35708, 65287), (65539, 1, 14, 1, 4, 65731), (1048571, 1, 14, 1, 4, 1047587)]
TOYS[2] = (43, 0, 7, 2, 12, 31)      # the curve of Proofs/MsgInstP.v with its generator


class ToyContract:
    """what network.parse.address returns: info() with a "type", hash160()"""
    def __init__(self, typ, h):
        self._info = {"hash160": h}
        if typ is not None:
            self._info["type"] = typ

    def info(self):
        return self._info

    def hash160(self):
        return self._info.get("hash160")


class _ToyParse:
    """address texts of the toy network: 'toy:<type or ->:<hex of the hash160 or ->'; anything else does not parse"""
    def address(self, s):
        parts = s.split(":")
        if len(parts) != 3 or parts[0] != "toy":
            return None
        return ToyContract(None if parts[1] == "-" else parts[1], None if parts[2] == "-" else bytes.fromhex(parts[2]))


class ToyNet:
    network_name = "Toycoin"
    parse = _ToyParse()


def toy_addr(typ, h):
    return "toy:%s:%s" % ("-" if typ is None else typ, "-" if h is None else h.hex())


def kind_token(typ):
    return typ if typ in ("p2pkh", "p2pkh_wit") else "other"


class PairKey:
    def __init__(self, pair):
        self._p = tuple(pair)

    def public_pair(self):
        return self._p


class HashKey:
    def __init__(self, h):
        self._h = h

    def hash160(self):
        return self._h


class PrivKey:
    def __init__(self, d, comp, addr="toyaddress"):
        self._d, self._c, self._a = d, comp, addr

    def secret_exponent(self):
        return self._d

    def is_compressed(self):
        return self._c

    def address(self):
        return self._a


_TOY_CACHE = {}


def toy(cv):
    if cv not in _TOY_CACHE:
        p, a, b, gx, gy, n = cv
        g = Generator(p, a, b, (gx, gy), n)
        _TOY_CACHE[cv] = (g, MessageSigner(ToyNet, g))
    return _TOY_CACHE[cv]


def cvargs(cv):
    return " ".join(arg(v) for v in cv)


def pt_canon(q):
    return None if q[0] is None else (q[0], q[1])


def mk_text(first, r, s):
    return base64.b64encode(bytes([first & 255]) + (r % (1 << 256)).to_bytes(32, "big") + (s % (1 << 256)).to_bytes(32, "big")).decode()


def T(s: str) -> str:
    """driver token for a text"""
    return "x" + s.encode("utf8").hex()


# ---- generators ----------------------------------------------------------------------------------------------------
B64 = "ABCDEFGHIJKLMNOPQRSTUVWXYZabcdefghijklmnopqrstuvwxyz0123456789+/"


def _texts(rng, tier):
    """base64-ish texts: valid, padded in every way, polluted, non-ASCII"""
    out = []
    alpha = ["A", "/", "=", "!", "\n", "z"]
    maxlen = 5 if tier == "quick" else 6
    cur = [""]
    for _ in range(maxlen):
        cur = [c + a for c in cur for a in alpha]
        out += cur
    out.append("")
    for n in list(range(0, 12)) + [63, 64, 65, 66, 67]:
        d = bytes(rng.getrandbits(8) for _ in range(n))
        e = base64.b64encode(d).decode()
        out += [e, e.rstrip("="), e + "=", e + "==", e + "A", e + "\n", " " + e, e[:-1], e[:-2], "=" + e, e.replace("=", "=\n"),
                e[:3] + "=" + e[3:], e[:2] + "==" + e[2:], e[:5] + "é" + e[5:], e + "€", e[:1] + "\x00" + e[1:],
                e[:4] + "-_" + e[4:], e + "====", e[:6] + "=" * 3 + e[6:]]
    for _ in range(1500 if tier == "quick" else 40000):
        n = rng.randint(0, 12)
        s = "".join(rng.choice([rng.choice(B64), rng.choice(B64), rng.choice(B64), "=", "=", " ", "\n", "!", "\x7f", "\x80", "ÿ", "-"])
                    for _ in range(n))
        out.append(s)
    return out


def _sig_texts(rng, tier, n, p):
    """65-byte payload texts around the thresholds of _decode_signature / pair_for_message_hash"""
    out = []
    vals = sorted({0, 1, 2, n - 1, n, n + 1, p - 1, p, p + 1, 2 * n, (1 << 256) - 1, (1 << 255), n // 2})
    for first in list(range(24, 38)) + [0, 255]:
        for r in vals:
            out.append(mk_text(first, r, rng.choice(vals)))
            out.append(mk_text(first, rng.choice(vals), r))
    return out


def _messages(rng, tier):
    ms = ["", "a", "hello", "two\nlines", "dos\r\nlines", "trailing\n", "\n", "é€\U0001f600", "x" * 252, "x" * 253, "x" * 254,
          "y" * 65535, "y" * 65536, "-----BEGIN SIGNATURE-----", "Address: 1abc", " spaced ", "tab\there", "\x00nul"]
    for _ in range(20 if tier == "quick" else 400):
        n = rng.randint(0, 40)
        ms.append("".join(rng.choice("abc XYZ\n\r\t-:é中=") for _ in range(n)))
    return ms


_NETS = None


def networks():
    global _NETS
    if _NETS is None:
        import pycoin.symbols as S
        _NETS = []
        for nm in sorted(m.name for m in pkgutil.iter_modules(S.__path__)):
            try:
                _NETS.append(importlib.import_module("pycoin.symbols." + nm).network)
            except ImportError:
                pass
    return _NETS


_USABLE = None


def usable_networks():
    """networks whose addresses can be computed here (GRS/GRSRT/TGRS need the absent groestlcoin_hash package)"""
    global _USABLE
    if _USABLE is None:
        _USABLE = []
        for nw in networks():
            try:
                nw.keys.private(1).address()
                _USABLE.append(nw)
            except ImportError:
                pass
    return _USABLE


def net(sym):
    for nw in networks():
        if nw.symbol == sym:
            return nw
    raise KeyError(sym)


# ---- correspondence --------------------------------------------------------------------------------------------------
def _impl_decode(ms, text):
    c, recid, r, s = ms._decode_signature(text)
    return (c, recid, r, s)


def _impl_recover(ms, text, z):
    q, c = ms.pair_for_message_hash(text, z)
    return (pt_canon(q), c)


def _key_tokens(kind, val):
    if kind == "P":
        return "P %s %s" % (arg(val[0]), arg(val[1])), PairKey(val)
    if kind == "H":
        return "H " + arg(val), HashKey(val)
    if kind == "HN":
        return "HN", HashKey(None)
    if kind == "A":                      # val = (type string or None, hash160 or None): goes through parse.address
        typ, h = val
        tok = ("AN " + kind_token(typ)) if h is None else ("A %s %s" % (kind_token(typ), arg(h)))
        return tok, toy_addr(typ, h)
    return "U", "not an address"


def model_cases(rng, tier):
    quick = tier == "quick"
    g0, ms0 = toy(TOYS[2])
    # A. base64 decoder on arbitrary text
    for t in _texts(rng, tier):
        yield Case("b64dec " + T(t), (lambda t=t: call(binascii.a2b_base64, t)))
        yield Case("decode " + T(t), (lambda t=t: call(_impl_decode, ms0, t)))
    # B. encoder
    for n in list(range(0, 70)) + [100, 255]:
        d = bytes(rng.getrandbits(8) for _ in range(n))
        yield Case("b64enc " + arg(d), (lambda d=d: canon(binascii.b2a_base64(d).strip())))
    # C. _decode_signature on 65-byte payloads: every first byte, boundary r and s; wrong lengths
    for first in range(256):
        t = mk_text(first, rng.getrandbits(256), rng.getrandbits(256))
        yield Case("decode " + T(t), (lambda t=t: call(_impl_decode, ms0, t)))
    for n in (0, 1, 32, 64, 66, 96):
        t = base64.b64encode(bytes([27]) + bytes(rng.getrandbits(8) for _ in range(n))).decode()
        yield Case("decode " + T(t), (lambda t=t: call(_impl_decode, ms0, t)))
    # D. magic + digest on the real networks
    msgs = _messages(rng, tier)
    for nw in networks():
        nm = nw.network_name
        yield Case("magic " + T(nm), (lambda nw=nw: canon(nw.msg.sign.__self__.msg_magic_for_netcode().encode("utf8"))))
        for m in (msgs if nw.symbol in ("BTC", "LTC") else rng.sample(msgs, 3)):
            yield Case("hash %s %s" % (T(nm), T(m)), (lambda nw=nw, m=m: call(nw.msg.hash_for_signing, m)))
    # E..H on toy curves
    for ci, cv in enumerate(TOYS):
        p, a, b, gx, gy, n = cv
        g, ms = toy(cv)
        small = n < 100
        cva = cvargs(cv)
        for e in (list(range(-2, n + 3)) if small else [0, 1, 2, n - 1, n, n + 1, -1] + [rng.randrange(n) for _ in range(6)]):
            yield Case("mul %s %s" % (cva, arg(e)), (lambda g=g, e=e: canon(pt_canon(e * g))))
        # signing: exhaustive over (d, z mod n) on the tiny curves, sampled beyond
        if n < 20:
            dz = [(d, z) for d in range(1, n) for z in range(1, 2 * n + 2)]
        else:
            dz = [(rng.randrange(1, n), rng.choice([1, n - 1, n, n + 1, rng.getrandbits(256), rng.getrandbits(256), rng.randrange(1, 4 * n)]))
                  for _ in range((60 if small else 25) * (1 if quick else 12))]
        signed = []
        for d, z in dz:
            k = deterministic_generate_k(n, d, z)
            c = bool((d + z) & 1)
            yield Case("signrs %s %s %s %s" % (cva, arg(k), arg(d), arg(z)), (lambda g=g, d=d, z=z: call(g.sign_with_recid, d, z)))
            yield Case("sign %s %s %s %s %s" % (cva, arg(k), arg(d), arg(z), arg(c)),
                       (lambda ms=ms, d=d, z=z, c=c: call(lambda: ms.signature_for_message_hash(d, z, c).encode("utf8"))))
            try:
                signed.append((d, z, c, ms.signature_for_message_hash(d, z, c)))
            except Exception:
                pass
        yield Case("sign %s %s %s %s %s" % (cva, arg(1), arg(1), arg(0), arg(True)),
                   (lambda ms=ms: call(lambda: ms.signature_for_message_hash(1, 0, True).encode("utf8"))))
        # recovery: genuine signatures with the right and a wrong hash
        keep = signed if (n < 20 or not quick) else signed[:40]
        for d, z, c, t in keep:
            for zz in (z, z + 1, z + n):
                yield Case("recover %s %s %s" % (cva, T(t), arg(zz)), (lambda ms=ms, t=t, zz=zz: call(_impl_recover, ms, t, zz)))
        # presentations of the hash: negative, huge, another representative of the same residue
        for d, z, c, t in keep[:6]:
            tok, key = _key_tokens("P", pt_canon(d * g))
            for zz in (z - 7 * n, -z, z + n * (1 << 300), -(1 << 520), 0):
                yield Case("recover %s %s %s" % (cva, T(t), arg(zz)), (lambda ms=ms, t=t, zz=zz: call(_impl_recover, ms, t, zz)))
                yield Case("verify %s %s %s %s N %s" % (cva, tok, T(t), T("Toycoin"), arg(zz)),
                           (lambda ms=ms, key=key, t=t, zz=zz: call(ms.verify_message, key, t, msg_hash=zz)))
        # recovery: crafted / malformed payloads (exhaustive on the smallest curves)
        crafted = []
        if n < 14:
            for first in range(26, 36):
                for r in range(0, n + 2):
                    for s in range(0, n + 2):
                        crafted.append((mk_text(first, r, s), 3))
            for first in range(27, 35):
                for r in range(n + 2, p + 2):
                    crafted.append((mk_text(first, r, 1), 3))
        else:
            for t in _sig_texts(rng, tier, n, p)[:: (3 if quick else 1)]:
                crafted.append((t, rng.randrange(1, 3 * n)))
            for _ in range(40 if quick else 600):
                crafted.append((mk_text(rng.randrange(27, 35), rng.randrange(0, min(p + 3, 2 * n)), rng.randrange(0, n + 1)), rng.randrange(0, 3 * n)))
        # crafted point at infinity: s*k = z (mod n) with R = k*G
        for _ in range(6):
            k = rng.randrange(1, n)
            R = k * g
            if R[0] is None or R[0] % n == 0 or R[0] >= 2 * n:
                continue
            s = rng.randrange(1, n)
            z = (s * k) % n or n
            first = 27 + (R[1] & 1) + (2 if R[0] > n else 0) + rng.choice([0, 4])
            crafted.append((mk_text(first, R[0] % n, s), z))
            crafted.append((mk_text(first, R[0] % n, s), z + 1))
        for t, z in crafted:
            yield Case("recover %s %s %s" % (cva, T(t), arg(z)), (lambda ms=ms, t=t, z=z: call(_impl_recover, ms, t, z)))
        # verify_message: signer / other key / address hash / no hash / unparseable; message and msg_hash entries
        vk = signed[:: max(1, len(signed) // (12 if quick else 60))]
        for d, z, c, t in vk:
            Q = pt_canon(d * g)
            other = pt_canon(((d % (n - 1)) + 1) * g)
            h_ok = ORACLES["hash160"](public_pair_to_sec(Q, compressed=c))
            h_flip = ORACLES["hash160"](public_pair_to_sec(Q, compressed=not c))
            for kind, val in (("P", Q), ("P", other), ("H", h_ok), ("H", h_flip), ("HN", None), ("U", None),
                              ("A", ("p2pkh", h_ok)), ("A", ("p2pkh_wit", h_ok)), ("A", ("p2pkh", h_flip)), ("A", ("p2sh", h_ok)),
                              ("A", ("p2sh_wit", h_ok)), ("A", ("p2tr", None)), ("A", (None, h_ok)), ("A", ("p2pkh", None)),
                              ("A", ("P2PKH", h_ok))):
                tok, key = _key_tokens(kind, val)
                for zz in (z, z + 1):
                    yield Case("verify %s %s %s %s N %s" % (cva, tok, T(t), T("Toycoin"), arg(zz)),
                               (lambda ms=ms, key=key, t=t, zz=zz: call(ms.verify_message, key, t, msg_hash=zz)))
            tok, key = _key_tokens("P", Q)
            yield Case("verify %s %s %s %s N N" % (cva, tok, T(t), T("Toycoin")),
                       (lambda ms=ms, key=key, t=t: call(ms.verify_message, key, t)))
            yield Case("verify %s %s %s %s N N" % (cva, tok, T("!!!"), T("Toycoin")),
                       (lambda ms=ms, key=key: call(ms.verify_message, key, "!!!")))
        # sign_message / verify_message(message=)
        for m in rng.sample(msgs, 4 if quick else 12):
            if len(m) > 1000:
                continue
            d = rng.randrange(1, n)
            c = rng.random() < 0.5
            z = ms.hash_for_signing(m)
            k = deterministic_generate_k(n, d, z)
            yield Case("signmsg %s %s %s %s %s %s" % (cva, arg(k), T("Toycoin"), arg(d), arg(c), T(m)),
                       (lambda ms=ms, d=d, c=c, m=m: call(lambda: ms.sign_message(PrivKey(d, c), m).encode("utf8"))))
            t = ms.sign_message(PrivKey(d, c), m)
            tok, key = _key_tokens("P", pt_canon(d * g))
            for mm in (m, m + "x"):
                yield Case("verify %s %s %s %s %s N" % (cva, tok, T(t), T("Toycoin"), T(mm)),
                           (lambda ms=ms, key=key, t=t, mm=mm: call(ms.verify_message, key, t, mm)))
        yield Case("signmsg %s %s %s %s %s %s" % (cva, arg(1), T("Toycoin"), arg(0), arg(True), T("m")),
                   (lambda ms=ms: call(lambda: ms.sign_message(PrivKey(0, True), "m").encode("utf8"))))
    # I. armoured form
    for c in ARM.model_cases(rng, tier):
        yield c
    # J. presentations of the message: exact UTF-8, no normalisation (full Unicode range, non-normalised strings, twins)
    for c in UNI.model_cases(rng, tier, networks):
        yield c


def nontrivial(line, r):
    return not r.startswith("!")


# ---- direct property checks on the real networks ---------------------------------------------------------------------
MAIN = ["BTC", "LTC", "DOGE", "XTN", "DASH", "BCH"]


def _key(nw, d, comp):
    return nw.keys.private(d, is_compressed=comp)


def chk_sign_verify(sym, d, comp, msg):
    nw = net(sym)
    k = _key(nw, d, comp)
    try:
        sig = nw.msg.sign(k, msg)
    except Exception as e:
        return {"kind": "sign-raises", "detail": "%s: %s" % (type(e).__name__, e)}
    try:
        if nw.msg.verify(k, sig, msg) is not True:
            return {"kind": "signer-key-rejected", "sig": sig}
        if nw.msg.verify(k.address(), sig, msg) is not True:
            return {"kind": "signer-address-rejected", "sig": sig, "addr": k.address()}
        q, c = nw.msg.pair_for_message_hash(sig, nw.msg.hash_for_signing(msg))
        if tuple(q) != tuple(k.public_pair()) or c != comp:
            return {"kind": "recovered-other-key", "sig": sig}
        # somebody else
        k2 = _key(nw, d - 1 if d > 1 else d + 1, comp)
        k3 = _key(nw, d, not comp)
        if nw.msg.verify(k2, sig, msg) is not False or nw.msg.verify(k2.address(), sig, msg) is not False:
            return {"kind": "other-key-accepted", "sig": sig}
        if nw.msg.verify(k3.address(), sig, msg) is not False:
            return {"kind": "other-compression-address-accepted", "sig": sig}
        if nw.msg.verify(k, sig, msg + "!") is not False or nw.msg.verify(k.address(), sig, msg + " ") is not False:
            return {"kind": "other-message-accepted", "sig": sig}
        if nw.msg.verify(k, sig, msg_hash=nw.msg.hash_for_signing(msg)) is not True:
            return {"kind": "msg-hash-entry-rejected", "sig": sig}
        # the ECDSA equation holds for the decoded (r, s)
        raw = base64.b64decode(sig)
        r, s = int.from_bytes(raw[1:33], "big"), int.from_bytes(raw[33:], "big")
        if not nw.generator.verify(k.public_pair(), nw.msg.hash_for_signing(msg), (r, s)):
            return {"kind": "not-an-ecdsa-signature", "sig": sig}
    except Exception as e:
        return {"kind": "verify-raises", "detail": "%s: %s" % (type(e).__name__, e), "sig": sig}
    return None


def chk_cross_network(sym_a, sym_b, d, msg):
    """a signature made on one network must not verify on a network with another magic"""
    na, nb = net(sym_a), net(sym_b)
    if na.network_name == nb.network_name:
        return None
    k = _key(na, d, True)
    sig = na.msg.sign(k, msg)
    kb = _key(nb, d, True)
    try:
        if nb.msg.verify(kb, sig, msg) is not False:
            return {"kind": "cross-network-accepted", "sig": sig}
    except Exception as e:
        return {"kind": "verify-raises", "detail": "%s: %s" % (type(e).__name__, e), "sig": sig}
    return None


def chk_total(sym, keyspec, text, msg, z):
    """verify must return a bool for any signature text / address text"""
    nw = net(sym)
    key = _key(nw, keyspec[1], True) if keyspec[0] == "key" else keyspec[1]
    try:
        r = nw.msg.verify(key, text, msg) if z is None else nw.msg.verify(key, text, msg_hash=z)
    except Exception as e:
        return {"kind": "verify-raises", "detail": "%s: %s" % (type(e).__name__, str(e)[:100])}
    if r is not True and r is not False:
        return {"kind": "verify-not-bool", "got": repr(r)}
    return None


def chk_total_bytes(sym, hx, z):
    """the code also accepts the signature as bytes (the test-suite does that): still a bool, never an exception"""
    nw = net(sym)
    k = _key(nw, 0xC0FFEE, True)
    try:
        r = nw.msg.verify(k, bytes.fromhex(hx), msg_hash=z)
        r2 = nw.msg.verify(k.address(), bytes.fromhex(hx), "m")
    except Exception as e:
        return {"kind": "verify-raises", "detail": "%s: %s" % (type(e).__name__, str(e)[:100])}
    if r not in (True, False) or r2 not in (True, False):
        return {"kind": "verify-not-bool"}
    return None


def chk_recover_sound(sym, first, r, s, z):
    """whatever pair_for_message_hash returns satisfies the ECDSA verification equation; otherwise EncodingError"""
    nw = net(sym)
    text = mk_text(first, r, s)
    try:
        q, c = nw.msg.pair_for_message_hash(text, z)
    except EncodingError:
        return None
    except Exception as e:
        return {"kind": "recover-raises", "detail": "%s: %s" % (type(e).__name__, e)}
    try:
        if z % nw.generator.order() != 0 and not nw.generator.verify(tuple(q), z, (r, s)):
            return {"kind": "recovered-key-does-not-verify", "q": [hex(q[0]), hex(q[1])]}
    except Exception as e:
        return {"kind": "ecdsa-verify-raises", "detail": "%s: %s" % (type(e).__name__, e)}
    if c != bool((first - 27) & 4):
        return {"kind": "compression-flag"}
    return None


def chk_recover_formula(sym, x, parity, s, z, comp):
    """recovery from a chosen nonce point R = (x, y), y of the given parity: pair_for_message_hash must return
    r^-1 (s R - z G) with r = x mod n, the recovery id carrying the parity and whether x > n (independent arithmetic)"""
    nw = net(sym)
    g = nw.generator
    n = g.order()
    R = g.points_for_x(x)[parity]
    r = x % n
    first = 27 + parity + (2 if x > n else 0) + (4 if comp else 0)
    inv_r = pow(r, -1, n)
    want = (s * inv_r) * R + ((-z * inv_r) % n) * g
    try:
        q, c = nw.msg.pair_for_message_hash(mk_text(first, r, s), z)
    except EncodingError:
        if want[0] is None:
            return None
        return {"kind": "recover-refused", "want": [hex(want[0]), hex(want[1])]}
    except Exception as e:
        return {"kind": "recover-raises", "detail": "%s: %s" % (type(e).__name__, e)}
    if tuple(q) != tuple(want) or c != comp:
        return {"kind": "recovered-other-point", "got": [hex(q[0]), hex(q[1])], "want": [str(want[0]), str(want[1])]}
    return None


def chk_toy(ci, d, z, comp):
    """the property on the implementation over a toy generator (public constructors only): all four recovery ids occur"""
    cv = TOYS[ci]
    g, ms = toy(cv)
    n = cv[5]
    try:
        sig = ms.signature_for_message_hash(d, z, comp)
    except Exception as e:
        # since /repo de8ed07 the retry loop of sign_with_recid wraps from n back to 1: signing must not raise any more
        return {"kind": "toy-sign-raises", "detail": "%s: %s" % (type(e).__name__, e)}
    try:
        q, c = ms.pair_for_message_hash(sig, z)
        Q = d * g
        if tuple(q) != tuple(Q) or c != comp:
            return {"kind": "toy-recovered-other-key", "sig": sig, "first": base64.b64decode(sig)[0]}
        if ms.verify_message(PairKey(Q), sig, msg_hash=z) is not True:
            return {"kind": "toy-signer-rejected", "sig": sig}
        h = ORACLES["hash160"](public_pair_to_sec(tuple(Q), compressed=comp))
        if ms.verify_message(HashKey(h), sig, msg_hash=z) is not True:
            return {"kind": "toy-signer-address-rejected", "sig": sig}
        if ms.verify_message(PairKey(Q), sig, msg_hash=z + 1) is not False:
            return {"kind": "toy-other-hash-accepted", "sig": sig}
        if ms.verify_message(PairKey(((d % (n - 1)) + 1) * g), sig, msg_hash=z) is not False:
            return {"kind": "toy-other-key-accepted", "sig": sig}
    except Exception as e:
        return {"kind": "toy-raises", "detail": "%s: %s" % (type(e).__name__, e)}
    return None


WILD = [  # signatures made by other software (from the pycoin test-suite's "found in the wild" samples)
    ("BTC", "1HZwkjkeaoZfTSaJxDw6aKkxp45agDiEzN",
     "HCT1esk/TWlF/o9UNzLDANqsPXntkMErf7erIrjH5IBOZP98cNcmWmnW0GpSAi3wbr6CwpUAN4ctNn1T71UBwSc=",
     "This is an example of a signed message."),
]


def chk_wild(i):
    sym, addr, sig, msg = WILD[i]
    nw = net(sym)
    try:
        if nw.msg.verify(addr, sig, msg) is not True:
            return {"kind": "external-signature-rejected"}
        if nw.msg.verify(addr, sig, msg + ".") is not False:
            return {"kind": "other-message-accepted"}
    except Exception as e:
        return {"kind": "verify-raises", "detail": "%s: %s" % (type(e).__name__, e)}
    return None


def _varint(n):
    return bytes([n]) if n < 253 else (b"\xfd" + n.to_bytes(2, "little") if n <= 0xffff else b"\xfe" + n.to_bytes(4, "little"))


def chk_digest_spec(sym, msg):
    """hash_for_signing against the definition written out here: dsha256(varstr(name + ' Signed Message:\\n') + varstr(msg));
    for BTC the prefix is the well-known constant \\x18Bitcoin Signed Message:\\n"""
    nw = net(sym)
    magic = (nw.network_name + " Signed Message:\n").encode("utf8")
    pre = b"\x18Bitcoin Signed Message:\n" if sym == "BTC" else _varint(len(magic)) + magic
    m = msg.encode("utf8")
    want = int.from_bytes(ORACLES["dsha256"](pre + _varint(len(m)) + m), "big")
    try:
        got = nw.msg.hash_for_signing(msg)
    except Exception as e:
        return {"kind": "digest-raises", "detail": "%s: %s" % (type(e).__name__, e)}
    if got != want:
        return {"kind": "digest-differs-from-definition", "got": hex(got), "want": hex(want)}
    return None


def chk_first_byte(sym, d, first):
    """a first byte outside 27..34 is malformed: verification must say False (and inside the range only the signer's own
    recovery id / compression flag may verify for the key)"""
    nw = net(sym)
    k = _key(nw, d, True)
    good = nw.msg.sign(k, "fb")
    raw = base64.b64decode(good)
    t = base64.b64encode(bytes([first]) + raw[1:]).decode()
    try:
        r1 = nw.msg.verify(k, t, "fb")
        r2 = nw.msg.verify(k.address(), t, "fb")
    except Exception as e:
        return {"kind": "verify-raises", "detail": "%s: %s" % (type(e).__name__, e)}
    in_range = 27 <= first < 35
    same_recid = in_range and ((first - 27) & 3) == ((raw[0] - 27) & 3)
    want1 = same_recid                          # the key comparison ignores the compression flag
    want2 = same_recid and first == raw[0]      # the address depends on it
    if r1 is not want1 or r2 is not want2:
        return {"kind": "first-byte-handling", "first": first, "signed_first": raw[0], "by_key": r1, "by_address": r2}
    return None


def chk_address_kind(sym, d):
    """only an address that refers to a key can verify: the P2SH / P2WSH / P2TR addresses built from the signer's own
    hash bytes are other addresses (False); its P2PKH and P2WPKH addresses verify"""
    nw = net(sym)
    k = _key(nw, d, True)
    sig = nw.msg.sign(k, "kind")
    h = k.hash160()
    cands = [("p2sh", lambda: nw.address.for_p2sh(h), False), ("p2sh_wit", lambda: nw.address.for_p2sh_wit(h + h[:12]), False),
             ("p2tr", lambda: nw.address.for_p2tr(h + h[:12]), False), ("p2pkh", lambda: nw.address.for_p2pkh(h), True),
             ("p2pkh_wit", lambda: nw.address.for_p2pkh_wit(h), True)]
    for name, mk, want in cands:
        try:
            a = mk()
        except Exception:
            a = None
        if not isinstance(a, str):
            continue                      # the network has no such address form
        try:
            got = nw.msg.verify(a, sig, "kind")
        except Exception as e:
            return {"kind": "verify-raises", "detail": "%s: %s" % (type(e).__name__, e), "addr": a}
        if got is not want:
            return {"kind": "other-address-kind-accepted" if got else "key-address-rejected", "addr": a, "form": name}
    return None


_HIGHX = {}


def _secp_high_x():
    """an abscissa x in [n, p) on secp256k1 with x - n small: signatures with recovery id 2/3"""
    if "v" not in _HIGHX:
        g = net("BTC").generator
        n, p = g.order(), g.p()
        res = []
        x = n + 1
        while len(res) < 3 and x < p:
            try:
                res.append((x, g.points_for_x(x)))
            except ValueError:
                pass
            x += 1
        _HIGHX["v"] = res
    return _HIGHX["v"]


def _malformed_texts(rng, nw, good):
    g = nw.generator
    n, p = g.order(), g.p()
    raw = base64.b64decode(good)
    outs = ["", "!!!notbase64", "A", "AA", "AAA", "====", "éé", good[:-1], good[:-4], good + "A", good + "AAAA", good[1:], " " + good + "\n",
            good.replace("=", ""), "x" * 87, base64.b64encode(raw[:64]).decode(), base64.b64encode(raw + b"\0").decode()]
    for first in (0, 26, 35, 36, 255):
        outs.append(base64.b64encode(bytes([first]) + raw[1:]).decode())
    for first in range(27, 35):
        outs.append(base64.b64encode(bytes([first]) + raw[1:]).decode())
    for r in (0, n, n + 1, p - 1, p, (1 << 256) - 1, 5, 6, 7, 8):       # several small r have no curve point
        for s in (1, 0, n, n - 1):
            outs.append(mk_text(rng.randrange(27, 35), r, s))
    for x, _pts in _secp_high_x():
        for first in (29, 30, 33, 34, 27):
            outs.append(mk_text(first, x - n, rng.randrange(1, n)))
    return outs


def _infinity_cases(nw, rng, count):
    """(text, z) with s*k = z (mod n) for the nonce point R = k*G: the recovered point is the point at infinity"""
    g = nw.generator
    n = g.order()
    out = []
    for _ in range(count):
        k = rng.randrange(1, n)
        R = k * g
        s = rng.randrange(1, n)
        z = (s * k) % n
        if R[0] >= n or z == 0:
            continue
        out.append((mk_text(27 + (R[1] & 1) + rng.choice([0, 4]), R[0], s), z))
    return out


def prop_cases(rng, tier):
    quick = tier == "quick"
    msgs = _messages(rng, tier)
    # 1. sign -> verify / recover / nobody else, main networks in depth, every network at least twice
    for sym in MAIN:
        for i in range(24 if quick else 400):
            d = rng.choice([1, 2, net(sym).generator.order() - 1, rng.getrandbits(255) + 1, rng.getrandbits(200) + 1])
            m = msgs[i % len(msgs)] if i < len(msgs) else rng.choice(msgs)
            comp = bool(i & 1)
            yield PropCase("sign_verify", {"net": sym, "d": str(d), "comp": comp, "msg": m[:2000], "msglen": len(m), "fill": m[:1]},
                           (lambda sym=sym, d=d, comp=comp, m=m: chk_sign_verify(sym, d, comp, m)))
    syms = [nw.symbol for nw in usable_networks()]
    for sym in syms:
        for comp in (True, False):
            d = rng.getrandbits(250) + 1
            m = rng.choice(msgs[:12])
            yield PropCase("sign_verify", {"net": sym, "d": str(d), "comp": comp, "msg": m, "msglen": len(m), "fill": m[:1]},
                           (lambda sym=sym, d=d, comp=comp, m=m: chk_sign_verify(sym, d, comp, m)))
    for i, sa in enumerate(syms):
        sb = syms[(i + 7) % len(syms)]
        d = rng.getrandbits(200) + 1
        yield PropCase("cross_network", {"a": sa, "b": sb, "d": str(d), "msg": "cross"},
                       (lambda sa=sa, sb=sb, d=d: chk_cross_network(sa, sb, d, "cross")))
    # 2. totality on malformed signature texts and address texts
    for sym in (["BTC", "LTC"] if quick else MAIN):
        nw = net(sym)
        k = _key(nw, 0xC0FFEE, True)
        good = nw.msg.sign(k, "total")
        z = nw.msg.hash_for_signing("total")
        texts = _malformed_texts(rng, nw, good) + rng.sample(_texts(rng, "quick"), 300 if quick else 3000)
        addrs = [k.address(), "", "garbage", "1" * 34, nw.address.for_p2sh(b"\1" * 20), k.address()[:-1], k.address() + "1", "é"]
        try:
            addrs.append(nw.address.for_p2sh_wit(b"\3" * 32))
            addrs.append(nw.address.for_p2pkh_wit(k.hash160()))
            addrs.append(nw.address.for_p2tr(b"\4" * 32))
        except Exception:
            pass
        addrs = [a for a in addrs if isinstance(a, str)]       # networks without bech32 return None for segwit addresses
        for j, t in enumerate(texts):
            ks = ("key", 0xC0FFEE) if j % 3 else ("addr", addrs[j % len(addrs)])
            for (m, zz) in (("total", None), (None, z), (None, 0)):
                yield PropCase("total", {"net": sym, "key": list(ks), "text": t, "msg": m, "z": None if zz is None else str(zz)},
                               (lambda sym=sym, ks=ks, t=t, m=m, zz=zz: chk_total(sym, ks, t, m, zz)))
        for a in addrs:
            yield PropCase("total", {"net": sym, "key": ["addr", a], "text": good, "msg": "total", "z": None},
                           (lambda sym=sym, a=a, good=good: chk_total(sym, ("addr", a), good, "total", None)))
        for t, zz in _infinity_cases(nw, rng, 4 if quick else 40):
            for ks in (("key", 0xC0FFEE), ("addr", k.address())):
                yield PropCase("total", {"net": sym, "key": list(ks), "text": t, "msg": None, "z": str(zz), "why": "recovers infinity"},
                               (lambda sym=sym, ks=ks, t=t, zz=zz: chk_total(sym, ks, t, None, zz)))
    good_b = net("BTC").msg.sign(_key(net("BTC"), 0xC0FFEE, True), "m").encode()
    for i in range(60 if quick else 2000):
        b = bytes(rng.getrandbits(8) for _ in range(rng.choice([0, 1, 3, 4, 87, 88, 89]))) if i % 2 else \
            bytes(c if rng.random() < 0.97 else rng.getrandbits(8) for c in good_b)
        yield PropCase("total_bytes", {"net": "BTC", "hex": b.hex(), "z": "5"}, (lambda b=b: chk_total_bytes("BTC", b.hex(), 5)))
    # 3. recovery soundness on the real curve, including recovery ids 2/3 (x = r + n) and out-of-range fields
    g = net("BTC").generator
    n, p = g.order(), g.p()
    cases = []
    for x, _pts in _secp_high_x():
        for first in range(27, 35):
            cases.append((first, x - n, rng.randrange(1, n), rng.getrandbits(256)))
    for _ in range(60 if quick else 2000):
        cases.append((rng.randrange(27, 35), rng.choice([rng.randrange(1, n), rng.randrange(1, 50), n - rng.randrange(1, 50)]),
                      rng.choice([rng.randrange(1, n), 1, n - 1]), rng.choice([rng.getrandbits(256), 1, n, n + 1, 0])))
    for r in (0, n, n + 1, p, (1 << 256) - 1):
        cases.append((27, r, 1, 5))
        cases.append((31, 1, r, 5))
    for (first, r, s, z) in cases:
        yield PropCase("recover_sound", {"net": "BTC", "first": first, "r": str(r), "s": str(s), "z": str(z)},
                       (lambda first=first, r=r, s=s, z=z: chk_recover_sound("BTC", first, r, s, z)))
    for x, _pts in _secp_high_x():
        for parity in (0, 1):
            for comp in (False, True):
                s_ = rng.randrange(1, n)
                z_ = rng.getrandbits(256)
                yield PropCase("recover_formula", {"net": "BTC", "x": str(x), "parity": parity, "s": str(s_), "z": str(z_), "comp": comp},
                               (lambda x=x, parity=parity, s_=s_, z_=z_, comp=comp: chk_recover_formula("BTC", x, parity, s_, z_, comp)))
    for _ in range(30 if quick else 600):
        R = rng.randrange(1, n) * g
        s_ = rng.randrange(1, n)
        z_ = rng.getrandbits(256)
        comp = rng.random() < 0.5
        if R[0] % n == 0:
            continue
        yield PropCase("recover_formula", {"net": "BTC", "x": str(R[0]), "parity": R[1] & 1, "s": str(s_), "z": str(z_), "comp": comp},
                       (lambda R=R, s_=s_, z_=z_, comp=comp: chk_recover_formula("BTC", R[0], R[1] & 1, s_, z_, comp)))
    # 3b. the property on toy generators (implementation only): every recovery id, exhaustively on the smallest curves
    for ci, cv in enumerate(TOYS):
        nn = cv[5]
        if nn < 20:
            dz = [(d, z) for d in range(1, nn) for z in range(1, nn + 1)]
        else:
            dz = [(rng.randrange(1, nn), rng.randrange(1, 1 << 64)) for _ in range(25 if quick else 400)]
        for d, z in dz:
            comp = bool((d ^ z) & 1)
            yield PropCase("toy", {"curve": ci, "d": d, "z": z, "comp": comp}, (lambda ci=ci, d=d, z=z, comp=comp: chk_toy(ci, d, z, comp)))
    for i in range(len(WILD)):
        yield PropCase("wild", {"i": i}, (lambda i=i: chk_wild(i)))
    for sym in MAIN + ["XTN", "MONA"]:
        for m in msgs[:14]:
            yield PropCase("digest_spec", {"net": sym, "msg": m[:300], "msglen": len(m), "fill": m[:1]},
                           (lambda sym=sym, m=m: chk_digest_spec(sym, m)))
    for first in list(range(20, 44)) + [0, 255]:
        yield PropCase("first_byte", {"net": "BTC", "d": "31337", "first": first}, (lambda first=first: chk_first_byte("BTC", 31337, first)))
    # 4. address kinds
    for sym in [nw.symbol for nw in usable_networks()]:
        yield PropCase("address_kind", {"net": sym, "d": "12345"}, (lambda sym=sym: chk_address_kind(sym, 12345)))
    # 5. armoured form
    # 6. presentations (non-normalised Unicode and twins, msg_hash forms) and histories (digest after other networks)
    for pc in UNI.prop_cases(rng, tier, usable_networks):
        yield pc
    for pc in ARM.prop_cases(rng, tier, usable_networks, msgs):
        yield pc


def replay_input(check, inp):
    if check == "sign_verify":
        m = inp["msg"] if len(inp["msg"]) == inp["msglen"] else inp["fill"] * inp["msglen"]
        return chk_sign_verify(inp["net"], int(inp["d"]), inp["comp"], m)
    if check == "cross_network":
        return chk_cross_network(inp["a"], inp["b"], int(inp["d"]), inp["msg"])
    if check == "total":
        ks = (inp["key"][0], inp["key"][1])
        return chk_total(inp["net"], ks, inp["text"], inp["msg"], None if inp["z"] is None else int(inp["z"]))
    if check == "recover_sound":
        return chk_recover_sound(inp["net"], inp["first"], int(inp["r"]), int(inp["s"]), int(inp["z"]))
    if check == "address_kind":
        return chk_address_kind(inp["net"], int(inp["d"]))
    if check == "recover_formula":
        return chk_recover_formula(inp["net"], int(inp["x"]), inp["parity"], int(inp["s"]), int(inp["z"]), inp["comp"])
    if check == "total_bytes":
        return chk_total_bytes(inp["net"], inp["hex"], int(inp["z"]))
    if check == "wild":
        return chk_wild(inp["i"])
    if check == "digest_spec":
        m = inp["msg"] if len(inp["msg"]) == inp["msglen"] else inp["fill"] * inp["msglen"]
        return chk_digest_spec(inp["net"], m)
    if check == "first_byte":
        return chk_first_byte(inp["net"], int(inp["d"]), inp["first"])
    if check == "toy":
        return chk_toy(inp["curve"], int(inp["d"]), int(inp["z"]), inp["comp"])
    r = ARM.replay_input(check, inp, net)
    if r is not NotImplemented:
        return r
    r = UNI.replay_input(check, inp, net)
    if r is not NotImplemented:
        return r
    return {"kind": "unknown-check"}


def classify(pc, r):
    return ARM.classify(pc, r)


KNOWN_REPLAYS = {}
KNOWN_REPLAYS.update(ARM.KNOWN_REPLAYS)


def search(rng, tier, disagreements, known_ids):
    """after a proof/correspondence break: look for an input on which the property itself fails"""
    cands = []
    # neighbourhood of the disagreeing cases: replay their signature texts / hashes on the real networks
    for dgr in disagreements[:40]:
        toks = dgr["case"].split(" ")
        fn = toks[0]
        try:
            if fn in ("b64dec", "decode"):
                t = bytes.fromhex(toks[1][1:]).decode("utf8")
                for m, z in (("m", None), (None, 5)):
                    cands.append(PropCase("total", {"net": "BTC", "key": ["key", 77], "text": t, "msg": m, "z": None if z is None else str(z)},
                                          (lambda t=t, m=m, z=z: chk_total("BTC", ("key", 77), t, m, z))))
            elif fn in ("recover", "verify"):
                t = [x for x in toks if x.startswith("x")][0]
                t = bytes.fromhex(t[1:]).decode("utf8")
                raw = binascii.a2b_base64(t)
                if len(raw) == 65:
                    r, s = int.from_bytes(raw[1:33], "big"), int.from_bytes(raw[33:], "big")
                    g = net("BTC").generator
                    for rr in (r, r + g.order(), r % g.order()):
                        for first in range(27, 35):
                            cands.append(PropCase("recover_sound", {"net": "BTC", "first": first, "r": str(rr), "s": str(s), "z": "77"},
                                                  (lambda first=first, rr=rr, s=s: chk_recover_sound("BTC", first, rr, s, 77))))
                cands.append(PropCase("total", {"net": "BTC", "key": ["key", 77], "text": t, "msg": "m", "z": None},
                                      (lambda t=t: chk_total("BTC", ("key", 77), t, "m", None))))
            elif fn in ("sign", "signrs", "signmsg", "hash", "magic", "mul"):
                for sym in ("BTC", "LTC"):
                    for comp in (True, False):
                        cands.append(PropCase("sign_verify", {"net": sym, "d": "4242", "comp": comp, "msg": "search", "msglen": 6, "fill": "s"},
                                              (lambda sym=sym, comp=comp: chk_sign_verify(sym, 4242, comp, "search"))))
        except Exception:
            pass
    cands += UNI.search_cands(disagreements, net, usable_networks)
    cands += ARM.search_cands(disagreements, net)
    cands += list(prop_cases(rng, tier))
    for pc in cands:
        try:
            r = pc.thunk()
        except Exception as e:
            r = {"kind": "raises", "detail": "%s: %s" % (type(e).__name__, e)}
        if r is not None and classify(pc, r) not in known_ids:
            return {"check": pc.name, "input": pc.inp, "failure": r}
    return None
