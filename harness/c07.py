"""C07 — transactions round-trip through the wire format and have stable ids; spendable forms; unspents extension."""
from common import *
import io, hashlib, struct
from pycoin.coins.bitcoin.Tx import Tx
from pycoin.coins.bitcoin.TxIn import TxIn
from pycoin.coins.bitcoin.TxOut import TxOut
from pycoin.coins.bitcoin.Spendable import Spendable
from pycoin.coins.litecoin import LTCTx
from pycoin.coins.groestlcoin.Tx import Tx as GrsTx
from pycoin.satoshi.satoshi_int import parse_satoshi_int, stream_satoshi_int
from pycoin.satoshi.satoshi_string import parse_satoshi_string, stream_satoshi_string
from pycoin.satoshi.satoshi_streamer import SATOSHI_STREAMER
from pycoin.encoding.hexbytes import h2b, b2h, h2b_rev

PROP = "C07"
DRIVER = "C07"
INTERACTIVE = True     # the hash of Tx.hash / w_hash is an oracle answered from hashlib
RULE = ("correspondence: one driver line per call or per HISTORY of calls on one object (history, parse_tx, parse_tx_ltc, from_bin, from_hex, as_bin, as_hex, hash, w_hash, "
        "blanked_hash, id, w_id, txin/txout parse+stream, spendable bin/dict/text, satoshi int/string, parse_struct, "
        "stream_struct, h2b, b2h ...); distinct = distinct line; non-trivial = the model returns a value, not an exception")
PARTIAL = [
    "Spendable.as_text/from_text: modelled at field level (the '/'-separated parts; str(int) / int(str) and split/join are "
    "Python's); the text round trip itself is a direct check on the implementation only",
    "as_hex/from_hex: theorem over the model's b2h/h2b (binascii semantics tied by correspondence)",
]
TRUSTED = ["struct.pack/unpack '<L' '<Q' '!H' '?' as fixed-width codecs (probed live by harness/gens/codecs_c07.py)",
           "mutability is modelled by Model/TxObject.v (histories of observers and mutators on one object); aliasing (the same TxIn "
           "object twice in txs_in) is not; presentations of the field values as other Python types (bytearray, memoryview, int "
           "subclasses ...) exist only on the implementation side (direct check `presentation`)"]

U32 = (1 << 32) - 1
U64 = (1 << 64) - 1


# ------------------------------------------------------------------------------------------------
# descriptions <-> objects.  tx desc = (version, [(hash, index, script, sequence, [witness items])], [(value, script)], lock_time)
def mk_tx(d, cls=Tx):
    ver, ins, outs, lock = d
    tins = []
    for (h, i, s, q, w) in ins:
        t = cls.TxIn(h, i, s, q)
        t.witness = list(w)
        tins.append(t)
    return cls(ver, tins, [cls.TxOut(v, s) for (v, s) in outs], lock)


def tx_tuple(tx):
    return (tx.version,
            [(bytes(i.previous_hash), i.previous_index, bytes(i.script), i.sequence, [bytes(w) for w in i.witness]) for i in tx.txs_in],
            [(o.coin_value, bytes(o.script)) for o in tx.txs_out], tx.lock_time)


def unspents_tuple(us):
    return [None if u is None else (u.coin_value, bytes(u.script)) for u in us]


def a_txin(t):
    h, i, s, q, w = t
    return "%s:%s:%s:%s:%s" % (canon(h), canon(i), canon(s), canon(q), "N" if not w else ";".join(canon(x) for x in w))


def a_txout(o):
    return "%s:%s" % (canon(o[0]), canon(o[1]))


def a_tx(d):
    ver, ins, outs, lock = d
    return "%s [%s] [%s] %s" % (canon(ver), ",".join(a_txin(i) for i in ins), ",".join(a_txout(o) for o in outs), canon(lock))


def a_unspents(us):
    return "[" + ",".join("N" if u is None else a_txout(u) for u in us) + "]"


def a_sp(sp):
    return ":".join(canon(x) for x in sp)


def d2j(d):
    ver, ins, outs, lock = d
    return {"version": ver, "lock_time": lock,
            "ins": [[h.hex(), i, s.hex() if len(s) < 200 else ["rep", s[:1].hex(), len(s)], q,
                     [x.hex() if len(x) < 200 else ["rep", x[:1].hex(), len(x)] for x in w]] for (h, i, s, q, w) in ins],
            "outs": [[v, s.hex() if len(s) < 200 else ["rep", s[:1].hex(), len(s)]] for (v, s) in outs]}


def _unrep(x):
    if isinstance(x, list):
        return bytes.fromhex(x[1]) * x[2]
    return bytes.fromhex(x)


def j2d(j):
    return (j["version"], [(bytes.fromhex(h), i, _unrep(s), q, [_unrep(x) for x in w]) for (h, i, s, q, w) in j["ins"]],
            [(v, _unrep(s)) for (v, s) in j["outs"]], j["lock_time"])


# ------------------------------------------------------------------------------------------------
# an independent serialiser (BIP144 / legacy), used by the direct checks
def cs(n):
    if n < 0xfd:
        return bytes([n])
    if n <= 0xffff:
        return b"\xfd" + n.to_bytes(2, "little")
    if n <= 0xffffffff:
        return b"\xfe" + n.to_bytes(4, "little")
    return b"\xff" + n.to_bytes(8, "little")


def spec_ser(d, witness=True):
    ver, ins, outs, lock = d
    ext = witness and any(len(w) > 0 for (_, _, _, _, w) in ins)
    b = ver.to_bytes(4, "little")
    if ext:
        b += b"\x00\x01"
    b += cs(len(ins))
    for (h, i, s, q, w) in ins:
        b += h + i.to_bytes(4, "little") + cs(len(s)) + s + q.to_bytes(4, "little")
    b += cs(len(outs))
    for (v, s) in outs:
        b += v.to_bytes(8, "little") + cs(len(s)) + s
    if ext:
        for (_, _, _, _, w) in ins:
            b += cs(len(w))
            for x in w:
                b += cs(len(x)) + x
    return b + lock.to_bytes(4, "little")


def dsha(b):
    return hashlib.sha256(hashlib.sha256(b).digest()).digest()


# ------------------------------------------------------------------------------------------------
# generators
AMOUNTS = [0, 1, (1 << 63) - 1, 1 << 63, U64, 21 * 10**14, 5000000000]
BOUND_LENS = [0, 1, 2, 0xfb, 0xfc, 0xfd, 0xfe, 0xff, 0x100, 0xfffe, 0xffff, 0x10000, 0x10001]


def blob(rng, n):
    if n <= 64:
        return bytes(rng.getrandbits(8) for _ in range(n))
    return bytes([rng.getrandbits(8)]) * n      # long blobs are constant (cheap), their length is what matters


def g_len(rng, big_ok):
    r = rng.random()
    if r < 0.55:
        return rng.randint(0, 40)
    if r < 0.8:
        return rng.choice([0xfb, 0xfc, 0xfd, 0xfe, 0xff, 0x100, 107, 520])
    if big_ok and r < 0.9:
        return rng.choice(BOUND_LENS)
    return rng.randint(0, 300)


def g_u32(rng):
    return rng.choice([0, 1, 2, U32, U32 - 1, 0x80000000, 0x7fffffff, rng.getrandbits(32), rng.getrandbits(8)])


def g_amount(rng):
    return rng.choice(AMOUNTS + [rng.getrandbits(64), rng.getrandbits(40), rng.getrandbits(16)])


def g_witness(rng, big_ok, mode):
    if mode == "none" or (mode == "mixed" and rng.random() < 0.5):
        return []
    n = rng.choice([1, 1, 2, 2, 3, 5])
    return [blob(rng, rng.choice([0, 0, 1, 32, 33, 71, 72, 73, g_len(rng, big_ok)])) for _ in range(n)]


def g_tx(rng, n_in=None, n_out=None, big_ok=False, wmode=None):
    if n_in is None:
        n_in = rng.choice([1, 1, 1, 2, 2, 3, 5, 8])
    if n_out is None:
        n_out = rng.choice([0, 1, 1, 2, 2, 3, 6])
    if wmode is None:
        wmode = rng.choice(["none", "mixed", "mixed", "all"])
    ins = []
    for k in range(n_in):
        h = rng.choice([blob(rng, 32), bytes(32), b"\xff" * 32]) if rng.random() < 0.2 else blob(rng, 32)
        ins.append((h, g_u32(rng), blob(rng, g_len(rng, big_ok)), g_u32(rng), g_witness(rng, big_ok, wmode)))
    outs = [(g_amount(rng), blob(rng, g_len(rng, big_ok))) for _ in range(n_out)]
    return (g_u32(rng), ins, outs, g_u32(rng))


def structured_txs(rng, tier):
    """mostly-valid transactions; big ones are few"""
    out = []
    n_small = 260 if tier == "quick" else 6000
    for _ in range(n_small):
        out.append(g_tx(rng))
    # counts across the compact-size boundary
    for n in ([252, 253, 254] if tier == "quick" else [251, 252, 253, 254, 255, 256, 300]):
        out.append(g_tx(rng, n_in=n, n_out=1, wmode="none"))
        out.append(g_tx(rng, n_in=1, n_out=n, wmode="mixed"))
    out.append(g_tx(rng, n_in=300, n_out=300, wmode="mixed"))
    out.append(g_tx(rng, n_in=254, n_out=2, wmode="all"))
    # script / witness item lengths across every boundary
    for L in BOUND_LENS + [70000]:
        h = blob(rng, 32)
        out.append((1, [(h, 0, b"\x6a" * L, U32, [])], [(1, b"\x51")], 0))
        out.append((2, [(h, 1, b"", 0, [b"\x30" * L, b""])], [(U64, b"\x52" * L)], U32))
    # witness stacks with 252/253 items
    for n in (252, 253):
        out.append((2, [(blob(rng, 32), 0, b"", 0, [b"\x01"] * n), (blob(rng, 32), 1, b"ab", 1, [])], [(0, b"")], 0))
    # amounts
    for v in AMOUNTS:
        out.append((1, [(blob(rng, 32), 0, b"\x00", 0, [])], [(v, b"\x76\xa9")], 0))
    if tier == "thorough":
        for _ in range(60):
            out.append(g_tx(rng, n_in=rng.randint(1, 300), n_out=rng.randint(0, 300)))
        for _ in range(40):
            out.append(g_tx(rng, big_ok=True))
        for _ in range(8):
            L = rng.randint(60000, 70000)
            out.append((1, [(blob(rng, 32), 0, blob(rng, L), 0, [blob(rng, rng.randint(0, 70000))])], [(1, blob(rng, L))], 0))
    return out


def out_of_range_txs(rng):
    h = bytes(range(32))
    base_in = (h, 0, b"ab", U32, [])
    res = []
    for ver in (-1, U32 + 1, 1 << 64):
        res.append((ver, [base_in], [(1, b"")], 0))
    for lock in (-1, U32 + 1):
        res.append((1, [base_in], [(1, b"")], lock))
    for idx in (-1, U32 + 1):
        res.append((1, [(h, idx, b"", 0, [])], [(1, b"")], 0))
    for seq in (-1, U32 + 1):
        res.append((1, [(h, 0, b"", seq, [])], [(1, b"")], 0))
    for v in (-1, U64 + 1, -(1 << 70)):
        res.append((1, [base_in], [(v, b"")], 0))
    for hl in (0, 1, 31, 33, 64):
        res.append((1, [(bytes(range(hl)), 0, b"", 0, [])], [(1, b"")], 0))
        res.append((1, [(bytes(range(hl)), 0, b"", 0, [b"w"])], [(1, b"")], 0))
    res.append((1, [], [], 0))
    res.append((1, [], [(5, b"x")], 0))
    res.append((1, [base_in, (h, -1, b"", 0, [b"x"])], [(1, b"")], 0))
    return res


def malformed_streams(rng, tier):
    """byte strings for parse_tx / from_bin: truncations at every offset, non-canonical sizes, flag bytes, mutations"""
    res = []
    h1, h2 = bytes(range(32)), bytes(range(32, 64))
    small = [
        (1, [(h1, 0, b"abc", U32, [])], [(5, b"xy")], 0),
        (2, [(h1, 1, b"", 0, [b"", b"sig"]), (h2, 2, b"q", 7, [])], [(0, b""), (U64, b"\x51")], 9),
        (1, [(h1, 0, b"", 0, [b"w"])], [], 0),
        (1, [], [(5, b"z")], 0),
        (1, [], [], 0),
    ]
    blobs = []
    for d in small:
        b = spec_ser(d)
        blobs.append(b)
        for n in range(len(b) + 1):
            res.append(b[:n])
        # with an unspents tail
        tail = b"".join(v.to_bytes(8, "little") + cs(len(s)) + s for (v, s) in [(7, b"pk"), (0, b""), (9, b"\x51" * 3)][:max(1, len(d[1]))])
        full = b + tail
        for n in range(len(b), len(full) + 1):
            res.append(full[:n])
        res.append(full + b"\x00")
        res.append(b + b"\x05\x00\x00\x00\x00\x00\x00\x00\x64ab")      # short final script: silent short read
    # flag bytes: marker 00 followed by every flag value, on three bodies
    body_segwit = cs(1) + h1 + (0).to_bytes(4, "little") + cs(0) + (0).to_bytes(4, "little") + cs(1) + (1).to_bytes(8, "little") + cs(0) \
        + cs(1) + cs(2) + b"hi" + (0).to_bytes(4, "little")
    body_zero_in = (3).to_bytes(8, "little") + cs(1) + b"\x51" + (0).to_bytes(4, "little")
    for fl in range(256):
        res.append((1).to_bytes(4, "little") + b"\x00" + bytes([fl]) + body_segwit)
        res.append((1).to_bytes(4, "little") + b"\x00" + bytes([fl]) + body_zero_in)              # flag is the output count
        res.append((1).to_bytes(4, "little") + b"\x00" + bytes([fl]) + body_segwit[:-4] + b"\x07" + (0).to_bytes(4, "little"))  # MWEB byte
    res.append((1).to_bytes(4, "little") + b"\x00")
    # non-canonical compact sizes in every position
    def nc(n, w):
        return {2: b"\xfd" + n.to_bytes(2, "little"), 4: b"\xfe" + n.to_bytes(4, "little"), 8: b"\xff" + n.to_bytes(8, "little")}[w]
    for w in (2, 4, 8):
        txin = h1 + (0).to_bytes(4, "little") + nc(2, w) + b"ab" + (5).to_bytes(4, "little")
        txout = (1).to_bytes(8, "little") + nc(1, w) + b"\x51"
        res.append((1).to_bytes(4, "little") + nc(1, w) + txin + nc(1, w) + txout + (0).to_bytes(4, "little"))
        res.append((1).to_bytes(4, "little") + b"\x00\x01" + nc(1, w) + txin + nc(1, w) + txout + nc(1, w) + nc(1, w) + b"w" + (0).to_bytes(4, "little"))
        res.append((1).to_bytes(4, "little") + nc(0, w) + nc(0, w) + (0).to_bytes(4, "little"))
    # huge counts / lengths
    # (a declared byte-string length >= 2^63 makes BytesIO.read raise OverflowError)
    for cnt in (b"\xff" + b"\xff" * 8, b"\xff" + (1 << 63).to_bytes(8, "little"), b"\xff" + ((1 << 63) - 1).to_bytes(8, "little"),
                b"\xfe\xff\xff\xff\xff", b"\xfd\xff\xff", b"\xfc"):
        res.append((1).to_bytes(4, "little") + cnt + h1 + (0).to_bytes(4, "little") + b"\x00" + (0).to_bytes(4, "little"))
        res.append((1).to_bytes(4, "little") + b"\x01" + h1 + (0).to_bytes(4, "little") + cnt + b"abc" + (0).to_bytes(4, "little"))
        res.append((1).to_bytes(4, "little") + b"\x00\x01\x01" + h1 + (0).to_bytes(4, "little") + b"\x00" + (0).to_bytes(4, "little") + b"\x00" + cnt + b"\x01a\x00")
    # random single-byte mutations and random garbage
    n_mut = 700 if tier == "quick" else 30000
    for _ in range(n_mut):
        b = bytearray(rng.choice(blobs[:3]))
        for _ in range(rng.choice([1, 1, 2])):
            b[rng.randrange(len(b))] = rng.choice([0, 1, 2, 0xfc, 0xfd, 0xfe, 0xff, rng.getrandbits(8)])
        if rng.random() < 0.3:
            b = b[:rng.randrange(len(b) + 1)]
        res.append(bytes(b))
    for _ in range(200 if tier == "quick" else 5000):
        res.append(bytes(rng.getrandbits(8) for _ in range(rng.randint(0, 60))))
    return res


def g_sp(rng, wild=False):
    big = [0, 1, 252, 253, 0xffff, 0x10000, U32, U32 + 1, U64]
    sp = (g_amount(rng), blob(rng, g_len(rng, False)), blob(rng, 32), g_u32(rng), rng.choice(big + [rng.getrandbits(20)]),
          rng.choice([0, 1]), rng.choice(big + [rng.getrandbits(20)]))
    if wild:
        sp = list(sp)
        k = rng.randrange(7)
        sp[k] = {0: rng.choice([-1, U64 + 1]), 1: blob(rng, 300), 2: blob(rng, rng.choice([0, 31, 33])), 3: rng.choice([-1, U32 + 1]),
                 4: rng.choice([-1, U64 + 1]), 5: rng.choice([2, 5, -1]), 6: rng.choice([-1, U64 + 1])}[k]
        sp = tuple(sp)
    return sp


def mk_sp(sp):
    return Spendable(*sp)


def sp_tuple(s):
    return (s.coin_value, bytes(s.script), bytes(s.tx_hash), s.tx_out_index, s.block_index_available, s.does_seem_spent, s.block_index_spent)


# ------------------------------------------------------------------------------------------------
# implementation thunks (return python values; `call` canonicalises and maps exceptions)
def i_parse(cls, b, allow=None):
    f = io.BytesIO(b)
    t = cls.parse(f) if allow is None else cls.parse(f, allow_segwit=allow)
    return (tx_tuple(t), f.read())


def i_from_bin(b):
    t = Tx.from_bin(b)
    return (tx_tuple(t), unspents_tuple(t.unspents))


def i_from_hex(hs):
    t = Tx.from_hex(hs.decode("utf8"))
    return (tx_tuple(t), unspents_tuple(t.unspents))


def _with_unspents(d, us, cls=Tx):
    t = mk_tx(d, cls)
    t.unspents = [None if u is None else TxOut(u[0], u[1]) for u in us]
    return t


def i_as_bin(d, us, bl, iu, iw):
    return _with_unspents(d, us).as_bin(blank_solutions=bl, include_unspents=iu, include_witness_data=iw)


def i_as_hex(d, us, bl, iu, iw):
    return _with_unspents(d, us).as_hex(blank_solutions=bl, include_unspents=iu, include_witness_data=iw).encode()


HASH_CLASSES = {"dsha256": Tx, "sha256": GrsTx}


def i_sp_from_text(parts):
    text = "/".join(str(p) if isinstance(p, int) else p.decode("ascii") for p in parts)
    return sp_tuple(Spendable.from_text(text))


def i_sp_as_text(sp):
    parts = mk_sp(sp).as_text().split("/")
    return [parts[0].encode(), int(parts[1]), parts[2].encode()] + [int(x) for x in parts[3:]]


def i_sp_as_dict(sp):
    d = mk_sp(sp).as_dict()
    return (d["coin_value"], d["script_hex"].encode(), d["tx_hash_hex"].encode(), d["tx_out_index"],
            d["block_index_available"], d["does_seem_spent"], d["block_index_spent"])


def i_sp_from_dict(v, sh, hh, i, a, d, b):
    dd = {"coin_value": v, "script_hex": sh.decode("utf8"), "tx_hash_hex": hh.decode("utf8"), "tx_out_index": i}
    for k, x in (("block_index_available", a), ("does_seem_spent", d), ("block_index_spent", b)):
        if x is not None:
            dd[k] = x
    return sp_tuple(Spendable.from_dict(dd))


def i_parse_int(v, b):
    f = io.BytesIO(b)
    r = parse_satoshi_int(f, v)
    return (r, f.read())


def i_stream_int(v):
    f = io.BytesIO()
    stream_satoshi_int(f, v)
    return f.getvalue()


def i_parse_str(b):
    f = io.BytesIO(b)
    r = parse_satoshi_string(f)
    return (r, f.read())


def i_stream_str(s):
    f = io.BytesIO()
    stream_satoshi_string(f, s)
    return f.getvalue()


def i_parse_struct(fmt, b):
    f = io.BytesIO(b)
    r = SATOSHI_STREAMER.parse_struct(fmt, f)
    return ([bytes(x) if isinstance(x, bytes) else x for x in r], f.read())


def i_stream_struct(fmt, vals):
    f = io.BytesIO()
    SATOSHI_STREAMER.stream_struct(fmt, f, *vals)
    return f.getvalue()


def i_txin_parse(b):
    f = io.BytesIO(b)
    t = TxIn.parse(f)
    return ((bytes(t.previous_hash), t.previous_index, bytes(t.script), t.sequence, [bytes(w) for w in t.witness]), f.read())


def i_txout_parse(b):
    f = io.BytesIO(b)
    t = TxOut.parse(f)
    return ((t.coin_value, bytes(t.script)), f.read())


def _stream(o, **kw):
    f = io.BytesIO()
    o.stream(f, **kw)
    return f.getvalue()



# ------------------------------------------------------------------------------------------------
# coin classes (family: the same property on every network's Tx class) with the property's own reference hash
def _sha(b):
    return hashlib.sha256(b).digest()


def _net_classes():
    res = {}
    try:
        from pycoin.networks.registry import network_for_netcode
        for code in ("BTC", "XTN", "LTC", "GRS", "BCH", "BTG", "DOGE", "TGRS", "XCH", "XTG"):
            try:
                res[code] = network_for_netcode(code).tx
            except Exception:
                pass
    except Exception:
        pass
    res.setdefault("BTC", Tx)
    res.setdefault("GRS", GrsTx)
    res.setdefault("LTC", LTCTx)
    return res


NET_CLASSES = _net_classes()
# Groestlcoin ids are a single SHA-256, everything else double SHA-256 (not read from /repo)
REF_HASH = {code: (_sha if code in ("GRS", "TGRS", "GRSRT") else dsha) for code in NET_CLASSES}
HNAME = {code: ("sha256" if code in ("GRS", "TGRS", "GRSRT") else "dsha256") for code in NET_CLASSES}


# ------------------------------------------------------------------------------------------------
# histories of ONE object: observers and mutators (Model/TxObject.v).  An op is a tuple, its first element the tag.
def flags_tok(bl, iu, iw):
    return "".join("T" if x else "F" for x in (bl, iu, iw))


def op_token(op):
    k = op[0]
    if k in ("mw", "aw", "iw"):
        return "%s/%s/%s" % (k, canon(op[1]), "N" if not op[2] else ";".join(canon(x) for x in op[2]))
    if k in ("as", "ah", "os"):
        return "%s/%s/%s" % (k, canon(op[1]), canon(op[2]))
    if k in ("ai", "aq", "ov"):
        return "%s/%s/%s" % (k, canon(op[1]), canon(op[2]))
    if k == "pi":
        return "pi/" + a_txin(op[1])
    if k == "po":
        return "po/" + a_txout(op[1])
    if k in ("av", "al"):
        return "%s/%s" % (k, canon(op[1]))
    if k in ("su", "au"):
        return "%s/%s" % (k, a_unspents(op[1]))
    if k in ("ob", "ox"):
        return "%s/%s" % (k, flags_tok(*op[1]))
    if k == "oh":
        return "oh/" + canon(op[1])
    if k == "ck":
        return "ck/%s/%s" % (canon(op[1]), canon(op[2]))
    return k          # xi ci xo co ow ok oi oj on oc om


def is_observer(op):
    return op[0] in ("ob", "ox", "oh", "ow", "ok", "oi", "oj", "on", "oc", "om", "ck")


def apply_op(t, op):
    """apply one op to the live object; returns the observation (None for a mutator)"""
    k = op[0]
    cls = type(t)
    if k == "mw":
        t.set_witness(op[1], list(op[2]))
    elif k == "aw":
        t.txs_in[op[1]].witness = list(op[2])
    elif k == "iw":                      # in place: the list object stored in the TxIn is extended
        w = t.txs_in[op[1]].witness
        if isinstance(w, tuple):         # set_witness stores a tuple: += rebinds, which is the same observable change
            t.txs_in[op[1]].witness = w + tuple(op[2])
        else:
            w.extend(list(op[2]))
    elif k == "as":
        t.txs_in[op[1]].script = op[2]
    elif k == "ah":
        t.txs_in[op[1]].previous_hash = op[2]
    elif k == "ai":
        t.txs_in[op[1]].previous_index = op[2]
    elif k == "aq":
        t.txs_in[op[1]].sequence = op[2]
    elif k == "pi":
        h, i, sc, q, w = op[1]
        x = cls.TxIn(h, i, sc, q)
        x.witness = list(w)
        t.txs_in.append(x)
    elif k == "xi":
        t.txs_in.pop()
    elif k == "ci":
        t.txs_in.clear()
    elif k == "po":
        t.txs_out.append(cls.TxOut(op[1][0], op[1][1]))
    elif k == "xo":
        t.txs_out.pop()
    elif k == "co":
        t.txs_out.clear()
    elif k == "ov":
        t.txs_out[op[1]].coin_value = op[2]
    elif k == "os":
        t.txs_out[op[1]].script = op[2]
    elif k == "av":
        t.version = op[1]
    elif k == "al":
        t.lock_time = op[1]
    elif k == "su":
        t.set_unspents([None if u is None else cls.TxOut(u[0], u[1]) for u in op[1]])
    elif k == "au":
        t.unspents = [None if u is None else cls.TxOut(u[0], u[1]) for u in op[1]]
    elif k == "ob":
        return t.as_bin(blank_solutions=op[1][0], include_unspents=op[1][1], include_witness_data=op[1][2])
    elif k == "ox":
        return t.as_hex(blank_solutions=op[1][0], include_unspents=op[1][1], include_witness_data=op[1][2]).encode()
    elif k == "oh":
        return bytes(t.hash(hash_type=op[1]))
    elif k == "ow":
        return bytes(t.w_hash())
    elif k == "ok":
        return bytes(t.blanked_hash())
    elif k == "oi":
        return t.id().encode()
    elif k == "oj":
        return t.w_id().encode()
    elif k == "on":
        return t.has_witness_data()
    elif k == "oc":
        return t.is_coinbase()
    elif k == "om":
        return t.missing_unspents()
    elif k == "ck":
        return t.check()
    else:
        raise KeyError(k)
    return None


def fresh_like(t):
    """a NEW object of the same class with the same current field values (the independent reference of the history checks)"""
    cls = type(t)
    t2 = mk_tx(tx_tuple(t), cls)
    t2.unspents = [None if u is None else cls.TxOut(u.coin_value, bytes(u.script)) for u in t.unspents]
    return t2


def hist_impl(d, us, ops, cls):
    t = mk_tx(d, cls)
    t.unspents = [None if u is None else cls.TxOut(u[0], u[1]) for u in us]
    out = []
    for op in ops:
        out.append(call(apply_op, t, op))
    return "[" + " ".join(out) + "]"


def hist_line(hname, d, us, ops):
    return "history %s %s %s %s" % (hname, a_tx(d), a_unspents(us), " ".join(op_token(o) for o in ops))


BATTERY = [("ob", (False, False, True)), ("ob", (False, False, False)), ("ob", (True, False, True)), ("ob", (False, True, True)),
           ("ox", (False, False, True)), ("oh", None), ("oh", 1), ("ow",), ("ok",), ("oi",), ("oj",), ("on",), ("oc",), ("om",)]


def _obs(t, op):
    try:
        return ("ok", apply_op(t, op))
    except Exception as e:
        return ("raise", exn_tag(e))


def chk_history(d, us, ops, code="BTC", battery=None):
    """apply the history to one object; after construction and after every operation compare EVERY observer on the
    long-lived object with the same observer on a freshly built object with the same current fields, and the
    serialisation / ids with the independent serialiser"""
    cls = NET_CLASSES[code]
    Hf = REF_HASH[code]
    t = mk_tx(d, cls)
    t.unspents = [None if u is None else cls.TxOut(u[0], u[1]) for u in us]
    battery = battery or BATTERY
    steps = [None] + list(ops)
    for n, op in enumerate(steps):
        if op is not None:
            try:
                apply_op(t, op)
            except Exception:
                pass
        for ob in battery:
            live = _obs(t, ob)
            ref = _obs(fresh_like(t), ob)
            if live != ref:
                return {"kind": "history-dependent-observation", "after_op": n, "op": None if op is None else op_token(op)[:80],
                        "observer": op_token(ob), "live": str(live)[:160], "fresh": str(ref)[:160]}
        cur = tx_tuple(t)
        if valid_tx(cur):
            exp = spec_ser(cur)
            if _obs(t, ("ob", (False, False, True))) != ("ok", exp):
                return {"kind": "history-not-wire-format-of-current-fields", "after_op": n, "op": None if op is None else op_token(op)[:80]}
            leg = spec_ser(cur, False)
            if _obs(t, ("oh", None)) != ("ok", Hf(leg)) or _obs(t, ("ow",)) != ("ok", Hf(exp)):
                return {"kind": "history-ids-not-of-current-fields", "after_op": n, "op": None if op is None else op_token(op)[:80]}
    return None


def g_mutators(rng, d):
    """one instance of every mutator, with parameters that make sense for d (and some that do not: index out of range)"""
    n_in, n_out = len(d[1]), len(d[2])
    i = rng.randrange(n_in) if n_in else 0
    o = rng.randrange(n_out) if n_out else 0
    wit = rng.choice([[b"\x30" * 71, b"\x02" * 33], [b""], [b"", b"x"]])
    new_in = (blob(rng, 32), rng.randrange(4), b"", U32, rng.choice([[], [b"\x01"], [b""]]))
    ms = [("mw", i, wit), ("mw", i, []), ("aw", i, wit), ("aw", i, []), ("aw", n_in, wit), ("mw", n_in + 1, wit),
          ("iw", i, wit), ("iw", i, [b"\x01"]), ("iw", n_in, wit),
          ("as", i, blob(rng, rng.choice([0, 1, 107, 253]))), ("ah", i, blob(rng, 32)), ("ah", i, bytes(32)), ("ai", i, rng.choice([0, 5, U32])),
          ("aq", i, rng.choice([0, U32 - 1])), ("pi", new_in), ("pi", (blob(rng, 32), 1, b"s", 0, [b"w"])), ("xi",), ("ci",),
          ("po", (rng.choice([0, 1, 5000]), b"\x51")), ("xo",), ("co",), ("ov", o, rng.choice([0, 7, U64])), ("os", o, blob(rng, rng.choice([0, 25, 253]))),
          ("av", rng.choice([2, U32])), ("al", rng.choice([0, 500000000])), ("su", [(5, b"\x51")] * n_in), ("su", [(5, b"\x51")] * (n_in + 1)),
          ("au", [None] * n_in), ("au", [])]
    return ms


def base_history_txs(rng):
    h1, h2 = blob(rng, 32), blob(rng, 32)
    return [
        (1, [(h1, 0, b"", U32, []), (h2, 1, b"\x51", U32, [])], [(5000, b"\x00\x14" + b"\x44" * 20)], 0),               # legacy, 2 inputs
        (2, [(h1, 0, b"", 0, [b"", b"\x03" * 33]), (h2, 1, b"q", 7, [])], [(0, b""), (U64, b"\x51")], 9),                 # extended
        (1, [(bytes(32), U32, b"\x51\x51", 0, [])], [(50 * 10**8, b"\x51")], 0),                                         # coinbase
        (1, [(h1, 3, b"\x00" * 252, 1, [b"\x01"] * 3)], [], 0),
    ]


def history_cases(rng, tier):
    """(d, unspents, ops, code): observer x mutator x observer on every base transaction, then random longer histories"""
    res = []
    bases = base_history_txs(rng)
    observers = BATTERY
    for bi, d in enumerate(bases):
        for m in g_mutators(rng, d):
            obs = observers if tier == "thorough" else [observers[(bi + k) % len(observers)] for k in range(0, len(observers), 3)]
            for ob in obs:
                res.append((d, [], [ob, m, ob], "BTC"))
            res.append((d, [(7, b"\x51")] * len(d[1]), [("ob", (False, True, True)), ("om",), m, ("ob", (False, True, True)), ("om",)], "BTC"))
    for _ in range(150 if tier == "quick" else 6000):
        d = rng.choice(bases + [g_tx(rng, n_in=rng.choice([1, 2, 3]), n_out=rng.choice([0, 1, 2]))])
        ops = []
        cur = d
        for _ in range(rng.randint(2, 9)):
            if rng.random() < 0.5:
                ops.append(rng.choice(observers))
            else:
                ops.append(rng.choice(g_mutators(rng, cur)))
        ops.append(rng.choice(observers))
        res.append((d, rng.choice([[], [(3, b"a")] * len(d[1])]), ops, rng.choice(["BTC", "BTC", "GRS", "LTC"])))
    return res


def direct_history_cases(rng, tier):
    """histories for the direct check: [battery] m [battery] for every mutator, pairs of mutators, random ones; every class"""
    res = []
    bases = base_history_txs(rng)
    codes = sorted(NET_CLASSES)
    for bi, d in enumerate(bases):
        ms = g_mutators(rng, d)
        for k, m in enumerate(ms):
            res.append((d, [(7, b"\x51")] * len(d[1]) if k % 2 else [], [m], codes[(bi + k) % len(codes)] if k % 3 == 0 else "BTC"))
        for _ in range(20 if tier == "quick" else 400):
            res.append((d, [], [rng.choice(ms) for _ in range(rng.randint(2, 5))], rng.choice(codes)))
    for _ in range(40 if tier == "quick" else 3000):
        d = g_tx(rng, n_in=rng.choice([1, 2, 3]), n_out=rng.choice([0, 1, 2]))
        ops = [rng.choice(g_mutators(rng, d)) for _ in range(rng.randint(1, 6))]
        res.append((d, [], ops, rng.choice(codes)))
    return res


# ---- worlds: several live objects, operations interleaved (Model/TxObject.v World, Props/C07 C07_world_projection) ----
def mk_world_obj(d, how, cls):
    """objects as programs make them: parsed from bytes, or built from default-constructed TxIn objects (no witness argument,
    no witness assignment) — the model's object has the same fields either way"""
    if how == "parse" and valid_tx(d) and len(d[1]) > 0:
        return cls.from_bin(spec_ser(d))
    ver, ins, outs, lock = d
    tins = []
    for (h, i, sc, q, w) in ins:
        x = cls.TxIn(h, i, sc, q)
        if w:
            x.witness = list(w)
        tins.append(x)
    return cls(ver, tins, [cls.TxOut(v, sc) for (v, sc) in outs], lock)


def world_impl(ds, hows, wops, k, cls):
    """run the interleaved operations on live objects; return object k's trace in the format of hist_impl"""
    objs = [mk_world_obj(d, how, cls) for d, how in zip(ds, hows)]
    for o in objs:
        o.unspents = []
    out = []
    for (j, op) in wops:
        r = call(apply_op, objs[j], op)
        if j == k:
            out.append(r)
    return "[" + " ".join(out) + "]"


def world_cases(rng, tier):
    """(ds, hows, wops): 2..3 transactions, interleaved mutators (mostly witness edits in place) and observers"""
    res = []
    bases = base_history_txs(rng)
    legacy = [d for d in bases if not any(i[4] for i in d[1])]
    for _ in range(60 if tier == "quick" else 2500):
        n = rng.choice([2, 2, 3])
        ds = [rng.choice(legacy + [g_tx(rng, n_in=rng.choice([1, 2]), n_out=rng.choice([1, 2]), wmode=rng.choice(["none", "none", None]))])
              for _ in range(n)]
        hows = [rng.choice(["parse", "ctor"]) for _ in range(n)]
        wops = []
        for _ in range(rng.randint(3, 10)):
            j = rng.randrange(n)
            r = rng.random()
            if r < 0.45:
                ni = len(ds[j][1])
                wit = rng.choice([[b"\x30" * 71, b"\x02" * 33], [b""], [b"x"]])
                wops.append((j, rng.choice([("iw", rng.randrange(max(1, ni)), wit), ("iw", 0, wit), ("aw", 0, wit), ("mw", 0, wit)])))
            elif r < 0.6:
                wops.append((j, rng.choice(g_mutators(rng, ds[j]))))
            else:
                wops.append((j, rng.choice(BATTERY)))
        for j in range(n):
            wops.append((j, ("on",)))
            wops.append((j, ("ob", (False, False, True))))
            wops.append((j, ("oj",)))
        res.append((ds, hows, wops))
    return res


def ops2j(ops):
    def enc(x):
        if isinstance(x, (bytes, bytearray)):
            return {"b": bytes(x).hex()}
        if isinstance(x, (list, tuple)):
            return [enc(y) for y in x]
        return x
    return [enc(list(o)) for o in ops]


def j2ops(j):
    def dec(x, top=False):
        if isinstance(x, dict):
            return bytes.fromhex(x["b"])
        if isinstance(x, list):
            return [dec(y) for y in x]
        return x

    def fix(o):
        o = dec(o)
        k = o[0]
        if k in ("ob", "ox"):
            return (k, tuple(o[1]))
        if k in ("pi",):
            return (k, (o[1][0], o[1][1], o[1][2], o[1][3], list(o[1][4])))
        if k == "po":
            return (k, tuple(o[1]))
        if k in ("su", "au"):
            return (k, [None if u is None else tuple(u) for u in o[1]])
        return tuple(o)
    return [fix(o) for o in j]


# ------------------------------------------------------------------------------------------------
# presentations: the same field values handed over as other legal Python types
class _MyInt(int):
    pass


PRESENTATIONS = ["bytearray-in-script", "memoryview-in-script", "bytearray-hash", "memoryview-hash", "tuple-witness", "bytearray-witness-items",
                 "memoryview-witness-items", "int-subclass", "bool-version", "float-value", "str-value", "bytearray-out-script",
                 "memoryview-out-script", "witness-via-set_witness"]


def mk_presented(d, kind, cls=Tx):
    ver, ins, outs, lock = d
    I = _MyInt if kind == "int-subclass" else (lambda x: x)
    tins = []
    for (h, i, s, q, w) in ins:
        if kind == "bytearray-in-script":
            s = bytearray(s)
        elif kind == "memoryview-in-script":
            s = memoryview(s)
        if kind == "bytearray-hash":
            h = bytearray(h)
        elif kind == "memoryview-hash":
            h = memoryview(h)
        t = cls.TxIn(h, I(i), s, I(q))
        if kind == "tuple-witness":
            t.witness = tuple(w)
        elif kind == "bytearray-witness-items":
            t.witness = [bytearray(x) for x in w]
        elif kind == "memoryview-witness-items":
            t.witness = [memoryview(x) for x in w]
        else:
            t.witness = list(w)
        tins.append(t)
    touts = []
    for (v, s) in outs:
        if kind == "bytearray-out-script":
            s = bytearray(s)
        elif kind == "memoryview-out-script":
            s = memoryview(s)
        if kind == "float-value" and v < 2**53:
            v = float(v)
        elif kind == "str-value":
            v = str(v)
        touts.append(cls.TxOut(I(v) if kind == "int-subclass" else v, s))
    if kind == "bool-version":
        ver = True if ver == 1 else ver
    tx = cls(I(ver) if kind == "int-subclass" else ver, tins, touts, I(lock) if kind == "int-subclass" else lock)
    if kind == "witness-via-set_witness":
        for k, (_, _, _, _, w) in enumerate(ins):
            tx.txs_in[k].witness = []
            tx.set_witness(k, list(w))
    return tx


REFUSALS = ("E_ASSERT", "E_TYPE", "E_STRUCT")


def chk_presentation(d, kind, code="BTC"):
    """presentation independence: same bytes and ids as the plain bytes/int presentation, or a refusal (AssertionError /
    TypeError / struct.error) - never different bytes"""
    cls = NET_CLASSES[code]
    ref = mk_tx(d, cls)
    want = (ref.as_bin(), ref.as_bin(include_witness_data=False), ref.id(), ref.w_id())
    try:
        tx = mk_presented(d, kind, cls)
        got = (tx.as_bin(), tx.as_bin(include_witness_data=False), tx.id(), tx.w_id())
    except Exception as e:
        if exn_tag(e) in REFUSALS:
            return None
        return {"kind": "presentation-raises-other", "presentation": kind, "detail": "%s: %s" % (type(e).__name__, e)}
    if got != want:
        return {"kind": "presentation-dependent-serialisation", "presentation": kind, "got": got[0][:60].hex(), "want": want[0][:60].hex()}
    t2 = cls.from_bin(got[0])
    if tx_tuple(t2) != tx_tuple(ref):
        return {"kind": "presentation-roundtrip", "presentation": kind}
    return None


def chk_class_order(d, codes):
    """module-level state: the ids of the same description under several coin classes do not depend on the order in which
    the classes are used"""
    def ids(code):
        t = mk_tx(d, NET_CLASSES[code])
        return (bytes(t.hash()), bytes(t.w_hash()), t.as_bin())
    first = {c: ids(c) for c in codes}
    second = {c: ids(c) for c in reversed(codes)}
    third = {c: ids(c) for c in codes}
    for c in codes:
        if not (first[c] == second[c] == third[c]):
            return {"kind": "class-order-dependent", "class": c}
        exp = spec_ser(d)
        if first[c] != (REF_HASH[c](spec_ser(d, False)), REF_HASH[c](exp), exp):
            return {"kind": "ids-not-reference-hash", "class": c}
    return None

# ------------------------------------------------------------------------------------------------
def model_cases(rng, tier):
    txs = structured_txs(rng, tier)
    big = lambda d: sum(len(i[2]) + sum(len(x) for x in i[4]) for i in d[1]) + sum(len(o[1]) for o in d[2]) > 20000 or len(d[1]) + len(d[2]) > 200
    for k, d in enumerate(txs):
        isbig = big(d)
        a = a_tx(d)
        # serialisation, every flag combination on small ones
        combos = [(False, False, True), (False, False, False), (True, False, True)] if not isbig else [(False, False, True)]
        for (bl, iu, iw) in combos:
            yield Case("as_bin %s %s %s %s []" % (arg(bl), arg(iu), arg(iw), a), (lambda d=d, bl=bl, iu=iu, iw=iw: call(i_as_bin, d, [], bl, iu, iw)))
        wire = spec_ser(d)
        suffix = rng.choice([b"", b"", b"\xee", b"\x00" * 5])
        yield Case("parse_tx T %s" % arg(wire + suffix), (lambda b=wire + suffix: call(i_parse, Tx, b)))
        if isbig:
            continue
        yield Case("parse_tx F %s" % arg(wire), (lambda b=wire: call(i_parse, Tx, b, False)))
        yield Case("parse_tx T %s" % arg(spec_ser(d, False)), (lambda b=spec_ser(d, False): call(i_parse, Tx, b)))
        yield Case("parse_tx_ltc %s" % arg(wire + suffix), (lambda b=wire + suffix: call(i_parse, LTCTx, b)))
        yield Case("from_bin %s" % arg(wire), (lambda b=wire: call(i_from_bin, b)))
        # unspents extension
        n = len(d[1])
        us_kinds = [[(rng.choice([1, 5, U64, rng.getrandbits(30) + 1]), blob(rng, rng.choice([0, 1, 25, 253]))) for _ in range(n)]]
        if k % 3 == 0:
            us_kinds.append([rng.choice([None, (0, b""), (0, b"x"), (7, b"s")]) for _ in range(n)])
            us_kinds.append([(3, b"a")] * max(0, n - 1))
            us_kinds.append([(3, b"a")] * (n + 1))
        for us in us_kinds:
            yield Case("as_bin F T T %s %s" % (a, a_unspents(us)), (lambda d=d, us=us: call(i_as_bin, d, us, False, True, True)))
            yield Case("missing_unspents %s %s" % (a, a_unspents(us)), (lambda d=d, us=us: call(lambda: _with_unspents(d, us).missing_unspents())))
            try:
                full = i_as_bin(d, us, False, True, True)
            except Exception:
                continue
            yield Case("from_bin %s" % arg(full), (lambda b=full: call(i_from_bin, b)))
        if k % 4 == 0:
            hx = wire.hex()
            if rng.random() < 0.3:
                hx = hx.upper()
            yield Case("from_hex %s" % arg(hx.encode()), (lambda hx=hx: call(i_from_hex, hx.encode())))
            yield Case("as_hex F F T %s []" % a, (lambda d=d: call(i_as_hex, d, [], False, False, True)))
        # ids
        for hname, cls in (("dsha256", Tx),) + ((("sha256", GrsTx),) if k % 5 == 0 else ()):
            yield Case("hash %s %s N" % (hname, a), (lambda d=d, cls=cls: call(lambda: bytes(mk_tx(d, cls).hash()))))
            yield Case("w_hash %s %s" % (hname, a), (lambda d=d, cls=cls: call(lambda: bytes(mk_tx(d, cls).w_hash()))))
            if k % 2 == 0:
                ht = rng.choice([1, 2, 3, 0x81, 0x83, U32, 0])
                yield Case("hash %s %s %s" % (hname, a, arg(ht)), (lambda d=d, cls=cls, ht=ht: call(lambda: bytes(mk_tx(d, cls).hash(hash_type=ht)))))
                yield Case("blanked_hash %s %s" % (hname, a), (lambda d=d, cls=cls: call(lambda: bytes(mk_tx(d, cls).blanked_hash()))))
                yield Case("id %s %s" % (hname, a), (lambda d=d, cls=cls: call(lambda: mk_tx(d, cls).id().encode())))
                yield Case("w_id %s %s" % (hname, a), (lambda d=d, cls=cls: call(lambda: mk_tx(d, cls).w_id().encode())))
        yield Case("is_coinbase %s" % a, (lambda d=d: call(lambda: mk_tx(d).is_coinbase())))
        yield Case("has_witness_data %s" % a, (lambda d=d: call(lambda: mk_tx(d).has_witness_data())))
        # the parts
        i0 = d[1][0]
        yield Case("txin_stream %s %s" % (arg(k % 2 == 0), a_txin(i0)), (lambda i0=i0, bl=(k % 2 == 0): call(lambda: _stream(mk_tx((1, [i0], [], 0)).txs_in[0], blank_solutions=bl))))
        bi = i0[0] + i0[1].to_bytes(4, "little") + cs(len(i0[2])) + i0[2] + i0[3].to_bytes(4, "little")
        yield Case("txin_parse %s" % arg(bi + b"\x99"), (lambda b=bi + b"\x99": call(i_txin_parse, b)))
        if d[2]:
            o0 = d[2][0]
            yield Case("txout_stream %s" % a_txout(o0), (lambda o0=o0: call(lambda: _stream(TxOut(*o0)))))
            bo = o0[0].to_bytes(8, "little") + cs(len(o0[1])) + o0[1]
            yield Case("txout_parse %s" % arg(bo), (lambda b=bo: call(i_txout_parse, b)))
            yield Case("txout_parse %s" % arg(bo[:-1]), (lambda b=bo[:-1]: call(i_txout_parse, b)))
    # histories of one object: observe, mutate, observe again (Model/TxObject.v)
    for (d, us, ops, code) in history_cases(rng, tier):
        yield Case(hist_line(HNAME[code], d, us, ops), (lambda d=d, us=us, ops=ops, code=code: hist_impl(d, us, ops, NET_CLASSES[code])))
    # worlds of several live objects: object k's trace must be the single-object model's trace of k's own operations
    for (ds, hows, wops) in world_cases(rng, tier):
        for k, d in enumerate(ds):
            mine = [op for (j, op) in wops if j == k]
            yield Case(hist_line(HNAME["BTC"], d, [], mine),
                       (lambda ds=ds, hows=hows, wops=wops, k=k: world_impl(ds, hows, wops, k, NET_CLASSES["BTC"])))
    # ids on every network's Tx class
    for k, d in enumerate(txs[:60 if tier == "quick" else 1500]):
        if big(d):
            continue
        for code in sorted(NET_CLASSES):
            if code == "BTC" or (k + len(code)) % 3:
                continue
            cls = NET_CLASSES[code]
            yield Case("hash %s %s N" % (HNAME[code], a_tx(d)), (lambda d=d, cls=cls: call(lambda: bytes(mk_tx(d, cls).hash()))))
            yield Case("w_hash %s %s" % (HNAME[code], a_tx(d)), (lambda d=d, cls=cls: call(lambda: bytes(mk_tx(d, cls).w_hash()))))
            yield Case("as_bin F F T %s []" % a_tx(d), (lambda d=d, cls=cls: call(lambda: mk_tx(d, cls).as_bin())))
    # coinbase-like inputs for is_coinbase
    for h, i in [(bytes(32), U32), (bytes(32), 0), (bytes(32), 5), (bytes(31) + b"\x01", U32), (bytes(31), U32), (bytes(33), U32)]:
        d = (1, [(h, i, b"\x51\x51", 0, [])], [(1, b"")], 0)
        yield Case("is_coinbase %s" % a_tx(d), (lambda d=d: call(lambda: mk_tx(d).is_coinbase())))
        d2 = (1, [d[1][0], d[1][0]], [(1, b"")], 0)
        yield Case("is_coinbase %s" % a_tx(d2), (lambda d=d2: call(lambda: mk_tx(d).is_coinbase())))
        us = [(5, b"a")]
        yield Case("missing_unspents %s %s" % (a_tx(d), a_unspents(us)), (lambda d=d, us=us: call(lambda: _with_unspents(d, us).missing_unspents())))
        for us in ([], [(5, b"a")], [(5, b"a"), (6, b"b")], [None]):
            yield Case("as_bin F T T %s %s" % (a_tx(d), a_unspents(us)), (lambda d=d, us=us: call(i_as_bin, d, us, False, True, True)))
    # fields out of range
    for d in out_of_range_txs(rng):
        a = a_tx(d)
        for (bl, iu, iw) in [(False, False, True), (False, False, False), (True, False, True)]:
            yield Case("as_bin %s %s %s %s []" % (arg(bl), arg(iu), arg(iw), a), (lambda d=d, bl=bl, iu=iu, iw=iw: call(i_as_bin, d, [], bl, iu, iw)))
        yield Case("hash dsha256 %s N" % a, (lambda d=d: call(lambda: bytes(mk_tx(d).hash()))))
        yield Case("hash dsha256 %s %s" % (a, arg(-1)), (lambda d=d: call(lambda: bytes(mk_tx(d).hash(hash_type=-1)))))
        yield Case("w_id dsha256 %s" % a, (lambda d=d: call(lambda: mk_tx(d).w_id().encode())))
    # malformed streams
    for b in malformed_streams(rng, tier):
        yield Case("parse_tx T %s" % arg(b), (lambda b=b: call(i_parse, Tx, b)))
        if len(b) < 200 and (len(b) % 3 == 0 or len(b) < 12):
            yield Case("parse_tx F %s" % arg(b), (lambda b=b: call(i_parse, Tx, b, False)))
        yield Case("parse_tx_ltc %s" % arg(b), (lambda b=b: call(i_parse, LTCTx, b)))
        yield Case("from_bin %s" % arg(b), (lambda b=b: call(i_from_bin, b)))
    # spendables
    n_sp = 150 if tier == "quick" else 5000
    for k in range(n_sp):
        sp = g_sp(rng, wild=(k % 5 == 4))
        a = a_sp(sp)
        for asp in (True, False):
            yield Case("sp_as_bin %s %s" % (arg(asp), a), (lambda sp=sp, asp=asp: call(lambda: mk_sp(sp).as_bin(as_spendable=asp))))
        yield Case("sp_as_dict %s" % a, (lambda sp=sp: call(i_sp_as_dict, sp)))
        yield Case("sp_as_text %s" % a, (lambda sp=sp: call(i_sp_as_text, sp)))
        try:
            b = mk_sp(sp).as_bin(as_spendable=True)
        except Exception:
            continue
        yield Case("sp_from_bin %s" % arg(b + b"\x77"), (lambda b=b + b"\x77": call(lambda: sp_tuple(Spendable.from_bin(b)))))
        if k < 12:
            for n in range(len(b)):
                yield Case("sp_from_bin %s" % arg(b[:n]), (lambda b=b[:n]: call(lambda: sp_tuple(Spendable.from_bin(b)))))
        elif k % 3 == 0:
            n = rng.randrange(len(b))
            yield Case("sp_from_bin %s" % arg(b[:n]), (lambda b=b[:n]: call(lambda: sp_tuple(Spendable.from_bin(b)))))
        if k % 7 == 0:
            mb = bytearray(b)
            mb[rng.randrange(len(mb))] = rng.choice([0, 2, 0xfd, 0xff])
            yield Case("sp_from_bin %s" % arg(bytes(mb)), (lambda b=bytes(mb): call(lambda: sp_tuple(Spendable.from_bin(b)))))
        # dict / text parsers
        sh = rng.choice([sp[1].hex(), sp[1].hex().upper(), sp[1].hex() + "0", "zz", "", sp[1].hex() + "é"]).encode("utf8")
        hh = rng.choice([sp[2][::-1].hex(), sp[2].hex(), "abc", ""]).encode("utf8")
        opt = lambda x: rng.choice([x, x, None])
        dv = (sp[0], sh, hh, sp[3], opt(sp[4]), opt(sp[5]), opt(sp[6]))
        yield Case("sp_from_dict " + " ".join(arg(x) for x in dv), (lambda dv=dv: call(i_sp_from_dict, *dv)))
        parts = [rng.choice([sp[2][::-1].hex()] * 4 + ["0g", "a"]).encode(), sp[3], rng.choice([sp[1].hex()] * 3 + ["A0b1", "x"]).encode(), sp[0], sp[4],
                 rng.choice([sp[5], 0, 1, 2, -1, 7]), sp[6], 5, 6][:rng.choice([0, 1, 3, 4, 4, 5, 6, 7, 7, 7, 8, 9])]
        yield Case("sp_from_text %s" % arg(parts), (lambda parts=parts: call(i_sp_from_text, parts)))
    # compact sizes and strings
    vals = [0, 1, 0xfc, 0xfd, 0xfe, 0xff, 0x100, 0xfffe, 0xffff, 0x10000, 0x10001, U32 - 1, U32, U32 + 1, (1 << 63), U64, U64 + 1, -1, -253, 1 << 70]
    vals += [rng.getrandbits(rng.choice([8, 16, 32, 64])) for _ in range(60 if tier == "quick" else 3000)]
    for v in vals:
        yield Case("stream_satoshi_int %s" % arg(v), (lambda v=v: call(i_stream_int, v)))
    for pre in [b"", b"\x00", b"\xfc", b"\xfd", b"\xfd\x01", b"\xfd\x01\x02", b"\xfe\x01\x02\x03", b"\xfe\x01\x02\x03\x04", b"\xff" + bytes(7),
                b"\xff" + bytes(range(8)), b"\xfd\xfc\x00", b"\xfe\xff\xff\x00\x00", b"\xff\xff\xff\xff\xff\x00\x00\x00\x00",
                b"\xff" + (1 << 63).to_bytes(8, "little"), b"\xff" + ((1 << 63) - 1).to_bytes(8, "little"), b"\xff" + b"\xff" * 8]:
        for tail in (b"", b"zz"):
            yield Case("parse_satoshi_int N %s" % arg(pre + tail), (lambda b=pre + tail: call(i_parse_int, None, b)))
            yield Case("parse_satoshi_string %s" % arg(pre + tail), (lambda b=pre + tail: call(i_parse_str, b)))
        for v in (0, 1, 252, 253, 254, 255, 256, 1000):
            yield Case("parse_satoshi_int %s %s" % (arg(v), arg(pre)), (lambda v=v, b=pre: call(i_parse_int, v, b)))
    for L in BOUND_LENS[:11] + [5, 300]:
        s = b"\x42" * L
        yield Case("stream_satoshi_string %s" % arg(s), (lambda s=s: call(i_stream_str, s)))
        enc = cs(L) + s
        yield Case("parse_satoshi_string %s" % arg(enc + b"!"), (lambda b=enc + b"!": call(i_parse_str, b)))
        yield Case("parse_satoshi_string %s" % arg(enc[:-1]), (lambda b=enc[:-1]: call(i_parse_str, b)))
    # the format-driven struct codec on arbitrary formats over the registered characters (and an unregistered one)
    chars = sorted(SATOSHI_STREAMER.parse_lookup)
    for _ in range(400 if tier == "quick" else 20000):
        fmt = "".join(rng.choice(chars + (["z"] if rng.random() < 0.1 else [])) for _ in range(rng.randint(0, 5)))
        vals, enc = [], b""
        for c in fmt:
            if c in "LQhI":
                w = {"L": 32, "Q": 64, "h": 16, "I": rng.choice([8, 16, 32, 64])}[c]
                v = rng.choice([0, 1, (1 << w) - 1, rng.getrandbits(w), rng.choice([-1, 1 << w]) if c != "I" else rng.choice([-1, 1 << 64])])
            elif c in "#@S":
                v = blob(rng, rng.choice([0, 5, 16, 31, 32, 33, 40, 253]))
            elif c == "b":
                v = rng.choice([True, False])
            else:
                v = 0
            if rng.random() < 0.12:       # a value of the wrong type for the codec (struct.error / TypeError / truthiness)
                v = rng.choice([5, 0, -1, True, False, b"", b"ab"])
            vals.append(v)
        yield Case("stream_struct %s %s" % (arg(fmt), arg(vals)), (lambda fmt=fmt, vals=vals: call(i_stream_struct, fmt, vals)))
        try:
            enc = i_stream_struct(fmt.replace("z", ""), [v for c, v in zip(fmt, vals) if c != "z"])
        except Exception:
            enc = bytes(rng.getrandbits(8) for _ in range(rng.randint(0, 70)))
        if rng.random() < 0.4:
            enc = enc[:rng.randrange(len(enc) + 1)]
        if rng.random() < 0.2 and enc:
            e = bytearray(enc)
            e[rng.randrange(len(e))] = rng.choice([0, 1, 2, 0xfd, 0xfe, 0xff])
            enc = bytes(e)
        yield Case("parse_struct %s %s" % (arg(fmt), arg(enc + b"\x55")), (lambda fmt=fmt, b=enc + b"\x55": call(i_parse_struct, fmt, b)))
    # hex
    for _ in range(300 if tier == "quick" else 10000):
        n = rng.randint(0, 12)
        s = "".join(rng.choice("0123456789abcdefABCDEF" + ("gG xzé/" if rng.random() < 0.2 else "")) for _ in range(n))
        yield Case("h2b %s" % arg(s.encode("utf8")), (lambda s=s: call(h2b, s)))
        yield Case("h2b_rev %s" % arg(s.encode("utf8")), (lambda s=s: call(h2b_rev, s)))
        b = blob(rng, rng.randint(0, 40))
        yield Case("b2h %s" % arg(b), (lambda b=b: call(lambda: b2h(b).encode())))
    for v in range(256):
        yield Case("b2h %s" % arg(bytes([v])), (lambda b=bytes([v]): call(lambda: b2h(b).encode())))
        st = chr(v) + "0"           # code points >= 0x80 are non-ascii: their UTF-8 bytes are no hex digits
        yield Case("h2b %s" % arg(st.encode("utf8")), (lambda st=st: call(h2b, st)))


# ------------------------------------------------------------------------------------------------
# direct checks of the property on the implementation
def valid_tx(d):
    ver, ins, outs, lock = d
    return len(ins) >= 1 and 0 <= ver <= U32 and 0 <= lock <= U32 and all(
        len(h) == 32 and 0 <= i <= U32 and 0 <= q <= U32 for (h, i, _, q, _) in ins) and all(0 <= v <= U64 for (v, _) in outs)


def chk_tx(d, code="BTC"):
    """round trip, wire format, ids — for a transaction with >= 1 input and fields in range, on the Tx class of network `code`"""
    Tx = NET_CLASSES[code]
    dsha = REF_HASH[code]
    mk = lambda dd: mk_tx(dd, Tx)
    tx = mk(d)
    b = tx.as_bin()
    exp = spec_ser(d)
    if b != exp:
        return {"kind": "not-wire-format", "got": b[:80].hex(), "expected": exp[:80].hex(), "len": (len(b), len(exp))}
    if tx.as_bin(include_witness_data=False) != spec_ser(d, False):
        return {"kind": "stripped-not-legacy-format"}
    t2 = Tx.from_bin(b)
    if tx_tuple(t2) != (d[0], [(h, i, s, q, list(w)) for (h, i, s, q, w) in d[1]], list(d[2]), d[3]):
        return {"kind": "parse-stream-differs", "got": str(tx_tuple(t2))[:300]}
    if t2.as_bin() != b:
        return {"kind": "stream-parse-differs"}
    f = io.BytesIO(b + b"\xaa\xbb")
    t3 = Tx.parse(f)
    if f.read() != b"\xaa\xbb" or tx_tuple(t3) != tx_tuple(t2):
        return {"kind": "parse-consumed-wrong-amount"}
    if Tx.from_hex(tx.as_hex()).as_bin() != b or tx.as_hex() != b.hex():
        return {"kind": "hex-roundtrip"}
    leg = spec_ser(d, False)
    if tx.hash() != dsha(leg) or tx.id() != dsha(leg)[::-1].hex():
        return {"kind": "txid-not-hash-of-stripped"}
    if tx.w_hash() != dsha(exp) or tx.w_id() != dsha(exp)[::-1].hex():
        return {"kind": "wtxid-not-hash-of-wire"}
    # witness data: txid unchanged, wtxid changed
    d2 = (d[0], [(h, i, s, q, list(w) + [b"\x01"]) for (h, i, s, q, w) in d[1]], d[2], d[3])
    tx2 = mk(d2)
    if tx2.id() != tx.id():
        return {"kind": "txid-depends-on-witness"}
    if tx2.w_id() == tx.w_id():
        return {"kind": "wtxid-ignores-witness"}
    d3 = (d[0], [(h, i, s, q, []) for (h, i, s, q, w) in d[1]], d[2], d[3])
    tx3 = mk(d3)
    if tx3.id() != tx.id() or tx3.w_id() != tx3.id():
        return {"kind": "txid-depends-on-witness"}
    lt = LTCTx.from_bin(b)
    if tx_tuple(lt) != tx_tuple(t2):
        return {"kind": "ltc-parse-differs"}
    # the official setter: attach / change / remove a witness on the SAME object
    if True:
        before = tx.id()
        tx.set_witness(0, [b"\x30" * 71, b"\x02" * 33])
        if tx.id() != before or tx.hash() != dsha(leg):
            return {"kind": "txid-depends-on-witness", "how": "set_witness"}
        if tx.w_id() == tx.id():
            return {"kind": "wtxid-ignores-witness", "how": "set_witness"}
        if tx.as_bin(include_witness_data=False) != leg:
            return {"kind": "stripped-not-legacy-format", "how": "set_witness"}
    return None


def chk_unspents(d, us):
    tx = mk_tx(d)
    tx.set_unspents([TxOut(v, s) for (v, s) in us])
    b = tx.as_bin(include_unspents=True)
    exp = spec_ser(d) + b"".join(v.to_bytes(8, "little") + cs(len(s)) + s for (v, s) in us)
    if b != exp:
        return {"kind": "unspents-extension-format"}
    t2 = Tx.from_bin(b)
    if tx_tuple(t2) != tx_tuple(tx) or unspents_tuple(t2.unspents) != [(v, s) for (v, s) in us]:
        return {"kind": "unspents-roundtrip", "got": str(unspents_tuple(t2.unspents))[:200]}
    if Tx.from_hex(tx.as_hex(include_unspents=True)).as_bin(include_unspents=True) != b:
        return {"kind": "unspents-hex-roundtrip"}
    return None


def chk_spendable(sp):
    s = mk_sp(sp)
    want = sp_tuple(s)
    try:
        b = s.as_bin(as_spendable=True)
        got = sp_tuple(Spendable.from_bin(b))
    except Exception as e:
        return {"kind": "spendable-bin-raises", "detail": "%s: %s" % (type(e).__name__, e)}
    if got != want:
        return {"kind": "spendable-bin-roundtrip", "got": str(got)[:200]}
    exp = sp[0].to_bytes(8, "little") + cs(len(sp[1])) + sp[1] + sp[2] + sp[3].to_bytes(4, "little") + cs(sp[4]) + bytes([1 if sp[5] else 0]) + cs(sp[6])
    if b != exp:
        return {"kind": "spendable-bin-format"}
    if sp_tuple(Spendable.from_text(s.as_text())) != want:
        return {"kind": "spendable-text-roundtrip", "text": s.as_text()[:200]}
    if sp_tuple(Spendable.from_dict(s.as_dict())) != want:
        return {"kind": "spendable-dict-roundtrip"}
    import json
    if sp_tuple(Spendable.from_dict(json.loads(json.dumps(s.as_dict())))) != want:
        return {"kind": "spendable-json-roundtrip"}
    if s.as_bin() != sp[0].to_bytes(8, "little") + cs(len(sp[1])) + sp[1]:
        return {"kind": "spendable-as-txout-format"}
    return None


_FULLWIDTH = {ord(c): chr(0xFF10 + i) for i, c in enumerate("0123456789")}
_FULLWIDTH.update({ord(c): chr(0xFF21 + i) for i, c in enumerate("ABCDEF")})
_FULLWIDTH.update({ord(c): chr(0xFF41 + i) for i, c in enumerate("abcdef")})


def chk_text_presentations(sp, d=None):
    """other presentations of the same text forms: upper-case hex, surrounding blanks / explicit sign / non-ASCII (full-width) digits
    in the decimal fields, full-width hex digits: the same record or transaction comes back, or ValueError - never another value"""
    s = mk_sp(sp)
    want = sp_tuple(s)
    parts = s.as_text().split("/")
    variants = []
    up = list(parts); up[0] = up[0].upper(); up[2] = up[2].upper(); variants.append(("upper-hex", up))
    sg = list(parts); sg[1] = " +" + sg[1] + " "; sg[3] = "+" + sg[3]; variants.append(("sign-and-blanks", sg))
    fw = list(parts)
    for k in (1, 3, 4, 5, 6):
        fw[k] = fw[k].translate(_FULLWIDTH)
    variants.append(("fullwidth-decimal", fw))
    fh = list(parts); fh[0] = fh[0].translate(_FULLWIDTH); variants.append(("fullwidth-hex-hash", fh))
    fs = list(parts); fs[2] = (fs[2] or "00").translate(_FULLWIDTH); variants.append(("fullwidth-hex-script", fs))
    for name, v in variants:
        try:
            got = sp_tuple(Spendable.from_text("/".join(v)))
        except ValueError:
            continue
        except Exception as e:
            return {"kind": "text-presentation-raises-other", "variant": name, "detail": "%s: %s" % (type(e).__name__, e)}
        if got != want and not (name == "fullwidth-hex-script" and not parts[2]):
            return {"kind": "text-presentation-changes-value", "variant": name, "text": "/".join(v)[:200], "got": str(got)[:200]}
    dd = s.as_dict()
    for name, f in (("upper-hex", str.upper), ("fullwidth-hex", lambda x: x.translate(_FULLWIDTH))):
        d2 = dict(dd, script_hex=f(dd["script_hex"]), tx_hash_hex=f(dd["tx_hash_hex"]))
        try:
            got = sp_tuple(Spendable.from_dict(d2))
        except ValueError:
            continue
        except Exception as e:
            return {"kind": "dict-presentation-raises-other", "variant": name, "detail": "%s: %s" % (type(e).__name__, e)}
        if got != want:
            return {"kind": "dict-presentation-changes-value", "variant": name}
    if d is not None:
        ref = mk_tx(d)
        hx = ref.as_hex()
        for name, v in (("upper-hex", hx.upper()), ("fullwidth-hex", hx.translate(_FULLWIDTH)), ("blank-padded", " " + hx + "\n")):
            try:
                t = Tx.from_hex(v)
            except ValueError:
                continue
            except Exception as e:
                return {"kind": "hex-presentation-raises-other", "variant": name, "detail": "%s: %s" % (type(e).__name__, e)}
            if tx_tuple(t) != tx_tuple(ref):
                return {"kind": "hex-presentation-changes-value", "variant": name}
    return None


def valid_sp(sp):
    return 0 <= sp[0] <= U64 and len(sp[2]) == 32 and 0 <= sp[3] <= U32 and 0 <= sp[4] <= U64 and sp[5] in (0, 1) and 0 <= sp[6] <= U64


def sp2j(sp):
    return [sp[0], sp[1].hex(), sp[2].hex(), sp[3], sp[4], sp[5], sp[6]]


def j2sp(j):
    return (j[0], bytes.fromhex(j[1]), bytes.fromhex(j[2]), j[3], j[4], j[5], j[6])


def prop_cases(rng, tier):
    txs = [d for d in structured_txs(rng, tier) if valid_tx(d)]
    codes = sorted(NET_CLASSES)
    for k, d in enumerate(txs):
        yield PropCase("tx", d2j(d), (lambda d=d: chk_tx(d)))
        small = len(d[1]) + len(d[2]) < 40 and sum(len(i[2]) for i in d[1]) < 5000
        if small:
            # every network's Tx class (Groestlcoin hashes differently), each at least every few transactions
            for code in (codes if k % 10 == 0 else [codes[k % len(codes)], "GRS"]):
                if code != "BTC":
                    yield PropCase("tx", {"tx": d2j(d), "code": code}, (lambda d=d, code=code: chk_tx(d, code)))
            if k % 4 == 0:
                kind = PRESENTATIONS[(k // 4) % len(PRESENTATIONS)]
                yield PropCase("presentation", {"tx": d2j(d), "kind": kind, "code": "BTC"}, (lambda d=d, kind=kind: chk_presentation(d, kind)))
            if k % 25 == 0:
                for kind in PRESENTATIONS:
                    code = codes[(k // 25) % len(codes)]
                    yield PropCase("presentation", {"tx": d2j(d), "kind": kind, "code": code}, (lambda d=d, kind=kind, code=code: chk_presentation(d, kind, code)))
                yield PropCase("class_order", {"tx": d2j(d), "codes": codes}, (lambda d=d: chk_class_order(d, codes)))
    for (d, us, ops, code) in direct_history_cases(rng, tier):
        yield PropCase("history", {"tx": d2j(d), "us": [None if u is None else [u[0], u[1].hex()] for u in us], "ops": ops2j(ops), "code": code},
                       (lambda d=d, us=us, ops=ops, code=code: chk_history(d, us, ops, code)))
    for d in txs[: (200 if tier == "quick" else 3000)]:
        us = [(rng.choice([1, 2, U64, 1 << 63, rng.getrandbits(40) + 1]), blob(rng, rng.choice([0, 1, 25, 252, 253, 300]))) for _ in d[1]]
        yield PropCase("unspents", {"tx": d2j(d), "us": [[v, s.hex()] for v, s in us]}, (lambda d=d, us=us: chk_unspents(d, us)))
    for n in range(400 if tier == "quick" else 10000):
        sp = g_sp(rng)
        yield PropCase("spendable", sp2j(sp), (lambda sp=sp: chk_spendable(sp)))
        if n % 4 == 0:
            d = txs[n % len(txs)] if len(txs[n % len(txs)][1]) < 10 else None
            yield PropCase("text_presentation", {"sp": sp2j(sp), "tx": None if d is None else d2j(d)}, (lambda sp=sp, d=d: chk_text_presentations(sp, d)))


def replay_input(check, inp):
    if check == "tx":
        if "tx" in inp:
            return chk_tx(j2d(inp["tx"]), inp.get("code", "BTC"))
        return chk_tx(j2d(inp))
    if check == "history":
        us = [None if u is None else (u[0], bytes.fromhex(u[1])) for u in inp.get("us", [])]
        return chk_history(j2d(inp["tx"]), us, j2ops(inp["ops"]), inp.get("code", "BTC"))
    if check == "presentation":
        return chk_presentation(j2d(inp["tx"]), inp["kind"], inp.get("code", "BTC"))
    if check == "text_presentation":
        return chk_text_presentations(j2sp(inp["sp"]), None if inp.get("tx") is None else j2d(inp["tx"]))
    if check == "class_order":
        return chk_class_order(j2d(inp["tx"]), inp["codes"])
    if check == "unspents":
        return chk_unspents(j2d(inp["tx"]), [(v, bytes.fromhex(s)) for v, s in inp["us"]])
    if check == "spendable":
        return chk_spendable(j2sp(inp))
    return {"kind": "unknown-check"}


def classify(pc, r):
    return None


KNOWN_REPLAYS = {}


def _tx_from_case(toks):
    """recover a tx description from the tokens `i<ver> [ins] [outs] i<lock>` of a driver line"""
    def z(t):
        return -int(t[2:], 16) if t.startswith("i-") else int(t[1:], 16)

    def bs(t):
        return bytes.fromhex(t[1:])
    ver, ins, outs, lock = toks
    dins = []
    for t in ([] if ins == "[]" else ins[1:-1].split(",")):
        h, i, s, q, w = t.split(":")
        dins.append((bs(h), z(i), bs(s), z(q), [] if w == "N" else [bs(x) for x in w.split(";")]))
    douts = []
    for t in ([] if outs == "[]" else outs[1:-1].split(",")):
        v, s = t.split(":")
        douts.append((z(v), bs(s)))
    return (z(ver), dins, douts, z(lock))


def search(rng, tier, disagreements, known_ids):
    """after a proof/correspondence break: look for an input on which the property itself fails"""
    cands = []
    for dis in disagreements[:60]:
        toks = dis["case"].split(" ")
        fn = toks[0]
        try:
            d = None
            if fn in ("as_bin", "as_hex"):
                d = _tx_from_case(toks[4:8])
            elif fn in ("hash", "w_hash", "blanked_hash", "id", "w_id"):
                d = _tx_from_case(toks[2:6])
            elif fn in ("is_coinbase", "has_witness_data", "missing_unspents"):
                d = _tx_from_case(toks[1:5])
            elif fn in ("parse_tx", "parse_tx_ltc", "from_bin", "from_hex"):
                b = bytes.fromhex(toks[-1][1:])
                if fn == "from_hex":
                    b = bytes.fromhex(b.decode("ascii"))
                for cut in (0, 1, 2, 5):
                    try:
                        t = Tx.from_bin(b[:len(b) - cut] if cut else b)
                        d = tx_tuple(t)
                        d = (d[0], [tuple(i) for i in d[1]], d[2], d[3])
                        break
                    except Exception:
                        continue
            elif fn.startswith("sp_as"):
                p = toks[-1].split(":")
                zz = lambda t: -int(t[2:], 16) if t.startswith("i-") else int(t[1:], 16)
                sp = (zz(p[0]), bytes.fromhex(p[1][1:]), bytes.fromhex(p[2][1:]), zz(p[3]), zz(p[4]), zz(p[5]), zz(p[6]))
                if valid_sp(sp):
                    cands.append(PropCase("spendable", sp2j(sp), (lambda sp=sp: chk_spendable(sp))))
            elif fn == "sp_from_bin":
                try:
                    sp = sp_tuple(Spendable.from_bin(bytes.fromhex(toks[1][1:])))
                    if valid_sp(sp):
                        cands.append(PropCase("spendable", sp2j(sp), (lambda sp=sp: chk_spendable(sp))))
                except Exception:
                    pass
            if fn == "history":
                d = _tx_from_case(toks[2:6])
                if valid_tx(d):
                    for m in g_mutators(rng, d):
                        cands.append(PropCase("history", {"tx": d2j(d), "us": [], "ops": ops2j([m]), "code": "BTC"},
                                              (lambda d=d, m=m: chk_history(d, [], [m], "BTC"))))
            if d is not None and valid_tx(d):
                cands.append(PropCase("tx", d2j(d), (lambda d=d: chk_tx(d))))
                code = {"sha256": "GRS"}.get(toks[1], None) if fn in ("hash", "w_hash", "blanked_hash", "id", "w_id", "history") else None
                for c in ([code] if code else []) + [c for c in sorted(NET_CLASSES) if c not in ("BTC", code)]:
                    cands.append(PropCase("tx", {"tx": d2j(d), "code": c}, (lambda d=d, c=c: chk_tx(d, c))))
                if len(d[1]) + len(d[2]) < 20:
                    for m in g_mutators(rng, d)[:8]:
                        cands.append(PropCase("history", {"tx": d2j(d), "us": [], "ops": ops2j([m]), "code": code or "BTC"},
                                              (lambda d=d, m=m, c=(code or "BTC"): chk_history(d, [], [m], c))))
                us = [(7, b"\x51")] * len(d[1])
                cands.append(PropCase("unspents", {"tx": d2j(d), "us": [[v, s.hex()] for v, s in us]}, (lambda d=d, us=us: chk_unspents(d, us))))
        except Exception:
            continue
    cands += list(prop_cases(rng, "quick"))
    if tier == "thorough":
        cands += list(prop_cases(rng, "thorough"))
    for pc in cands:
        try:
            r = pc.thunk()
        except Exception as e:
            r = {"kind": "raises", "detail": "%s: %s" % (type(e).__name__, e)}
        if r is not None and classify(pc, r) not in known_ids:
            return {"check": pc.name, "input": pc.inp, "failure": r}
    return None
