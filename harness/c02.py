"""C02 — elliptic-curve arithmetic is the group law on every curve and backend."""
from common import *
import c02_ops
from c02_ops import run_op

PROP = "C02"
DRIVER = "C02"
RULE = ("correspondence: one driver line per call of inverse_mod / _leftmost_bit / contains_point / Point() / + / - / "
        "unary - / * / Generator() / raw_mul / Generator.__mul__ / modular_sqrt / points_for_x / generate_shared_public_key; "
        "distinct = distinct line; non-trivial = the model returns a value (not an exception); production-curve lines "
        "are executed under PYCOIN_NATIVE=openssl and PYCOIN_NATIVE=none and must agree with each other and the model")
PARTIAL = [
    "M1 (p prime), M4 (associativity) and n*P = O are explicit hypotheses of the multiply/raw_mul theorems; they are "
    "discharged by kernel computation for the toy curves of Proofs/CurveToy.v, not for the 256/381-bit curves",
    "OpenSSL EC_POINT_mul / BN_mod_inverse are not modelled: tied by requiring identical results in both configurations",
    "libsecp256k1 is absent in this sandbox: that configuration cannot be run",
]
TRUSTED = ["Python int // % divmod pow(a,e,m) = Z.div Z.modulo Z.div_eucl and square-and-multiply (hand model)",
           "M1/M2/M4 premises for production curves (see PARTIAL)"]

WORKER = os.path.join(VERIF, "harness", "c02_worker.py")
PROD = ["secp256k1", "secp256r1", "bls12_381_g1"]


# ------------------------------------------------------------------------------------------------
# independent reference arithmetic (affine chord-and-tangent with pow(.,-1,p); plain double-and-add)
def ref_on(p, a, b, P):
    return P is None or (P[1] * P[1] - (P[0] ** 3 + a * P[0] + b)) % p == 0


def ref_red(p, P):
    return None if P is None else (P[0] % p, P[1] % p)


def ref_add(p, a, P, Q):
    P, Q = ref_red(p, P), ref_red(p, Q)
    if P is None:
        return Q
    if Q is None:
        return P
    if P[0] == Q[0]:
        if (P[1] + Q[1]) % p == 0:
            return None
        l = (3 * P[0] * P[0] + a) * pow(2 * P[1], -1, p) % p
    else:
        l = (Q[1] - P[1]) * pow(Q[0] - P[0], -1, p) % p
    x = (l * l - P[0] - Q[0]) % p
    return (x, (l * (P[0] - x) - P[1]) % p)


def ref_neg(p, P):
    return None if P is None else (P[0] % p, (-P[1]) % p)


def ref_mul(p, a, P, k):
    """k*P for any integer k by plain binary double-and-add (no order reduction)"""
    if k < 0:
        return ref_mul(p, a, ref_neg(p, P), -k)
    R, A = None, ref_red(p, P)
    while k:
        if k & 1:
            R = ref_add(p, a, R, A)
        A = ref_add(p, a, A, A)
        k >>= 1
    return R


def ref_repeat(p, a, P, k):
    """P added to itself |k| times, negated for k < 0 (the literal meaning of k*P)"""
    R = None
    for _ in range(abs(k)):
        R = ref_add(p, a, R, P)
    return ref_neg(p, R) if k < 0 else R


def cpt(P):
    return canon((None, None)) if P is None else canon((P[0], P[1]))


# ------------------------------------------------------------------------------------------------
# toy curves
def _is_prime(n):
    if n < 2:
        return False
    i = 2
    while i * i <= n:
        if n % i == 0:
            return False
        i += 1
    return True


_points_cache = {}


def curve_points(p, a, b):
    k = (p, a, b)
    if k not in _points_cache:
        sq = {}
        for y in range(p):
            sq.setdefault(y * y % p, []).append(y)
        pts = []
        for x in range(p):
            for y in sq.get((x * x * x + a * x + b) % p, []):
                pts.append((x, y))
        _points_cache[k] = pts
    return _points_cache[k]


_toy_cache = {}


def prime_order_curves(p):
    """all (a, b, n) with y^2 = x^3 + ax + b non-singular over F_p of prime order n"""
    if p not in _toy_cache:
        res = []
        for a in range(p):
            for b in range(p):
                if (4 * a ** 3 + 27 * b * b) % p == 0:
                    continue
                n = len(curve_points(p, a, b)) + 1
                if _is_prime(n):
                    res.append((a, b, n))
        _toy_cache[p] = res
    return _toy_cache[p]


def toy_primes(tier):
    lim = 103 if tier == "thorough" else 43
    return [p for p in range(5, lim + 1) if _is_prime(p) and p % 4 == 3]


def toy_selection(rng, tier):
    """[(p, a, b, n)] : every prime-order curve for small p, a sample (distinct orders first) for larger p"""
    full_lim = 23 if tier == "thorough" else 11
    per_p = 8 if tier == "thorough" else 3
    sel = []
    for p in toy_primes(tier):
        cs = prime_order_curves(p)
        if p <= full_lim:
            sel += [(p, a, b, n) for a, b, n in cs]
            continue
        by_order = {}
        for a, b, n in cs:
            by_order.setdefault(n, []).append((a, b))
        orders = sorted(by_order)
        rng.shuffle(orders)
        chosen = []
        # prefer the shapes of the shipped curves: a = 0 (secp256k1, bls) and a = -3 (secp256r1)
        for want_a in (0, p - 3):
            c = [(a, b, n) for a, b, n in cs if a == want_a]
            if c:
                chosen.append(c[rng.randrange(len(c))])
        for n in orders:
            if len(chosen) >= per_p:
                break
            a, b = by_order[n][rng.randrange(len(by_order[n]))]
            if (a, b, n) not in chosen:
                chosen.append((a, b, n))
        sel += [(p, a, b, n) for a, b, n in chosen[:per_p]]
    return sel


def cv(p, a, b, n):
    return "%s %s %s %s" % (arg(p), arg(a), arg(b), arg(n or 0))


def pa(P):
    return arg([]) if P is None else arg([P[0], P[1]])


def gv(p, a, b, n, G, bits, blind):
    return "%s %s %s %s" % (cv(p, a, b, n), pa(G), arg(bits), arg(blind))


def _case(line, op):
    return Case(line, (lambda op=op: run_op(op)))


def _shifts(p, P, ks):
    for kx, ky in ks:
        yield (P[0] + kx * p, P[1] + ky * p)


ENTROPIES = [0, 1, 2 ** 256 - 1, 0x243F6A8885A308D313198A2E03707344A4093822299F31D0082EFA98EC4E6C89, 2 ** 255 + 12345]


def toy_model_cases(rng, tier):
    sel = toy_selection(rng, tier)
    seen_p = set()
    for (p, a, b, n) in sel:
        first_of_p = p not in seen_p
        seen_p.add(p)
        cd = ("curve", p, a, b, n)
        c = cv(p, a, b, n)
        pts = curve_points(p, a, b)
        allp = [None] + pts
        # add / sub: all pairs
        for P in allp:
            for Q in allp:
                yield _case("add %s %s %s" % (c, pa(P), pa(Q)), ["add", cd, P, Q])
        for P in allp:
            yield _case("neg %s %s" % (c, pa(P)), ["neg", cd, P])
        # multiply: all points x k in [-2n, 2n]
        full = first_of_p or (tier == "thorough" and p <= 47)
        mpts = allp if full else [None] + rng.sample(pts, min(4, len(pts)))
        for P in mpts:
            for k in range(-2 * n, 2 * n + 1):
                yield _case("multiply %s %s %s" % (c, pa(P), arg(k)), ["multiply", cd, P, k])
        if first_of_p:
            # contains / constructor on the whole plane, unreduced operands
            for x in range(-2, p + 2):
                for y in range(-2, p + 2):
                    yield _case("contains %s %s" % (c, pa((x, y))), ["contains", cd, (x, y)])
                    yield _case("point %s %s %s" % (c, arg(x), arg(y)), ["point", cd, x, y])
            sh = [(1, 0), (0, 1), (-1, 0), (0, -1), (2, -3), (-1, 1)]
            for P in pts:
                for Q in pts:
                    kx, ky = sh[rng.randrange(len(sh))]
                    P2 = (P[0] + kx * p, P[1] + ky * p)
                    kx, ky = sh[rng.randrange(len(sh))]
                    Q2 = (Q[0] + kx * p, Q[1] + ky * p)
                    yield _case("add %s %s %s" % (c, pa(P2), pa(Q)), ["add", cd, P2, Q])
                    yield _case("add %s %s %s" % (c, pa(P), pa(Q2)), ["add", cd, P, Q2])
                    yield _case("sub %s %s %s" % (c, pa(P2), pa(Q2)), ["sub", cd, P2, Q2])
            for P in pts:
                for P2 in _shifts(p, P, sh):
                    yield _case("neg %s %s" % (c, pa(P2)), ["neg", cd, P2])
                    for k in (-n - 1, -1, 0, 1, 2, 3, n - 1, n, n + 1, 2 * n + 5):
                        yield _case("multiply %s %s %s" % (c, pa(P2), arg(k)), ["multiply", cd, P2, k])
            # curve without order / wrong / negative order
            for n2 in (None, n + 1, 2 * n, -n, 1):
                cd2 = ("curve", p, a, b, n2)
                c2 = cv(p, a, b, n2)
                for P in [None] + pts[:3]:
                    for k in range(-4, 2 * n + 3):
                        yield _case("multiply %s %s %s" % (c2, pa(P), arg(k)), ["multiply", cd2, P, k])
        # generator through the public constructor
        G = pts[0] if first_of_p else pts[rng.randrange(len(pts))]
        ents = ENTROPIES if full else ENTROPIES[:1] + [rng.getrandbits(256)]
        for ent in ents:
            yield _case("mk_gen %s %s %s %s %s %s %s" % (arg(p), arg(a), arg(b), arg(G[0]), arg(G[1]), arg(n), arg(ent)),
                        ["mk_gen", p, a, b, G[0], G[1], n, ent])
            gd = ("gen", p, a, b, G[0], G[1], n, ent)
            g = gv(p, a, b, n, G, 256, ent % n)
            for k in list(range(-2 * n, 2 * n + 1)) + [2 ** 255 + 7, 2 ** 256 - 1, 2 ** 256, 2 ** 300 + 17, -2 ** 256 - 3]:
                yield _case("gmul %s %s" % (g, arg(k)), ["gmul", gd, k])
                if ent == ents[0]:
                    yield _case("raw_mul %s %s" % (g, arg(k)), ["raw_mul", gd, k])
            if ent == ents[0]:
                for x in range(-p, 2 * p + 1):
                    yield _case("points_for_x %s %s" % (g, arg(x)), ["points_for_x", gd, x])
                    yield _case("modular_sqrt %s %s" % (g, arg(x)), ["modular_sqrt", gd, x])
                for v in range(-n - 1, 2 * n + 2):
                    yield _case("g_inverse %s %s" % (g, arg(v)), ["g_inverse", gd, v])
                for P in [G] + pts[:3] + [(1, 1), (0, 0)]:
                    for k in (-3, -1, 0, 1, 2, n - 1, n, n + 1, 12345):
                        yield _case("shared %s %s %s %s" % (g, arg(k), arg(P[0]), arg(P[1])),
                                    ["shared", gd, k, P[0], P[1]])
        if first_of_p or tier == "thorough":
            # object level: every combination of operand presentations (canonical / constructor / rebuilt / twin objects)
            for (P, S) in present_pairs(pts, p, a, rng) + ([(pts[0], pts[-1])] if first_of_p else []):
                for kP in range(NPRES):
                    yield _case("oneg %s %s %s" % (c, arg(kP), pa(P)), ["p_neg", list(cd), P, kP])
                    for e in (0, 1, 2, 5, -1, n + 1):
                        yield _case("omul %s %s %s %s" % (c, arg(kP), pa(P), arg(e)), ["p_mul", list(cd), P, kP, e, kP % 2])
                        yield _case("ocmul %s %s %s %s" % (c, arg(kP), pa(P), arg(e)), ["p_cmul", list(cd), P, kP, e, 0])
                    for kQ in range(NPRES):
                        yield _case("oadd %s %s %s %s %s" % (c, arg(kP), pa(P), arg(kQ), pa(S)), ["p_add", list(cd), P, kP, S, kQ])
                        yield _case("osub %s %s %s %s %s" % (c, arg(kP), pa(P), arg(kQ), pa(S)), ["p_sub", list(cd), P, kP, S, kQ])
                        yield _case("ocadd %s %s %s %s %s" % (c, arg(kP), pa(P), arg(kQ), pa(S)), ["p_cadd", list(cd), P, kP, S, kQ])
        if first_of_p:
            # operands from two curve objects with different parameters
            others = [t for t in sel if (t[0], t[1], t[2]) != (p, a, b)]
            for (p2, a2, b2, n2) in rng.sample(others, min(3, len(others))):
                pts2 = curve_points(p2, a2, b2)
                for P in [None] + pts[:4]:
                    for S in [None] + pts2[:4]:
                        yield _case("xadd %s %s %s %s" % (c, pa(P), cv(p2, a2, b2, n2), pa(S)),
                                    ["x_add", list(cd), P, ["curve", p2, a2, b2, n2], S])
            # malformed constructor arguments
            spts = set(pts)
            off = next((x, y) for x in range(p) for y in range(p) if (x, y) not in spts)
            for (gx, gy, nn, ent) in [(off[0], off[1], n, 5), (G[0], G[1], 0, 5), (G[0], G[1], -n, 5), (G[0], G[1], n + 2, 7),
                                      (G[0] + p, G[1], n, 9), (G[0], G[1], 2 ** 300 + 157, 2 ** 299), (G[0], G[1], 2 ** 256, 3),
                                      (G[0], G[1], 2 ** 255, 3), (G[0], G[1], 2 ** 256 - 1, 3)]:
                yield _case("mk_gen %s %s %s %s %s %s %s" % (arg(p), arg(a), arg(b), arg(gx), arg(gy), arg(nn), arg(ent)),
                            ["mk_gen", p, a, b, gx, gy, nn, ent])
            # fixed-base multiplication with a table wider than 256 entries (declared order 2^300+157)
            nn = 2 ** 300 + 157
            gd = ("gen", p, a, b, G[0], G[1], nn, 2 ** 299)
            g = gv(p, a, b, nn, G, 301, 2 ** 299 % nn)
            for k in [0, 1, -1, n, 2 ** 256, 2 ** 299, 2 ** 300 + 17, 2 ** 300 + 156, nn, nn + 1, rng.getrandbits(300), rng.getrandbits(310)]:
                yield _case("raw_mul %s %s" % (g, arg(k)), ["raw_mul", gd, k])
                yield _case("gmul %s %s" % (g, arg(k)), ["gmul", gd, k])


def malformed_model_cases(rng, tier):
    """composite moduli, p = 1 mod 4, singular curves: exceptions and off-curve results"""
    for (p, a, b) in [(15, 1, 1), (21, 2, 3), (25, 1, 4), (9, 1, 1), (13, 1, 1), (17, 2, 2), (13, 0, 0), (7, 0, 0), (11, 8, 5),
                      (-7, 1, 1), (2, 1, 1), (3, 1, 1), (1, 0, 0)]:
        pts = [(x, y) for x in range(abs(p)) for y in range(abs(p)) if (y * y - (x * x * x + a * x + b)) % p == 0]
        cd = ("curve", p, a, b, None)
        c = cv(p, a, b, None)
        allp = [None] + pts
        if len(allp) > 14 and tier == "quick":
            allp = [None] + rng.sample(pts, 13)
        for P in allp:
            yield _case("neg %s %s" % (c, pa(P)), ["neg", cd, P])
            for Q in allp:
                yield _case("add %s %s %s" % (c, pa(P), pa(Q)), ["add", cd, P, Q])
            for k in range(-3, 24):
                yield _case("multiply %s %s %s" % (c, pa(P), arg(k)), ["multiply", cd, P, k])
        if pts and p > 2:
            G = pts[0]
            for nn in (len(pts) + 1, 7):
                yield _case("mk_gen %s %s %s %s %s %s %s" % (arg(p), arg(a), arg(b), arg(G[0]), arg(G[1]), arg(nn), arg(3)),
                            ["mk_gen", p, a, b, G[0], G[1], nn, 3])
    ms = list(range(-12, 60)) + [97, 2 ** 16, 2 ** 16 + 1, 2 ** 61 - 1, 2 ** 64, 6 ** 20]
    for m in ms:
        rng_a = range(-2 * abs(m) - 2, 2 * abs(m) + 3) if abs(m) < 60 else \
            [0, 1, -1, m - 1, m, m + 1, 2 * m + 3, -m, 2, 3, m // 2, m // 3] + [rng.getrandbits(70) - 2 ** 69 for _ in range(20)]
        for a in rng_a:
            yield _case("inverse_mod %s %s" % (arg(a), arg(m)), ["inverse_mod_plain", a, m])
    # Fibonacci pairs: the worst case of Euclid's algorithm (fuel bound)
    f0, f1 = 1, 2
    for _ in range(300 if tier == "quick" else 900):
        yield _case("inverse_mod %s %s" % (arg(f0), arg(f1)), ["inverse_mod_plain", f0, f1])
        f0, f1 = f1, f0 + f1
    for x in list(range(-3, 1030)) + [v for k in range(10, 620, 7) for v in ((1 << k) - 1, 1 << k, (1 << k) + 1)]:
        yield _case("leftmost_bit %s" % arg(x), ["leftmost_bit", x])


# ------------------------------------------------------------------------------------------------
# production curves: both configurations through subprocess workers
def run_workers(ops, configs=("openssl", "none"), split=True):
    """returns {config: [canonical result per op]}; one interpreter per (configuration, curve), all concurrent"""
    groups = {}
    for i, op in enumerate(ops):
        key = op[1] if len(op) > 1 and isinstance(op[1], str) else "-"
        groups.setdefault(key if (len(ops) > 40 and split) else "-", []).append(i)
    procs = []
    for cfg in configs:
        for key, idx in groups.items():
            env = dict(os.environ)
            env["PYCOIN_NATIVE"] = cfg
            env["PYTHONPATH"] = REPO + ":" + os.path.join(VERIF, "harness")
            p = subprocess.Popen([PY, "-W", "ignore", WORKER], stdin=subprocess.PIPE, stdout=subprocess.PIPE,
                                 stderr=subprocess.PIPE, env=env)
            procs.append((cfg, idx, p, json.dumps([ops[i] for i in idx]).encode()))
    import threading
    out = {cfg: [None] * len(ops) for cfg in configs}
    info = {}

    def pump(cfg, idx, p, blob):
        data, err = p.communicate(blob)
        try:
            d = json.loads(data)
            res = d["results"]
            info[cfg] = d["native_classes"]
        except Exception:
            res = ["!WORKER-DIED " + err.decode("utf8", "replace")[-200:].replace("\n", " ")] * len(idx)
        for i, r in zip(idx, res):
            out[cfg][i] = r
    ths = [threading.Thread(target=pump, args=t) for t in procs]
    for t in ths:
        t.start()
    for t in ths:
        t.join()
    run_workers.last_info = info
    return out


def prod_params(name):
    o = c02_ops.get_obj(name)
    return (o.p(), o._a, o._b, o.order(), (o[0], o[1]), o._bit_count)


def prod_points(name, rng):
    p, a, b, n, G, bits = prod_params(name)
    k1 = 12345
    k2 = rng.getrandbits(250) | 1
    return {"G": G, "2G": ref_add(p, a, G, G), "Q": ref_mul(p, a, G, k1), "R": ref_mul(p, a, G, k2), "kR": k2}


def prod_model_ops(rng, tier):
    """[(line, op, expensive)] for the production curves"""
    res = []
    for name in PROD:
        p, a, b, n, G, bits = prod_params(name)
        c = cv(p, a, b, n)
        g = gv(p, a, b, n, G, bits, 0)
        pp = prod_points(name, rng)
        Q, R, G2 = pp["Q"], pp["R"], pp["2G"]
        nG = ref_neg(p, G)
        Gu = (G[0] + p, G[1])
        Gv = (G[0], G[1] - p)
        nGu = (G[0] + 2 * p, p - G[1] + p)
        pairs = [(G, G), (G, nG), (G, None), (None, G), (None, None), (G, G2), (G2, G), (Q, R), (R, Q), (Gu, G), (G, Gv), (Gu, Gv),
                 (Gu, nG), (G, nGu), (Gu, Q), (Q, Q), (R, ref_neg(p, R))]
        for P, S in pairs:
            res.append(("add %s %s %s" % (c, pa(P), pa(S)), ["add", name, P, S], False))
        for P, S in [(Q, R), (G, G), (G, Gu), (Q, None), (None, Q)]:
            res.append(("sub %s %s %s" % (c, pa(P), pa(S)), ["sub", name, P, S], False))
        for P in [G, None, Q, Gu, Gv, nGu]:
            res.append(("neg %s %s" % (c, pa(P)), ["neg", name, P], False))
        for P in [G, Q, Gu, (1, 1), (G[0], G[1] + 1), (0, 0), (p, p)]:
            res.append(("point %s %s %s" % (c, arg(P[0]), arg(P[1])), ["point", name, P[0], P[1]], False))
            res.append(("contains %s %s" % (c, pa(P)), ["contains", name, P], False))
        # cheap scalars (cost is proportional to the bit length of e mod n)
        for P in [G, Q, None, Gu, Gv, (G[0] - p, G[1])]:
            for e in [0, 1, 2, 3, n, n + 1, n + 2, -n, 2 * n + 5, -n + 3] + ([7, 65537] if tier == "thorough" else []):
                res.append(("multiply %s %s %s" % (c, pa(P), arg(e)), ["multiply", name, P, e], False))
        res.append(("multiply %s %s %s" % (c, pa(G), arg(6)), ["multiply_self", name, 6], False))
        for (P, S) in [(None, None), (G, None), (None, Q), (G, G2)]:
            for kP in range(NPRES):
                res.append(("omul %s %s %s %s" % (c, arg(kP), pa(P), arg(2)), ["p_mul", name, P, kP, 2, kP % 2], False))
                res.append(("oneg %s %s %s" % (c, arg(kP), pa(P)), ["p_neg", name, P, kP], False))
                for kQ in range(NPRES):
                    res.append(("oadd %s %s %s %s %s" % (c, arg(kP), pa(P), arg(kQ), pa(S)), ["p_add", name, P, kP, S, kQ], False))
                    res.append(("osub %s %s %s %s %s" % (c, arg(kP), pa(P), arg(kQ), pa(S)), ["p_sub", name, P, kP, S, kQ], False))
        res.append(("shared %s %s %s %s" % (g, arg(7), arg(Q[0]), arg(Q[1])), ["shared", name, 7, Q[0], Q[1]], False))
        res.append(("shared %s %s %s %s" % (g, arg(7), arg(Q[0]), arg(Q[1] + 1)), ["shared", name, 7, Q[0], Q[1] + 1], False))
        for x in [G[0], G[0] + p, 0, 5, p - 1, -1] + ([Q[0], 1, 2, 3] + [rng.getrandbits(255) for _ in range(4)] if tier == "thorough" else []):
            res.append(("points_for_x %s %s" % (g, arg(x)), ["points_for_x", name, x], False))
        for v in [4, G[1] * G[1], -4] + ([0, 1, p - 1] if tier == "thorough" else []):
            res.append(("modular_sqrt %s %s" % (g, arg(v)), ["modular_sqrt", name, v], False))
        for (v, m) in [(1, p), (2, p), (-1, p), (p - 1, p), (p + 1, p), (2 ** 255, p), (rng.getrandbits(256), p),
                       (-rng.getrandbits(256), p), (3 * p + 5, p), (2, n), (n - 1, n), (rng.getrandbits(300), n)]:
            res.append(("inverse_mod %s %s" % (arg(v), arg(m)), ["inverse_mod", name, v, m], False))
        for v in [1, 2, n - 1, n + 2, -3, rng.getrandbits(256)]:
            res.append(("g_inverse %s %s" % (g, arg(v)), ["g_inverse", name, v], False))
        # expensive: full-size scalars, ~15 s each in the extracted model (run in parallel by the driver)
        big = rng.getrandbits(256)
        if name == "secp256k1":
            exp = [("multiply", Q, n - 1), ("multiply", Gu, 2 ** 256 - 1), ("raw_mul", None, rng.getrandbits(256))]
            if tier == "thorough":
                exp += [("multiply", R, big), ("raw_mul", None, -1), ("multiply", Q, -1), ("multiply", G, n - 2), ("gmul", None, big), ("gmul", None, -5), ("raw_mul", None, n - 1),
                        ("raw_mul", None, 2 ** 256 - 1), ("shared", Q, big), ("mk_gen", None, 2 ** 255 + 12345)]
                exp += [("multiply", R, rng.getrandbits(256) - 2 ** 255) for _ in range(10)]
                exp += [("raw_mul", None, rng.getrandbits(300)) for _ in range(6)]
        elif name == "secp256r1":
            exp = [("multiply", Q, -1), ("raw_mul", None, big)]
            if tier == "thorough":
                exp += [("multiply", R, 2 ** 256 - 1), ("multiply", Q, n - 1), ("gmul", None, big), ("raw_mul", None, -1), ("shared", Q, big)]
                exp += [("multiply", R, rng.getrandbits(256) - 2 ** 255) for _ in range(8)]
                exp += [("raw_mul", None, rng.getrandbits(300)) for _ in range(4)]
        else:
            # 381-bit field: ~48 s per full-size scalar; the quick tier uses a 64-bit scalar
            exp = [("multiply", Q, rng.getrandbits(64) | (1 << 63))]
            if tier == "thorough":
                exp += [("multiply", Q, n - 1), ("raw_mul", None, big), ("multiply", R, 2 ** 256 - 1), ("multiply", Q, -1),
                        ("gmul", None, big), ("raw_mul", None, -1)]
                exp += [("multiply", R, rng.getrandbits(256) - 2 ** 255) for _ in range(4)]
        for kind, P, e in exp:
            if kind == "multiply":
                res.append(("multiply %s %s %s" % (c, pa(P), arg(e)), ["multiply", name, P, e], True))
            elif kind == "raw_mul":
                res.append(("raw_mul %s %s" % (g, arg(e)), ["raw_mul", name, e], True))
            elif kind == "gmul":
                res.append(("GMUL %s %s" % (name, arg(e)), ["gmul", name, e], True))    # line completed below
            elif kind == "shared":
                res.append(("shared %s %s %s %s" % (g, arg(e), arg(P[0]), arg(P[1])), ["shared", name, e, P[0], P[1]], True))
            elif kind == "mk_gen":
                res.append(("mk_gen %s %s %s %s %s %s %s" % (arg(p), arg(a), arg(b), arg(G[0]), arg(G[1]), arg(n), arg(e)),
                            ["mk_gen", p, a, b, G[0], G[1], n, e], True))
    return res


def prod_model_cases(rng, tier):
    items = prod_model_ops(rng, tier)
    ops = [op for _, op, _ in items]
    # the blinded multiplication needs the live blinding factor of each configuration's generator object
    fields_ops = [["gen_fields", name] for name in PROD]
    out = run_workers(ops + fields_ops)
    cases = []
    for i, (line, op, expensive) in enumerate(items):
        ro, rn = out["openssl"][i], out["none"][i]
        if line.startswith("GMUL "):
            # G * e must not depend on the blinding factor: the model runs with the factor of the pure-Python object
            name = op[1]
            p, a, b, n, G, bits = prod_params(name)
            f = out["none"][len(items) + PROD.index(name)]
            blind = int(f.rstrip(")").split(" ")[-1][1:], 16)
            line = "gmul %s %s" % (gv(p, a, b, n, G, bits, blind), arg(op[2]))
        impl = ro if ro == rn else "!CONFIG-MISMATCH openssl=%s none=%s" % (ro, rn)
        cases.append((expensive, Case(line, (lambda impl=impl: impl), meta={"op": op})))
    # expensive lines first so that the driver's round-robin spreads them over its workers
    cases.sort(key=lambda t: not t[0])
    return [c for _, c in cases]


def model_cases(rng, tier):
    for c in prod_model_cases(rng, tier):
        yield c
    for c in malformed_model_cases(rng, tier):
        yield c
    for c in toy_model_cases(rng, tier):
        yield c


# ------------------------------------------------------------------------------------------------
# direct property checks on the implementation
def _pt(s):
    """parse canonical point '(ix iy)' / '(N N)' back"""
    if s.startswith("!") or not s.startswith("("):
        return s
    a, b = s[1:-1].split(" ")
    if a == "N":
        return None

    def iv(t):
        return -int(t[2:], 16) if t.startswith("i-") else int(t[1:], 16)
    return (iv(a), iv(b))


def same_elt(p, got, want_pt):
    """got (canonical string) denotes the group element want_pt (coordinates compared mod p)"""
    if got.startswith("!"):
        return False
    return cpt(ref_red(p, _pt(got))) == cpt(want_pt)


def chk_toy_group(inp):
    """group laws around one point P of a toy curve: closure, commutativity, identity, inverse, associativity with
    every Q, R; implementation vs independent chord-and-tangent reference"""
    p, a, b, n = inp["curve"]
    from pycoin.ecdsa.Curve import Curve
    c = Curve(p, a, b, n)
    pts = [None] + curve_points(p, a, b)
    objs = [c.infinity() if P is None else c.Point(*P) for P in pts]
    i = inp["i"]
    P, Po = pts[i], objs[i]
    inf = c.infinity()
    if Po + inf != Po or inf + Po != Po:
        return {"kind": "identity", "P": P}
    nP = -Po
    if (Po + nP) != inf or not c.contains_point(*nP):
        return {"kind": "inverse", "P": P, "neg": tuple(nP)}
    sums = {}
    for j, Qo in enumerate(objs):
        S = Po + Qo
        if not c.contains_point(*S):
            return {"kind": "closure", "P": P, "Q": pts[j], "sum": tuple(S)}
        if S != Qo + Po:
            return {"kind": "commutativity", "P": P, "Q": pts[j]}
        exp = ref_add(p, a, P, pts[j])
        if tuple(S) != (exp if exp is not None else (None, None)):
            return {"kind": "add-vs-reference", "P": P, "Q": pts[j], "got": tuple(S), "want": exp}
        sums[j] = S
    if inp.get("assoc", True):
        for j, Qo in enumerate(objs):
            for Ro in objs:
                if sums[j] + Ro != Po + (Qo + Ro):
                    return {"kind": "associativity", "P": P, "Q": pts[j], "R": tuple(Ro)}
    return None


def chk_toy_scalar(inp):
    """k*P = P added to itself k times for every k in [-2n, 2n]; n*P = O; k*P = (k mod n)*P"""
    p, a, b, n = inp["curve"]
    from pycoin.ecdsa.Curve import Curve
    c = Curve(p, a, b, n)
    pts = [None] + curve_points(p, a, b)
    P = pts[inp["i"]]
    Po = c.infinity() if P is None else c.Point(*P)
    acc = c.infinity()          # repeated addition with the implementation's own +
    racc = None                 # ... and with the reference
    table = {}
    for k in range(0, 2 * n + 1):
        table[k] = (acc, racc)
        acc = acc + Po
        racc = ref_add(p, a, racc, P)
    for k in range(-2 * n, 2 * n + 1):
        got = Po * k
        got2 = k * Po
        acc, racc = table[abs(k)]
        if k < 0:
            acc, racc = -acc, ref_neg(p, racc)
        want = racc if racc is not None else (None, None)
        if tuple(got) != want or tuple(got2) != want or tuple(acc) != want:
            return {"kind": "scalar-vs-repeated-addition", "P": P, "k": k, "got": tuple(got), "want": want, "impl_repeated": tuple(acc)}
        if not c.contains_point(*got):
            return {"kind": "closure", "P": P, "k": k}
    if Po * n != c.infinity():
        return {"kind": "order", "P": P}
    return None


def chk_toy_generator(inp):
    """Generator built through the public constructor: blinded G*k = raw_mul(k) = Curve.multiply(G, k) = reference,
    for every k in [-2n, 2n] and a few huge k, whatever the blinding factor; -G; points_for_x for every x"""
    p, a, b, n = inp["curve"]
    G = tuple(inp["G"])
    from pycoin.ecdsa.Curve import Curve
    g = c02_ops.make_generator(p, a, b, G, n, inp["entropy"])
    c = Curve(p, a, b, n)
    Gp = c.Point(*G)
    ks = list(range(-2 * n, 2 * n + 1)) if inp.get("pfx", True) else list(inp.get("ks", []))
    ks += [0, 1, -1, n - 1, n, n + 1, 2 ** 255 + 7, 2 ** 256 - 1, 2 ** 256, 2 ** 300 + 17, -2 ** 256 - 3]
    for k in ks:
        want = ref_mul(p, a, G, k % n)
        want = want if want is not None else (None, None)
        r1, r2, r3, r4, r5 = g * k, k * g, g.raw_mul(k), g.multiply(g, k), Gp * k
        for nm, r in (("G*k", r1), ("k*G", r2), ("raw_mul", r3), ("multiply(G,k)", r4), ("Point*k", r5)):
            if tuple(r) != want:
                return {"kind": "generator-multiplication", "which": nm, "k": k, "got": tuple(r), "want": want}
    if tuple(-g) != ref_neg(p, G) or (-g) + g != g.infinity():
        return {"kind": "generator-negation"}
    if inp.get("pfx", True):
        for x in range(p):
            ys = sorted(y for (xx, y) in curve_points(p, a, b) if xx == x)
            try:
                r = g.points_for_x(x)
            except ValueError:
                r = None
            if r is None:
                if ys:
                    return {"kind": "points_for_x-missed", "x": x, "ys": ys}
                continue
            got = [tuple(r[0]), tuple(r[1])]
            if sorted(got) != [(x, y) for y in ys] or len(ys) != 2 or got[0][1] & 1 != 0 or got[1][1] & 1 != 1:
                return {"kind": "points_for_x-wrong", "x": x, "got": got, "ys": ys}
    return None


def chk_wide_order(inp):
    """fixed-base multiplication on a curve whose order is wider than 256 bits (secp384r1 through the public
    constructor): G*k must equal Curve.multiply(G, k) for scalars above 2^256"""
    p = 2 ** 384 - 2 ** 128 - 2 ** 96 + 2 ** 32 - 1
    a = p - 3
    b = 0xB3312FA7E23EE7E4988E056BE3F82D19181D9C6EFE8141120314088F5013875AC656398D8A2ED19D2A85C8EDD3EC2AEF
    Gx = 0xAA87CA22BE8B05378EB1C71EF320AD746E1D3B628BA79B9859F741E082542A385502F25DBF55296C3A545E3872760AB7
    Gy = 0x3617DE4A96262C6F5D9E98BF9292DC29F8F41DBD289A147CE9DA3113B5F0B8C00A60B1CE1D7E819D7A431D7C90EA0E5F
    n = 0xFFFFFFFFFFFFFFFFFFFFFFFFFFFFFFFFFFFFFFFFFFFFFFFFC7634D81F4372DDF581A0DB248B0A77AECEC196ACCC52973
    g = c02_ops.make_generator(p, a, b, (Gx, Gy), n, inp["entropy"])
    for k in inp["ks"]:
        want = ref_mul(p, a, (Gx, Gy), k % n)
        want = want if want is not None else (None, None)
        for nm, r in (("G*k", g * k), ("raw_mul", g.raw_mul(k)), ("multiply", g.multiply(g, k))):
            if tuple(r) != want:
                return {"kind": "wide-order-fixed-base", "which": nm, "k": k}
    return None


# production checks: ops evaluated in both configurations, judged against the reference
def prod_check_ops(inp):
    name, kind = inp["curve"], inp["kind"]
    if kind == "add":
        P, Q = inp["P"], inp["Q"]
        return [["add", name, P, Q], ["add", name, Q, P], ["curve_add", name, P, Q], ["neg", name, P], ["sub", name, P, Q]]
    if kind == "assoc":
        P, Q, R = inp["P"], inp["Q"], inp["R"]
        p, a, b, n, G, bits = prod_params(name)
        return [["add", name, ref_add(p, a, P, Q), R], ["add", name, P, ref_add(p, a, Q, R)]]
    if kind == "mul":
        P, k = inp["P"], inp["k"]
        p, a, b, n, G, bits = prod_params(name)
        return [["multiply", name, P, k], ["rmultiply", name, P, k], ["curve_multiply", name, P, k], ["multiply", name, P, k + n],
                ["multiply", name, P, -k], ["multiply", name, P, k % n]]
    if kind == "gen":
        k = inp["k"]
        return [["gmul", name, k], ["rgmul", name, k], ["raw_mul", name, k], ["multiply_self", name, k], ["neg_self", name]]
    if kind == "pfx":
        return [["points_for_x", name, inp["x"]]]
    if kind == "shared":
        return [["shared", name, inp["k"], inp["P"][0], inp["P"][1]]]
    if kind == "present":
        return [op for op, _, _ in present_plan(name, inp.get("P"), inp.get("Q"), [tuple(t) for t in inp.get("scalars", [])], True)]
    if kind == "history":
        return history_ops(name, inp["seed"], inp["ks"], inp["xs"])
    raise KeyError(kind)


def prod_judge(inp, res):
    """res = {config: [results for prod_check_ops(inp)]}"""
    name, kind = inp["curve"], inp["kind"]
    p, a, b, n, G, bits = prod_params(name)
    if kind == "present":
        plan = present_plan(name, inp.get("P"), inp.get("Q"), [tuple(t) for t in inp.get("scalars", [])], True)
        return judge_present(name, plan, res)
    if kind == "history":
        return judge_history(name, inp["ks"], inp["xs"], res, G)
    ro, rn = res["openssl"], res["none"]
    if ro != rn:
        ops = prod_check_ops(inp)
        bad = [i for i in range(len(ro)) if ro[i] != rn[i]]
        return {"kind": "backend-mismatch", "ops": [ops[i][0] for i in bad], "openssl": [ro[i] for i in bad],
                "none": [rn[i] for i in bad]}
    r = ro
    if kind == "add":
        P, Q = inp["P"], inp["Q"]
        P = tuple(P) if P else None
        Q = tuple(Q) if Q else None
        want_pt = ref_add(p, a, P, Q)
        want = cpt(want_pt)
        exact = P is not None and Q is not None      # with an infinite operand the other one is returned as given
        for got in r[:3]:
            if (got != want) if exact else (not same_elt(p, got, want_pt)):
                return {"kind": "add-vs-reference", "got": r[:3], "want": want}
        # -P keeps the x given and returns p - y: equal to the group inverse as an element (coordinates mod p)
        if r[3].startswith("!") or cpt(ref_red(p, _pt(r[3]))) != cpt(ref_neg(p, P)):
            return {"kind": "negation", "got": r[3]}
        if not same_elt(p, r[4], ref_add(p, a, P, ref_neg(p, Q))):
            return {"kind": "subtraction", "got": r[4]}
        if not ref_on(p, a, b, _pt(r[0])):
            return {"kind": "closure"}
        return None
    if kind == "assoc":
        # the inner sums are formed by the reference (reduced); with infinite operands the implementation returns the
        # other operand as given, so the two sides are compared as group elements
        P, Q, R = [tuple(v) if v else None for v in (inp["P"], inp["Q"], inp["R"])]
        want = ref_add(p, a, ref_add(p, a, P, Q), R)
        if not same_elt(p, r[0], want) or not same_elt(p, r[1], want):
            return {"kind": "associativity", "got": r, "want": cpt(want)}
        return None
    if kind == "mul":
        P, k = inp["P"], inp["k"]
        P = tuple(P) if P else None
        want = ref_mul(p, a, P, k)
        wneg = ref_neg(p, want)
        # e mod n = 1 returns P as given (possibly unreduced): compare as group elements
        if not all(same_elt(p, g, want) for g in (r[0], r[1], r[2])):
            return {"kind": "scalar-vs-reference", "got": r[:3], "want": cpt(want)}
        if not same_elt(p, r[3], want) or not same_elt(p, r[5], want):
            return {"kind": "scalar-order-reduction", "got": [r[3], r[5]], "want": cpt(want)}
        if not same_elt(p, r[4], wneg):
            return {"kind": "scalar-negative", "got": r[4], "want": cpt(wneg)}
        return None
    if kind == "gen":
        k = inp["k"]
        want = cpt(ref_mul(p, a, G, k % n))
        for nm, got in zip(("G*k", "k*G", "raw_mul", "multiply(G,k)"), r[:4]):
            if got != want:
                return {"kind": "generator-multiplication", "which": nm, "got": got, "want": want}
        if r[4] != cpt(ref_neg(p, G)):
            return {"kind": "generator-negation", "got": r[4]}
        return None
    if kind == "pfx":
        x = inp["x"]
        alpha = (x ** 3 + a * x + b) % p
        y = pow(alpha, (p + 1) // 4, p)
        exists = (y * y - alpha) % p == 0 and y != 0
        if not exists:
            if alpha == 0:
                return {"kind": "points_for_x-two-torsion", "x": x}
            return None if r[0] in ("!E_VALUE", "!E_NOPOINT") else {"kind": "points_for_x-invented", "x": x, "got": r[0]}
        ys = sorted([y, p - y], key=lambda v: v & 1)
        want = "(%s %s)" % (cpt((x, ys[0])), cpt((x, ys[1])))
        return None if r[0] == want else {"kind": "points_for_x-wrong", "x": x, "got": r[0], "want": want}
    if kind == "shared":
        want = cpt(ref_mul(p, a, tuple(inp["P"]), inp["k"]))
        return None if r[0] == want else {"kind": "shared-key", "got": r[0], "want": want}
    raise KeyError(kind)


def prod_prop_inputs(rng, tier):
    inputs = []
    nscal = 3 if tier == "quick" else 40
    for name in PROD:
        p, a, b, n, G, bits = prod_params(name)
        pp = prod_points(name, rng)
        Q, R = pp["Q"], pp["R"]
        rnd = [ref_mul(p, a, G, rng.getrandbits(256)) for _ in range(4 if tier == "quick" else 24)]
        Gu = (G[0] + p, G[1] - p)
        pts = [G, Q, R, Gu, None] + rnd
        for P in pts:
            for S in [P, ref_neg(p, P), None, G, Q] + [rnd[rng.randrange(len(rnd))]]:
                inputs.append({"curve": name, "kind": "add", "P": P, "Q": S})
        for _ in range(5 if tier == "quick" else 40):
            P, S, T = [pts[rng.randrange(len(pts))] for _ in range(3)]
            inputs.append({"curve": name, "kind": "assoc", "P": P, "Q": S, "R": T})
        # structured scalars: 3k just below / at / above a power of two (the ladder works on the bits of 3k), alternating bit patterns
        struct_scal = [(1 << j) // 3 for j in (49, 53, 54, 64, 128, 255, 256)] + [((1 << j) // 3) + 1 for j in (54, 256)] + \
                      [int("55" * 32, 16), int("aa" * 32, 16), (1 << 255) - 1, pow(3, -1, n)]
        scal = [0, 1, 2, n - 1, n, n + 1, -1, 2 ** 256 - 1, 2 ** 256, 3 * n + 7] + struct_scal + [rng.getrandbits(256) for _ in range(nscal)] + \
               [rng.getrandbits(rng.choice([8, 64, 128, 255, 300, 520])) for _ in range(nscal)]
        for k in scal:
            for P in ([G, Q] if tier == "quick" else [G, Q, R, Gu, rnd[0]]):
                inputs.append({"curve": name, "kind": "mul", "P": P, "k": k})
            inputs.append({"curve": name, "kind": "gen", "k": k})
            inputs.append({"curve": name, "kind": "gen", "k": -k})
        inputs.append({"curve": name, "kind": "mul", "P": None, "k": 5})
        inputs.append({"curve": name, "kind": "mul", "P": (G[0] + p, G[1]), "k": 1})
        inputs.append({"curve": name, "kind": "mul", "P": (G[0], G[1] - p), "k": 2})
        inputs.append({"curve": name, "kind": "mul", "P": (G[0] - p, G[1]), "k": 3})
        inputs.append({"curve": name, "kind": "mul", "P": (G[0] + 2 * p, G[1] + p), "k": n + 1})
        for x in [G[0], Q[0], 0, 1, 2, 3, 4, 5, p - 1] + [rng.getrandbits(255) for _ in range(20 if tier == "quick" else 300)]:
            inputs.append({"curve": name, "kind": "pfx", "x": x})
        for _ in range(3 if tier == "quick" else 30):
            inputs.append({"curve": name, "kind": "shared", "k": rng.getrandbits(256), "P": rnd[rng.randrange(len(rnd))]})
        # presentations of the operands (which object stands for infinity / for a point / for a scalar)
        for j, (P, S) in enumerate([(None, None), (Q, None), (None, G), (G, G), (Q, ref_neg(p, Q)), (G, Q)] +
                                   ([] if tier == "quick" else [(R, None), (None, R), (R, Q)])):
            inputs.append({"curve": name, "kind": "present", "P": P, "Q": S,
                           "scalars": [list(t) for t in (SCALAR_PRES[:7] + [(-1, 1)] if j < 2 else [])]})
        for j in range(1 if tier == "quick" else 6):
            inputs.append({"curve": name, "kind": "history", "seed": rng.getrandbits(32),
                           "ks": [5, -1, rng.getrandbits(256), n + 2], "xs": [G[0], 5]})
        # a second generator H = h*G of the same group, as an instance of the shipped generator's own (accelerated) class:
        # H*k, k*H, raw_mul and Curve.multiply must all be k*H, in every configuration
        if name in ("secp256k1", "secp256r1"):
            for h in ([7] if tier == "quick" else [2, 7, n - 1, rng.getrandbits(255) | 1]):
                H = ref_mul(p, a, G, h)
                desc = ["accgen", name, H[0], H[1], rng.getrandbits(200)]
                for k in [0, 1, 2, n - 1, n, n + 1, -1, rng.getrandbits(256)] + [rng.getrandbits(256) for _ in range(0 if tier == "quick" else 6)]:
                    inputs.append({"curve": desc, "kind": "gen", "k": k})
                inputs.append({"curve": desc, "kind": "mul", "P": H, "k": rng.getrandbits(256)})
                inputs.append({"curve": desc, "kind": "mul", "P": G, "k": rng.getrandbits(256)})
                inputs.append({"curve": desc, "kind": "add", "P": H, "Q": G})
    return inputs


# ---- presentation independence: which Python object stands for a point or a scalar ---------------------------------
NPRES = len(c02_ops.PRESENTATIONS)
SCALAR_PRES = [(0, 0), (0, 2), (1, 0), (1, 2), (1, 1), (2, 1), (5, 0), (-1, 0), (-3, 1)]


def desc_params(desc):
    """(p, a, n) of a curve descriptor"""
    if isinstance(desc, str):
        p, a, b, n, G, bits = prod_params(desc)
        return p, a, n
    if desc[0] == "curve":
        return desc[1], desc[2], desc[4]
    return desc[1], desc[2], desc[6]


def present_plan(desc, P, Q, scalars, light=False):
    """[(op, wanted element, group)] : the same operation under every combination of operand presentations.
    `group` identifies the logical operation: all members of a group must return the same coordinates."""
    p, a, n = desc_params(desc)
    P = tuple(P) if P else None
    Q = tuple(Q) if Q else None
    red = (lambda k: k % n) if n else (lambda k: k)
    plan = []
    kinds = range(NPRES)
    for kP in kinds:
        for kQ in kinds:
            plan.append((["p_add", desc, P, kP, Q, kQ], ref_add(p, a, P, Q), "add"))
            plan.append((["p_sub", desc, P, kP, Q, kQ], ref_add(p, a, P, ref_neg(p, Q)), "sub"))
            if not light or kP == kQ or kP == 0 or kQ == 0:
                plan.append((["p_cadd", desc, P, kP, Q, kQ], ref_add(p, a, P, Q), "cadd"))
        plan.append((["p_neg", desc, P, kP], ref_neg(p, P), "neg"))
        for (e, ks) in scalars:
            if not n and e < 0:
                continue            # a curve object without order refuses negative scalars (AssertionError, see the theorems)
            want = ref_mul(p, a, P, red(e))
            plan.append((["p_mul", desc, P, kP, e, ks], want, "mul%d" % e))
            plan.append((["p_rmul", desc, P, kP, e, ks], want, "mul%d" % e))
            plan.append((["p_cmul", desc, P, kP, e, ks], want, "mul%d" % e))
    return plan


def judge_present(desc, plan, res):
    """res = {config: [result per plan entry]}"""
    p, a, n = desc_params(desc)
    first = {}
    for cfg, rs in res.items():
        for (op, want, grp), got in zip(plan, rs):
            if not same_elt(p, got, want):
                return {"kind": "presentation-dependent", "config": cfg, "op": op[0],
                        "presentations": [c02_ops.PRESENTATIONS[k] for k in ([op[3]] + ([op[5]] if op[0] in ("p_add", "p_sub", "p_cadd") else []))],
                        "scalar_presentation": op[5] if op[0] in ("p_mul", "p_rmul", "p_cmul") else None,
                        "got": got, "want": cpt(want)}
            if first.setdefault(grp, got) != got:
                return {"kind": "presentation-dependent-coordinates", "config": cfg, "op": op[0], "got": got, "other": first[grp]}
    return None


def chk_present(inp):
    desc = inp["curve"] if isinstance(inp["curve"], str) else list(inp["curve"])
    plan = present_plan(desc, inp.get("P"), inp.get("Q"), [tuple(t) for t in inp.get("scalars", [])], inp.get("light", False))
    ops = [op for op, _, _ in plan]
    if isinstance(desc, str):
        res = run_workers(ops)
    else:
        res = {"inproc": [run_op(op) for op in ops]}
    return judge_present(desc, plan, res)


def chk_xcurve(inp):
    """operands living on two curve objects with different parameters: the left operand's curve does the arithmetic;
    the outcome is a point of the left curve equal to the reference sum, or an exception - never a point off that curve"""
    A, B = list(inp["A"]), list(inp["B"])
    P = tuple(inp["P"]) if inp["P"] else None
    Q = tuple(inp["Q"]) if inp["Q"] else None
    got = run_op(["x_add", A, P, B, Q])
    p, a, b = A[1], A[2], A[3]
    if got.startswith("!"):
        return None if got in ("!E_NOPOINT", "!E_ASSERT") else {"kind": "mixed-curves-unexpected-exception", "got": got}
    R = _pt(got)
    if R is not None and P is not None and Q is not None and not ref_on(p, a, b, R):
        return {"kind": "mixed-curves-off-curve-result", "got": got}
    if Q is None and not same_elt(p, got, P):
        return {"kind": "mixed-curves-identity", "got": got}
    return None


# ---- history independence: observers of a generator object before / after other calls ------------------------------
def history_ops(desc, seed, ks, xs):
    return [["history", desc, seed, ks, xs]]


def judge_history(desc, ks, xs, res, G):
    p, a, n = desc_params(desc)
    ref_obs = None
    for cfg, rs in res.items():
        if rs[0].startswith("!"):
            return {"kind": "history-raised", "config": cfg, "got": rs[0]}
        b_obs, b_state, a_obs, a_state = json.loads(rs[0])
        if b_obs != a_obs:
            bad = [i for i in range(len(b_obs)) if b_obs[i] != a_obs[i]]
            return {"kind": "history-dependent-result", "config": cfg, "index": bad[0], "before": b_obs[bad[0]], "after": a_obs[bad[0]]}
        if b_state != a_state:
            bad = [i for i in range(len(b_state)) if b_state[i] != a_state[i]]
            return {"kind": "object-state-changed", "config": cfg, "field": bad[0], "before": b_state[bad[0]][:120], "after": a_state[bad[0]][:120]}
        for i, k in enumerate(ks):
            if not same_elt(p, b_obs[i], ref_mul(p, a, G, k % n)) or b_obs[i] != cpt(ref_mul(p, a, G, k % n)):
                return {"kind": "generator-multiplication", "config": cfg, "k": k, "got": b_obs[i]}
        if ref_obs is None:
            ref_obs = b_obs
        elif ref_obs != b_obs:
            return {"kind": "backend-mismatch", "what": "history observations"}
    return None


def chk_history(inp):
    desc = inp["curve"] if isinstance(inp["curve"], str) else list(inp["curve"])
    ks, xs = inp["ks"], inp["xs"]
    ops = history_ops(desc, inp["seed"], ks, xs)
    if isinstance(desc, str):
        res = run_workers(ops)
        G = prod_params(desc)[4]
    else:
        res = {"inproc": [run_op(op) for op in ops]}
        G = (desc[4], desc[5])
        # a fresh object with another blinding factor observes the same values
        fresh = list(desc)
        fresh[7] = desc[7] + 12345
        res["fresh-object"] = [run_op(["history", fresh, 0, ks, xs])]
    return judge_history(desc, ks, xs, res, G)


def chk_entropy(inp):
    """entropy_f may return any bytes-like object"""
    p, a, b, n = inp["curve"]
    G = inp["G"]
    want = run_op(["mk_gen", p, a, b, G[0], G[1], n, inp["entropy"]])
    for kind in ("bytes", "bytearray", "memoryview"):
        got = run_op(["mk_gen_bytes", p, a, b, G[0], G[1], n, inp["entropy"], kind])
        if got.startswith("!") or not got.startswith(want[:-1]):
            return {"kind": "entropy-presentation", "entropy_f_returns": kind, "got": got, "want_prefix": want}
    return None


def order_ops(rng):
    """a short mixed batch over the three shipped curves: executed in one interpreter in this order and reversed"""
    ops = []
    for name in PROD:
        p, a, b, n, G, bits = prod_params(name)
        Q = ref_mul(p, a, G, 77)
        ops += [["gmul", name, 5], ["multiply", name, Q, 3], ["add", name, G, Q], ["raw_mul", name, -2], ["neg", name, Q],
                ["points_for_x", name, G[0]], ["p_add", name, Q, 0, None, 1], ["p_add", name, None, 5, Q, 3],
                ["multiply", name, Q, n + 2], ["gmul", name, rng.getrandbits(64)]]
    rng.shuffle(ops)
    return ops


def chk_order(inp):
    """module-level state (native library handles, per-class OpenSSL groups, cached objects): the same calls give the
    same answers in either order of execution"""
    ops = inp["ops"]
    fwd = run_workers(ops, split=False)
    rev = run_workers(list(reversed(ops)), split=False)
    for cfg in fwd:
        r2 = list(reversed(rev[cfg]))
        for i, op in enumerate(ops):
            if fwd[cfg][i] != r2[i]:
                return {"kind": "order-dependent", "config": cfg, "op": op[:2], "forward": fwd[cfg][i][:150], "reversed": r2[i][:150]}
    if fwd["openssl"] != fwd["none"]:
        bad = [i for i in range(len(ops)) if fwd["openssl"][i] != fwd["none"][i]]
        return {"kind": "backend-mismatch", "op": ops[bad[0]][:2], "openssl": fwd["openssl"][bad[0]][:150], "none": fwd["none"][bad[0]][:150]}
    return None


def present_pairs(pts, p, a, rng):
    P = pts[rng.randrange(len(pts))]
    Q = pts[rng.randrange(len(pts))]
    return [(None, None), (P, None), (None, P), (P, P), (P, ref_neg(p, P)), (P, Q)]


def chk_prod(inp):
    ops = prod_check_ops(inp)
    return prod_judge(inp, run_workers(ops))


def toy_prop_inputs(rng, tier):
    res = []
    sel = toy_selection(rng, tier)
    seen_p = set()
    for (p, a, b, n) in sel:
        npts = len(curve_points(p, a, b)) + 1
        assoc_all = p <= (23 if tier == "quick" else 47)
        for i in range(npts):
            res.append(("toy_group", {"curve": [p, a, b, n], "i": i, "assoc": assoc_all or i < 4}))
        idx = range(npts) if (p <= 23 or (tier == "thorough" and p <= 47)) else \
            [0] + rng.sample(range(1, npts), 5 if tier == "quick" else 10)
        for i in idx:
            res.append(("toy_scalar", {"curve": [p, a, b, n], "i": i}))
        pts = curve_points(p, a, b)
        first = p not in seen_p
        seen_p.add(p)
        for j, ent in enumerate(ENTROPIES if (first or tier == "thorough") else ENTROPIES[:1]):
            G = pts[rng.randrange(len(pts))]
            res.append(("toy_generator", {"curve": [p, a, b, n], "G": list(G), "entropy": ent, "pfx": j == 0,
                                          "ks": [rng.randrange(-2 * n, 2 * n + 1) for _ in range(6 if tier == "quick" else 60)]}))
        # presentation / history / mixed-curve families
        G = pts[rng.randrange(len(pts))]
        descs = [["gen", p, a, b, G[0], G[1], n, 7], ["curve", p, a, b, n]] + ([["curve", p, a, b, None]] if first else [])
        for desc in (descs if (first or tier == "thorough") else descs[:1]):
            for j, (P, S) in enumerate(present_pairs(pts, p, a, rng)):
                res.append(("present", {"curve": desc, "P": P, "Q": S, "light": not first,
                                        "scalars": [list(t) for t in SCALAR_PRES + [(n + 1, 1), (2 * n, 0)]] if j < 3 else []}))
        for j in range(2 if (first or tier == "thorough") else 1):
            res.append(("history", {"curve": ["gen", p, a, b, G[0], G[1], n, rng.getrandbits(256)], "seed": rng.getrandbits(32),
                                    "ks": [5, -1, rng.randrange(-2 * n, 2 * n), n + 2, rng.getrandbits(300)],
                                    "xs": [G[0], rng.randrange(p), rng.randrange(p)]}))
        if first:
            res.append(("entropy", {"curve": [p, a, b, n], "G": list(G), "entropy": rng.getrandbits(256)}))
            others = [c for c in sel if (c[0], c[1], c[2]) != (p, a, b)]
            for (p2, a2, b2, n2) in rng.sample(others, min(3, len(others))):
                pts2 = curve_points(p2, a2, b2)
                for P in [None] + rng.sample(pts, min(3, len(pts))):
                    for S in [None] + rng.sample(pts2, min(3, len(pts2))):
                        res.append(("xcurve", {"A": ["curve", p, a, b, n], "B": ["curve", p2, a2, b2, n2], "P": P, "Q": S}))
    return res


CHECKS = {"toy_group": chk_toy_group, "toy_scalar": chk_toy_scalar, "toy_generator": chk_toy_generator,
          "wide_order": chk_wide_order, "prod": chk_prod, "present": chk_present, "history": chk_history,
          "entropy": chk_entropy, "xcurve": chk_xcurve, "order": chk_order}


def prop_cases(rng, tier):
    for name, inp in toy_prop_inputs(rng, tier):
        yield PropCase(name, inp, (lambda name=name, inp=inp: CHECKS[name](inp)))
    wide = {"entropy": 2 ** 200 + 5, "ks": [2 ** 300 + 17, 2 ** 383, -1, 2 ** 256, rng.getrandbits(384)]}
    yield PropCase("wide_order", wide, (lambda: chk_wide_order(wide)))
    for j in range(1 if tier == "quick" else 4):
        oinp = {"ops": order_ops(rng)}
        yield PropCase("order", oinp, (lambda oinp=oinp: chk_order(oinp)))
    # production curves: one batch per configuration
    inputs = prod_prop_inputs(rng, tier)
    ops, spans = [], []
    for inp in inputs:
        o = prod_check_ops(inp)
        spans.append((len(ops), len(ops) + len(o)))
        ops += o
    out = run_workers(ops)
    for inp, (s, e) in zip(inputs, spans):
        res = {cfg: out[cfg][s:e] for cfg in out}
        yield PropCase("prod", inp, (lambda inp=inp, res=res: prod_judge(inp, res)))


def replay_input(check, inp):
    f = CHECKS.get(check)
    if f is None:
        return {"kind": "unknown-check"}
    return f(inp)


def classify(pc, r):
    """no open finding: the two defects found while building this check (pure-Python multiply returned an unreduced
    operand for scalars = 1 mod n; OpenSSL multiply leaked the sign of a negative input coordinate) are fixed in /repo
    (bbdd27a, bc79bbc) and their inputs stay in the generators as regression cases"""
    return None


KNOWN_REPLAYS = {}


def search(rng, tier, disagreements, known_ids):
    """after a proof/correspondence break: look for an input on which the property itself fails.
    1. neighbourhood of the disagreeing driver lines (same curve, same operands), 2. the generic generator."""
    cands = []

    def iv(t):
        return -int(t[2:], 16) if t.startswith("i-") else int(t[1:], 16)

    def ptv(t):
        t = t.strip("[]")
        return None if not t else [iv(x) for x in t.split(",")]
    seen = set()
    for d in disagreements[:40]:
        toks = d["case"].split(" ")
        fn = toks[0]
        try:
            if fn in ("add", "sub", "neg", "multiply", "raw_mul", "gmul", "points_for_x", "shared", "modular_sqrt", "mk_gen"):
                if fn == "mk_gen":
                    p, a, b, n = iv(toks[1]), iv(toks[2]), iv(toks[3]), iv(toks[6])
                else:
                    p, a, b, n = [iv(t) for t in toks[1:5]]
                prod = [nm for nm in PROD if prod_params(nm)[0] == p]
                if prod:
                    nm = prod[0]
                    if fn in ("add", "sub"):
                        cands.append(("prod", {"curve": nm, "kind": "add", "P": ptv(toks[5]), "Q": ptv(toks[6])}))
                    elif fn == "multiply":
                        cands.append(("prod", {"curve": nm, "kind": "mul", "P": ptv(toks[5]), "k": iv(toks[6])}))
                    elif fn in ("raw_mul", "gmul"):
                        cands.append(("prod", {"curve": nm, "kind": "gen", "k": iv(toks[8])}))
                    elif fn == "points_for_x":
                        cands.append(("prod", {"curve": nm, "kind": "pfx", "x": iv(toks[8])}))
                    elif fn == "shared":
                        cands.append(("prod", {"curve": nm, "kind": "shared", "k": iv(toks[8]), "P": [iv(toks[9]), iv(toks[10])]}))
                elif p > 3 and _is_prime(p) and (4 * a ** 3 + 27 * b * b) % p and _is_prime(len(curve_points(p, a, b)) + 1) \
                        and n == len(curve_points(p, a, b)) + 1 and (p, a, b) not in seen:
                    seen.add((p, a, b))
                    pts = curve_points(p, a, b)
                    for i in range(len(pts) + 1):
                        cands.append(("toy_group", {"curve": [p, a, b, n], "i": i, "assoc": p <= 47}))
                        cands.append(("toy_scalar", {"curve": [p, a, b, n], "i": i}))
                    if p % 4 == 3:
                        for ent in ENTROPIES[:3]:
                            cands.append(("toy_generator", {"curve": [p, a, b, n], "G": list(pts[0]), "entropy": ent, "pfx": True}))
        except Exception:
            pass
    for d in disagreements[:40]:
        toks = d["case"].split(" ")
        fn = toks[0]
        try:
            if fn in ("oadd", "osub", "ocadd", "oneg", "omul", "ocmul", "xadd"):
                p, a, b, n = [iv(t) for t in toks[1:5]]
                prod = [nm for nm in PROD if prod_params(nm)[0] == p]
                desc = prod[0] if prod else ["curve", p, a, b, n or None]
                if fn == "xadd":
                    cands.append(("xcurve", {"A": desc, "P": ptv(toks[5]), "B": ["curve"] + [iv(t) for t in toks[6:10]], "Q": ptv(toks[10])}))
                    continue
                P = ptv(toks[6])
                Q = ptv(toks[8]) if fn in ("oadd", "osub", "ocadd") else None
                sc = [[iv(toks[7]), 0], [iv(toks[7]), 1]] if fn in ("omul", "ocmul") else [[0, 2], [1, 2], [2, 1]]
                cands.append(("present", {"curve": desc, "P": P, "Q": Q, "scalars": sc}))
                cands.append(("present", {"curve": desc, "P": None, "Q": P or Q, "scalars": []}))
        except Exception:
            pass
    for name, inp in cands:
        try:
            r = CHECKS[name](inp)
        except Exception as e:
            r = {"kind": "raises", "detail": "%s: %s" % (type(e).__name__, e)}
        if r is not None and classify(PropCase(name, inp, None), r) not in known_ids:
            return {"check": name, "input": inp, "failure": r}
    for pc in prop_cases(rng, tier):
        try:
            r = pc.thunk()
        except Exception as e:
            r = {"kind": "raises", "detail": "%s: %s" % (type(e).__name__, e)}
        if r is not None and classify(pc, r) not in known_ids:
            return {"check": pc.name, "input": pc.inp, "failure": r}
    return None
