"""c01_ec.py — reference arithmetic for the C01 harness, independent of pycoin:
affine curve arithmetic with Python's pow(x, -1, p), textbook ECDSA, RFC 6979 with Python's hmac,
and the table of toy curves (prime order, p % 4 == 3) used by the correspondence run."""
import hmac as _hmac, hashlib, math


def is_prime(n):
    if n < 2:
        return False
    if n % 2 == 0:
        return n == 2
    if n < 1 << 20:
        i = 3
        while i * i <= n:
            if n % i == 0:
                return False
            i += 2
        return True
    # deterministic Miller-Rabin for n < 3.3e24
    d, s = n - 1, 0
    while d % 2 == 0:
        d //= 2
        s += 1
    for a in (2, 3, 5, 7, 11, 13, 17, 19, 23, 29, 31, 37, 41):
        if a % n == 0:
            continue
        x = pow(a, d, n)
        if x in (1, n - 1):
            continue
        for _ in range(s - 1):
            x = x * x % n
            if x == n - 1:
                break
        else:
            return False
    return True


class RefCurve:
    """y^2 = x^3 + a x + b over Z_p, generator g of prime order n; points are (x, y) or None"""

    def __init__(self, p, a, b, g, n):
        self.p, self.a, self.b, self.g, self.n = p, a, b, g, n

    def params(self):
        return (self.p, self.a, self.b, self.g[0], self.g[1], self.n)

    def on_curve(self, P):
        if P is None:
            return True
        x, y = P
        return 0 <= x < self.p and 0 <= y < self.p and (y * y - (x * x * x + self.a * x + self.b)) % self.p == 0

    def add(self, P, Q):
        p = self.p
        if P is None:
            return Q
        if Q is None:
            return P
        if P[0] == Q[0]:
            if (P[1] + Q[1]) % p == 0:
                return None
            lam = (3 * P[0] * P[0] + self.a) * pow(2 * P[1], -1, p) % p
        else:
            lam = (Q[1] - P[1]) * pow(Q[0] - P[0], -1, p) % p
        x = (lam * lam - P[0] - Q[0]) % p
        return (x, (lam * (P[0] - x) - P[1]) % p)

    def neg(self, P):
        return None if P is None else (P[0], (-P[1]) % self.p)

    def mul(self, e, P):
        e %= self.n
        R = None
        while e:
            if e & 1:
                R = self.add(R, P)
            P = self.add(P, P)
            e >>= 1
        return R

    def mul_any(self, e, P):
        """scalar multiplication without reducing e (used while the order is still unknown)"""
        R = None
        while e:
            if e & 1:
                R = self.add(R, P)
            P = self.add(P, P)
            e >>= 1
        return R

    # ---- textbook ECDSA -----------------------------------------------------------------------
    def sig_from_nonce(self, d, z, k):
        """(r, s, recid, x) for nonce k, or None when r or s is zero or k*G is infinity"""
        n = self.n
        R = self.mul(k, self.g)
        if R is None:
            return None
        r = R[0] % n
        s = pow(k, -1, n) * (z + r * d) % n
        if r == 0 or s == 0:
            return None
        return (r, s, (R[1] & 1) + (2 if R[0] > n else 0))

    def verify(self, Q, z, r, s):
        """the textbook predicate; Q a canonical curve point or None (infinity)"""
        n = self.n
        if not (1 <= r < n and 1 <= s < n):
            return False
        w = pow(s, -1, n)
        R = self.add(self.mul(z * w, self.g), self.mul(r * w, Q))
        return R is not None and R[0] % n == r

    def points_with_x(self, x):
        p = self.p
        if not 0 <= x < p:
            return []
        al = (x * x * x + self.a * x + self.b) % p
        y = pow(al, (p + 1) // 4, p)
        if y * y % p != al:
            return []
        return sorted({(x, y), (x, (p - y) % p)}, key=lambda P: P[1] & 1)


def rfc6979_k(n, d, z_octets, hashf=hashlib.sha256):
    """RFC 6979 section 3.2 with h1 = z_octets (the hash, as octets), written from the RFC"""
    qlen = n.bit_length()
    rolen = (qlen + 7) // 8

    def bits2int(b):
        v = int.from_bytes(b, "big")
        blen = 8 * len(b)
        return v >> (blen - qlen) if blen > qlen else v

    def int2octets(v):
        return v.to_bytes(rolen, "big")

    h1 = int2octets(bits2int(z_octets) % n)
    hlen = hashf().digest_size
    V = b"\x01" * hlen
    K = b"\x00" * hlen
    K = _hmac.new(K, V + b"\x00" + int2octets(d) + h1, hashf).digest()
    V = _hmac.new(K, V, hashf).digest()
    K = _hmac.new(K, V + b"\x01" + int2octets(d) + h1, hashf).digest()
    V = _hmac.new(K, V, hashf).digest()
    while True:
        T = b""
        while 8 * len(T) < qlen:
            V = _hmac.new(K, V, hashf).digest()
            T += V
        k = bits2int(T)
        if 1 <= k <= n - 1:
            return k
        K = _hmac.new(K, V + b"\x00", hashf).digest()
        V = _hmac.new(K, V, hashf).digest()


# ---- toy curves -------------------------------------------------------------------------------
def small_toy_curves(pmax=50):
    """one curve per (p, n): p prime, p % 4 == 3, group order n prime >= 5, by exhaustive point counting"""
    seen = {}
    for p in range(7, pmax):
        if not is_prime(p) or p % 4 != 3:
            continue
        sq = {}
        for y in range(p):
            sq.setdefault(y * y % p, []).append(y)
        for a in range(p):
            for b in range(p):
                if (4 * a ** 3 + 27 * b * b) % p == 0:
                    continue
                pts = [(x, y) for x in range(p) for y in sq.get((x ** 3 + a * x + b) % p, [])]
                n = len(pts) + 1
                if n >= 5 and is_prime(n) and (p, n) not in seen:
                    seen[(p, n)] = RefCurve(p, a, b, min(pts), n)
    return [seen[k] for k in sorted(seen)]


# larger toy curves, found offline by find_curve() below; validated at import by check_curve()
BIG_TOY = [
    (239, 30, 111, 169, 102, 263),
    (883, 218, 726, 294, 241, 863),
    (3583, 608, 2957, 2292, 3507, 3617),
    (64567, 38290, 24864, 60401, 37186, 64969),
    (61979, 55201, 12652, 5914, 28876, 62191),
    (1019563, 98795, 794106, 936156, 782664, 1019503),
    (14338439, 8685613, 11093627, 10319429, 11785755, 14338921),
    (1677235327, 332166388, 588146184, 1233698547, 951263358, 1677189733),
    (2141583071, 2070302697, 1162649932, 1727167461, 456051804, 2141509267),
    (1018102972603, 801059791319, 509006868996, 844012330868, 406175336464, 1018104421811),
    (220072243287739, 28544847358759, 73488770209269, 169493981226048, 172758128505844, 220072257895949),
    (2305843009213236811, 175514454866653487, 1675378334627793104, 88473427855746210, 782727195059359104,
     2305843009264825729),
]


def check_curve(c):
    p, n = c.p, c.n
    lo, hi = p + 1 - 2 * math.isqrt(p) - 2, p + 1 + 2 * math.isqrt(p) + 2
    ok = (is_prime(p) and p % 4 == 3 and is_prime(n) and lo <= n <= hi and c.on_curve(c.g) and c.g is not None
          and (4 * c.a ** 3 + 27 * c.b ** 2) % p != 0 and c.mul_any(n, c.g) is None)
    # n prime, n*G = O, G != O: G has order n; the group order is a multiple of n inside the Hasse
    # interval; 2n is outside it as soon as n > 4*sqrt(p) + 2
    return ok and (p < 50 or 2 * n > hi)


def find_curve(p, rng):
    """a curve of prime order over Z_p (p % 4 == 3): random (a, b), order by baby-step/giant-step in the Hasse interval"""
    assert is_prime(p) and p % 4 == 3
    while True:
        a, b = rng.randrange(p), rng.randrange(1, p)
        if (4 * a ** 3 + 27 * b * b) % p == 0:
            continue
        c = RefCurve(p, a, b, None, 0)
        # a point
        while True:
            x = rng.randrange(p)
            al = (x ** 3 + a * x + b) % p
            y = pow(al, (p + 1) // 4, p)
            if y and y * y % p == al:
                break
        P = (x, y)
        w = 2 * math.isqrt(p) + 2
        lo = p + 1 - w
        m = math.isqrt(2 * w) + 1
        baby = {}
        R = None
        for j in range(m + 1):
            baby.setdefault(R, j)
            R = c.add(R, P)
        Q = c.mul_any(lo, P)
        step = c.mul_any(m, P)
        cands = []
        cur = Q
        for i in range(2 * w // m + 2):
            # lo + i*m + j with (lo+i*m)P = -jP
            t = c.neg(cur)
            if t in baby:
                cands.append(lo + i * m + baby[t])
            cur = c.add(cur, step)
        cands = [k for k in set(cands) if lo <= k <= p + 1 + w]
        if len(cands) == 1 and is_prime(cands[0]):
            cand = RefCurve(p, a, b, P, cands[0])
            if check_curve(cand):
                return cand


def big_toy_curves():
    cs = [RefCurve(p, a, b, (gx, gy), n) for (p, a, b, gx, gy, n) in BIG_TOY]
    for c in cs:
        if not check_curve(c):
            raise RuntimeError("toy curve table entry is not a prime-order curve: %r" % (c.params(),))
    return cs
