"""C17, armoured text form (signature_template / parse_sections / parse_signed_message): correspondence generators
and direct round-trip checks.  A str travels to the driver as 'u' + hex of its UTF-32-BE encoding."""
from common import *
from pycoin.contrib.msg_signing import MessageSigner

KNOWN_REPLAYS = {}


def U(s: str) -> str:
    return "u" + s.encode("utf-32-be", "surrogatepass").hex()


def _ucall(f, *a):
    try:
        r = f(*a)
    except Exception as e:
        return "!" + exn_tag(e)
    if isinstance(r, tuple):
        return "(" + " ".join(U(x) for x in r) + ")"
    return U(r)


BEGIN = "-----BEGIN BITCOIN SIGNED MESSAGE-----"
SIGM = "-----BEGIN SIGNATURE-----"
END = "-----END BITCOIN SIGNED MESSAGE-----"
ADDR = "1BoatSLRHtKNngkdXEeobR76b53LETtpyT"
SIG = "IMFV6wZUz1hALmrO1I1nyjhLo2lAXANit4a2oRaDR3+M7BfGGWyK76PXCJaZxov+ygGkyv9yCML5ZQj+W0MFycI="

LINE_POOL = [BEGIN, SIGM, END, ADDR, SIG, "", "hello", "-----BEGIN BITCOIN SIGNATURE-----", "-----BEGIN  SIGNATURE-----",
             "-----BEGIN signature-----", "-----BEGIN SIGNATUREX-----", "-----BEGIN XSIGNATURE-----", "-----BEGIN SIGNATURE SIGNATURE-----",
             "-----BEGIN SIGNATURE----", "Address: " + ADDR, "address:" + ADDR + ":x", "ADDRESS : " + ADDR, "Comment: hi", "Version: 1:2",
             "  " + ADDR + "\t", " " + SIG + " ", "-----END", "x-----END", "SIGNED MESSAGE-----", "junk SIGNED MESSAGE-----", ":",
             "Address:", "a:b:c", "\x1f", "\x85", "ſ", "Kddress: x", "Aıddress: x", "-----BEGIN SIGNATURE-----x", " " + SIGM,
             SIGM + " ", "tail\r", "\r", "-----BEGIN SIGNED MESSAGE-----", END + "\r"]


MULTIBIT = """

-----BEGIN BITCOIN SIGNED MESSAGE-----
This is an example of a signed message.
-----BEGIN BITCOIN SIGNATURE-----
Version: Bitcoin-qt (1.0)
Address: 1HZwkjkeaoZfTSaJxDw6aKkxp45agDiEzN

HCT1esk/TWlF/o9UNzLDANqsPXntkMErf7erIrjH5IBOZP98cNcmWmnW0GpSAi3wbr6CwpUAN4ctNn1T71UBwSc=
-----END BITCOIN SIGNATURE-----

"""


def _texts(rng, tier):
    quick = tier == "quick"
    out = [MULTIBIT, MULTIBIT.replace("\n", "\r\n"), MULTIBIT.replace("Address:", "ADDRESS :"), MULTIBIT.replace("Address: ", "Address:\t"),
           MULTIBIT.replace("Address", "Adress"), MULTIBIT.replace("Version", "Address"), "Username: x\nURL: y\n" + MULTIBIT]
    t = MessageSigner.signature_template
    for msg in ["hello", "", "two\nlines", "a\r\nb", "a\r\nb\nc", "tr\r", "\n", "x\n" + SIGM, SIGM + "\ny", "x\n" + SIGM + "\ny",
                "x\n" + SIGM + "\n" + SIGM + "\ny", "é€\U0001f600", "Address: foo", "-----END", BEGIN + "\nin\n" + SIGM + "\n" + ADDR + "\n" + SIG + "\n" + END]:
        for addr in [ADDR, "", "Address: " + ADDR, SIG]:
            base = t.format(msg=msg, addr=addr, sig=SIG, net_name="BITCOIN")
            out += [base, base.replace("\n", "\r\n"), "junk\n" + base, base + "\n", base + "\ntrailing", base.replace(END, ""),
                    base.replace("\n" + END, ""), base.replace(SIGM, "-----BEGIN BITCOIN SIGNATURE-----"), base.replace(ADDR + "\n", ""),
                    base.replace(ADDR, "Comment: x\n" + ADDR), base.replace(ADDR, "Comment: x\nAddress: " + ADDR + "\nmore")]
    for m in exotic_messages(rng, 60 if quick else 2000) + mixed_messages(rng, 30 if quick else 1000):
        base = t.format(msg=m, addr=ADDR, sig=SIG, net_name="BITCOIN")
        out += [base, t.format(msg=m.replace("\n", "\r\n"), addr=ADDR, sig=SIG, net_name="BITCOIN"), base.replace("\n", "\r\n")]
    small = [BEGIN, SIGM, END, ADDR, SIG, "", "m", "Address: a"]
    cur = [[]]
    for _ in range(4 if quick else 5):
        cur = [c + [l] for c in cur for l in small]
        for c in cur:
            out.append("\n".join(c))
    for _ in range(2500 if quick else 60000):
        k = rng.randint(0, 9)
        lines = [rng.choice(LINE_POOL) for _ in range(k)]
        if rng.random() < 0.7:
            lines = [BEGIN] + lines
        sep = rng.choice(["\n", "\n", "\n", "\r\n"])
        s = sep.join(lines)
        if rng.random() < 0.2 and s:
            i = rng.randrange(len(s))
            s = s[:i] + rng.choice(["\n", "\r\n", "\r", " ", ":", "-", "S"]) + s[i:]
        out.append(s)
    return out


def model_cases(rng, tier):
    for s in _texts(rng, tier):
        yield Case("parse_signed " + U(s), (lambda s=s: _ucall(MessageSigner.parse_signed_message, s)))
    for s in _texts(rng, "quick")[::7]:
        yield Case("parse_sections " + U(s), (lambda s=s: _ucall(MessageSigner.parse_sections, s)))
    t = MessageSigner.signature_template
    for (nt, m, a, sg) in [("BITCOIN", "hello", ADDR, SIG), ("", "", "", ""), ("LITECOIN", "a\nb", "x", "y"), ("X Y", "é", "€", "\U0001f600")]:
        yield Case("armour %s %s %s %s" % (U(nt), U(m), U(a), U(sg)),
                   (lambda nt=nt, m=m, a=a, sg=sg: U(t.format(msg=m, sig=sg, addr=a, net_name=nt))))


# ---- direct checks: the round trip of the property on the real networks --------------------------------------------
def in_domain(msg: str) -> bool:
    """LF form of a message with a consistent newline style: no "\\r\\n" pair and no carriage return at the very end (the
    template's "\\n" would pair with it), and no line that starts with '-----BEGIN ' other than the first.  A carriage return
    elsewhere, and every other character (form feed, vertical tab, FS/GS/RS, NEL, U+2028, U+2029 ... which str.splitlines
    treats as line ends but which are NOT line ends of the armour format) is allowed.  (The Coq theorems cover the sub-domain
    without any carriage return.)"""
    return "\r\n" not in msg and not msg.endswith("\r") and "\n-----BEGIN " not in msg


# characters str.splitlines() breaks on besides \n, \r: they are ordinary message characters for the armour format
EXOTIC = ["\x0c", "\x0b", "\x1c", "\x1d", "\x1e", "\x85", "\u2028", "\u2029"]
EXOTIC_FIXED = [
    "page one\n\x0cpage two\n", "Terms:\n1.\x0bfirst\n2.\x0bsecond", "para\u2028graph\nnext\u2029one", "legacy\x85mainframe\ntext",
    "a\x1cb\x1dc\x1ed\n", "\x0c", "\x0c\n", "\n\x0c", "x\n\x85\ny", "\u2028\n\u2029", "-\x0b-\n-----END\x0c\n", "\n\nlead\x1e\n\n\ntrail\x1d\n\n",
    "lone\rcr\nline\x0c", "\rstart\n\x0bend",
    # lines that look like RFC 2440 dash-escaped text ("- " followed by a dash): the format does not dash-escape (seed C17-e1)
    "- -q quiet", "- - nested\n", "a\n- -5 C\nb", "- -----BEGIN BITCOIN SIGNED MESSAGE-----", "- -\n- -", "-  -x", "- x\n-- y\n- -z", "-----BEGIN SIGNATURE-----\x0c\nfirst line", "a\x0c\x0c\x0cb\nc", "tab\t\x0c tab\n",
]


def exotic_messages(rng, count):
    """LF forms of messages over an alphabet with the exotic separators, lone carriage returns, blank lines at both ends and
    dashes at line starts"""
    out = list(EXOTIC_FIXED)
    words = ["a", "b", "é", " ", "-", "-----", "-----END", "-----BEGIN", ":", "Address:", "=", "\t"] + EXOTIC + EXOTIC + ["\r"]
    for _ in range(count):
        lines = []
        for _ in range(rng.randint(1, 5)):
            if rng.random() < 0.2:
                lines.append("")
            else:
                lines.append("".join(rng.choice(words) for _ in range(rng.randint(1, 6))))
        m = "\n".join(lines)
        if rng.random() < 0.3:
            m = rng.choice(["\n", "\n\n", "\x0c\n"]) + m
        if rng.random() < 0.3:
            m += rng.choice(["\n", "\n\n", "\n\x0c"])
        out.append(m)
    return out


def mixed_messages(rng, count):
    """messages whose newline style is NOT consistent (mixed \\r\\n / \\n, lone \\n in a DOS text, trailing \\r): the format cannot
    hand them back unchanged, but the damage is confined to carriage returns"""
    out = ["a\r\nb\nc", "a\nb\r\nc\x0c", "end\r", "x\x0c\r", "\r\n\x85\n", "a\r\r\nb\n\u2028", "\n\r\n\x0b\r"]
    for m in exotic_messages(rng, count)[len(EXOTIC_FIXED):]:
        parts = m.split("\n")
        out.append("".join(p + rng.choice(["\n", "\r\n", "\r\n"]) for p in parts) + rng.choice(["", "\r", "z"]))
    return out


def chk_mixed(nw, d, msg):
    """sign -> armour -> parse on a message with an inconsistent newline style: the address and the signature text come back
    unchanged and the message comes back up to carriage returns (nothing else may be altered)"""
    k = nw.keys.private(d, is_compressed=True)
    try:
        text = nw.msg.sign(k, msg, verbose=True)
        sig = nw.msg.sign(k, msg)
        m2, a2, s2 = nw.msg.parse_signed(text)
    except Exception as e:
        return {"kind": "armour-raises", "detail": "%s: %s" % (type(e).__name__, e)}
    if (a2, s2) != (k.address(), sig):
        return {"kind": "armour-roundtrip", "got": [a2, s2], "want": [k.address(), sig]}
    if m2.replace("\r", "") != msg.replace("\r", ""):
        return {"kind": "armour-message-altered", "got": m2[:200], "want": msg[:200]}
    return None


def chk_roundtrip(nw, d, comp, msg_lf, style):
    """lf: LF message in the LF template; crlf-msg: CRLF message in the LF template (both must come back unchanged and
    verify); crlf-all: the whole armoured text of the LF message converted to CRLF in transit (the parser hands back the
    CRLF form of the message with the address and signature text unchanged)"""
    k = nw.keys.private(d, is_compressed=comp)
    msg_crlf = msg_lf.replace("\n", "\r\n")
    signed = msg_crlf if style == "crlf-msg" else msg_lf
    want_msg = msg_lf if style == "lf" else msg_crlf
    try:
        text = nw.msg.sign(k, signed, verbose=True)
        if style == "crlf-all":
            text = text.replace("\n", "\r\n")
        sig = nw.msg.sign(k, signed)
        m2, a2, s2 = nw.msg.parse_signed(text)
    except Exception as e:
        return {"kind": "armour-raises", "detail": "%s: %s" % (type(e).__name__, e)}
    if (m2, a2, s2) != (want_msg, k.address(), sig):
        return {"kind": "armour-roundtrip", "got": [m2[:200], a2, s2], "want": [want_msg[:200], k.address(), sig]}
    if style != "crlf-all":
        try:
            if nw.msg.verify(a2, s2, m2) is not True:
                return {"kind": "armour-parsed-does-not-verify"}
        except Exception as e:
            return {"kind": "verify-raises", "detail": "%s: %s" % (type(e).__name__, e)}
    return None


def prop_cases(rng, tier, networks, msgs):
    nets = networks()
    quick = tier == "quick"
    pool = [m for m in msgs if in_domain(m) and len(m) < 5000]
    pool += ["-----BEGIN SIGNATURE-----\nfirst line may be a marker", "Address: not a header", "ends with marker text -----BEGIN SIGNATURE-----",
             "colon: in message\n-----END\n", "\n\nblank lines\n\n"]
    for i in range(150 if quick else 4000):
        nw = nets[i % len(nets)] if i % 3 == 0 else [n for n in nets if n.symbol in ("BTC", "LTC", "DOGE")][i % 3]
        m = pool[i % len(pool)] if i < 2 * len(pool) else "".join(rng.choice("ab \n\t-:=é中") for _ in range(rng.randint(0, 60)))
        if not in_domain(m):
            continue
        d = rng.getrandbits(200) + 1
        comp = bool(i & 1)
        for style in ("lf", "crlf-msg", "crlf-all"):
            if style != "lf" and "\n" not in m:
                continue
            yield PropCase("armour_roundtrip", {"net": nw.symbol, "d": str(d), "comp": comp, "msg": m, "style": style},
                           (lambda nw=nw, d=d, comp=comp, m=m, style=style: chk_roundtrip(nw, d, comp, m, style)))
    two = [n for n in nets if n.symbol in ("BTC", "LTC")]
    for pc in exotic_cases(rng, two, 40 if quick else 1500):
        yield pc


def exotic_cases(rng, nets, count):
    """the property itself on the exotic family: LF text, DOS message in the LF template, whole text converted to DOS"""
    for i, m in enumerate(exotic_messages(rng, count)):
        if not in_domain(m):
            continue
        for j, nw in enumerate(nets):
            d = rng.getrandbits(200) + 1
            comp = bool((i + j) & 1)
            for style in ("lf", "crlf-msg", "crlf-all"):
                if style != "lf" and "\n" not in m:
                    continue
                yield PropCase("armour_roundtrip", {"net": nw.symbol, "d": str(d), "comp": comp, "msg": m, "style": style},
                               (lambda nw=nw, d=d, comp=comp, m=m, style=style: chk_roundtrip(nw, d, comp, m, style)))
    for i, m in enumerate(mixed_messages(rng, count // 2)):
        if "\n-----BEGIN " in m.replace("\r", ""):
            continue
        nw = nets[i % len(nets)]
        yield PropCase("armour_mixed", {"net": nw.symbol, "d": "4242", "msg": m}, (lambda nw=nw, m=m: chk_mixed(nw, 4242, m)))


def replay_input(check, inp, net):
    if check == "armour_mixed":
        return chk_mixed(net(inp["net"]), int(inp["d"]), inp["msg"])
    if check == "armour_roundtrip":
        return chk_roundtrip(net(inp["net"]), int(inp["d"]), inp["comp"], inp["msg"], inp["style"])
    return NotImplemented


def classify(pc, r):
    return None


def search_cands(disagreements, net):
    """texts on which the armour model and the parser disagreed: try them as messages of a real round trip; and, whatever
    broke (also a table generator that failed closed on a changed parser literal), the exotic-separator family"""
    import random
    cands = list(exotic_cases(random.Random(17), [net("BTC"), net("LTC")], 120))
    for dgr in disagreements[:30]:
        toks = dgr["case"].split(" ")
        if toks[0] not in ("parse_signed", "parse_sections", "armour"):
            continue
        try:
            s = bytes.fromhex(toks[1][1:]).decode("utf-32-be", "surrogatepass")
        except Exception:
            continue
        for piece in {s, s.split("\n")[0], "\n".join(s.split("\n")[1:3])}:
            if in_domain(piece) and len(piece) < 2000:
                for style in ("lf", "crlf-msg", "crlf-all"):
                    if style != "lf" and "\n" not in piece:
                        continue
                    cands.append(PropCase("armour_roundtrip", {"net": "BTC", "d": "99", "comp": True, "msg": piece, "style": style},
                                          (lambda piece=piece, style=style: chk_roundtrip(net("BTC"), 99, True, piece, style))))
    return cands
