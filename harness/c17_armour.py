"""C17, armoured text form (signature_template / parse_sections / parse_signed_message): correspondence generators
and direct round-trip checks.  A str travels to the driver as 'u' + hex of its UTF-32-BE encoding."""
from common import *
from pycoin.contrib.msg_signing import MessageSigner

KNOWN_REPLAYS = {}


def U(s: str) -> str:
    return "u" + s.encode("utf-32-be", "surrogatepass").hex()


def _ucall(f, *a):
    try:
        r = f(*a)
    except Exception as e:
        return "!" + exn_tag(e)
    if isinstance(r, tuple):
        return "(" + " ".join(U(x) for x in r) + ")"
    return U(r)


BEGIN = "-----BEGIN BITCOIN SIGNED MESSAGE-----"
SIGM = "-----BEGIN SIGNATURE-----"
END = "-----END BITCOIN SIGNED MESSAGE-----"
ADDR = "1BoatSLRHtKNngkdXEeobR76b53LETtpyT"
SIG = "IMFV6wZUz1hALmrO1I1nyjhLo2lAXANit4a2oRaDR3+M7BfGGWyK76PXCJaZxov+ygGkyv9yCML5ZQj+W0MFycI="

LINE_POOL = [BEGIN, SIGM, END, ADDR, SIG, "", "hello", "-----BEGIN BITCOIN SIGNATURE-----", "-----BEGIN  SIGNATURE-----",
             "-----BEGIN signature-----", "-----BEGIN SIGNATUREX-----", "-----BEGIN XSIGNATURE-----", "-----BEGIN SIGNATURE SIGNATURE-----",
             "-----BEGIN SIGNATURE----", "Address: " + ADDR, "address:" + ADDR + ":x", "ADDRESS : " + ADDR, "Comment: hi", "Version: 1:2",
             "  " + ADDR + "\t", " " + SIG + " ", "-----END", "x-----END", "SIGNED MESSAGE-----", "junk SIGNED MESSAGE-----", ":",
             "Address:", "a:b:c", "\x1f", "\x85", "ſ", "Kddress: x", "Aıddress: x", "-----BEGIN SIGNATURE-----x", " " + SIGM,
             SIGM + " ", "tail\r", "\r", "-----BEGIN SIGNED MESSAGE-----", END + "\r"]


MULTIBIT = """

-----BEGIN BITCOIN SIGNED MESSAGE-----
This is an example of a signed message.
-----BEGIN BITCOIN SIGNATURE-----
Version: Bitcoin-qt (1.0)
Address: 1HZwkjkeaoZfTSaJxDw6aKkxp45agDiEzN

HCT1esk/TWlF/o9UNzLDANqsPXntkMErf7erIrjH5IBOZP98cNcmWmnW0GpSAi3wbr6CwpUAN4ctNn1T71UBwSc=
-----END BITCOIN SIGNATURE-----

"""


def _texts(rng, tier):
    quick = tier == "quick"
    out = [MULTIBIT, MULTIBIT.replace("\n", "\r\n"), MULTIBIT.replace("Address:", "ADDRESS :"), MULTIBIT.replace("Address: ", "Address:\t"),
           MULTIBIT.replace("Address", "Adress"), MULTIBIT.replace("Version", "Address"), "Username: x\nURL: y\n" + MULTIBIT]
    t = MessageSigner.signature_template
    for msg in ["hello", "", "two\nlines", "a\r\nb", "a\r\nb\nc", "tr\r", "\n", "x\n" + SIGM, SIGM + "\ny", "x\n" + SIGM + "\ny",
                "x\n" + SIGM + "\n" + SIGM + "\ny", "é€\U0001f600", "Address: foo", "-----END", BEGIN + "\nin\n" + SIGM + "\n" + ADDR + "\n" + SIG + "\n" + END]:
        for addr in [ADDR, "", "Address: " + ADDR, SIG]:
            base = t.format(msg=msg, addr=addr, sig=SIG, net_name="BITCOIN")
            out += [base, base.replace("\n", "\r\n"), "junk\n" + base, base + "\n", base + "\ntrailing", base.replace(END, ""),
                    base.replace("\n" + END, ""), base.replace(SIGM, "-----BEGIN BITCOIN SIGNATURE-----"), base.replace(ADDR + "\n", ""),
                    base.replace(ADDR, "Comment: x\n" + ADDR), base.replace(ADDR, "Comment: x\nAddress: " + ADDR + "\nmore")]
    small = [BEGIN, SIGM, END, ADDR, SIG, "", "m", "Address: a"]
    cur = [[]]
    for _ in range(4 if quick else 5):
        cur = [c + [l] for c in cur for l in small]
        for c in cur:
            out.append("\n".join(c))
    for _ in range(2500 if quick else 60000):
        k = rng.randint(0, 9)
        lines = [rng.choice(LINE_POOL) for _ in range(k)]
        if rng.random() < 0.7:
            lines = [BEGIN] + lines
        sep = rng.choice(["\n", "\n", "\n", "\r\n"])
        s = sep.join(lines)
        if rng.random() < 0.2 and s:
            i = rng.randrange(len(s))
            s = s[:i] + rng.choice(["\n", "\r\n", "\r", " ", ":", "-", "S"]) + s[i:]
        out.append(s)
    return out


def model_cases(rng, tier):
    for s in _texts(rng, tier):
        yield Case("parse_signed " + U(s), (lambda s=s: _ucall(MessageSigner.parse_signed_message, s)))
    for s in _texts(rng, "quick")[::7]:
        yield Case("parse_sections " + U(s), (lambda s=s: _ucall(MessageSigner.parse_sections, s)))
    t = MessageSigner.signature_template
    for (nt, m, a, sg) in [("BITCOIN", "hello", ADDR, SIG), ("", "", "", ""), ("LITECOIN", "a\nb", "x", "y"), ("X Y", "é", "€", "\U0001f600")]:
        yield Case("armour %s %s %s %s" % (U(nt), U(m), U(a), U(sg)),
                   (lambda nt=nt, m=m, a=a, sg=sg: U(t.format(msg=m, sig=sg, addr=a, net_name=nt))))


# ---- direct checks: the round trip of the property on the real networks --------------------------------------------
def in_domain(msg: str) -> bool:
    """the hypotheses of C17_armour_roundtrip_*: no carriage return in the LF form of the message and no line that starts
    with '-----BEGIN ' other than the first"""
    return "\r" not in msg and "\n-----BEGIN " not in msg


def chk_roundtrip(nw, d, comp, msg_lf, style):
    """lf: LF message in the LF template; crlf-msg: CRLF message in the LF template (both must come back unchanged and
    verify); crlf-all: the whole armoured text of the LF message converted to CRLF in transit (the parser hands back the
    CRLF form of the message with the address and signature text unchanged)"""
    k = nw.keys.private(d, is_compressed=comp)
    msg_crlf = msg_lf.replace("\n", "\r\n")
    signed = msg_crlf if style == "crlf-msg" else msg_lf
    want_msg = msg_lf if style == "lf" else msg_crlf
    try:
        text = nw.msg.sign(k, signed, verbose=True)
        if style == "crlf-all":
            text = text.replace("\n", "\r\n")
        sig = nw.msg.sign(k, signed)
        m2, a2, s2 = nw.msg.parse_signed(text)
    except Exception as e:
        return {"kind": "armour-raises", "detail": "%s: %s" % (type(e).__name__, e)}
    if (m2, a2, s2) != (want_msg, k.address(), sig):
        return {"kind": "armour-roundtrip", "got": [m2[:200], a2, s2], "want": [want_msg[:200], k.address(), sig]}
    if style != "crlf-all":
        try:
            if nw.msg.verify(a2, s2, m2) is not True:
                return {"kind": "armour-parsed-does-not-verify"}
        except Exception as e:
            return {"kind": "verify-raises", "detail": "%s: %s" % (type(e).__name__, e)}
    return None


def prop_cases(rng, tier, networks, msgs):
    nets = networks()
    quick = tier == "quick"
    pool = [m for m in msgs if in_domain(m) and len(m) < 5000]
    pool += ["-----BEGIN SIGNATURE-----\nfirst line may be a marker", "Address: not a header", "ends with marker text -----BEGIN SIGNATURE-----",
             "colon: in message\n-----END\n", "\n\nblank lines\n\n"]
    for i in range(150 if quick else 4000):
        nw = nets[i % len(nets)] if i % 3 == 0 else [n for n in nets if n.symbol in ("BTC", "LTC", "DOGE")][i % 3]
        m = pool[i % len(pool)] if i < 2 * len(pool) else "".join(rng.choice("ab \n\t-:=é中") for _ in range(rng.randint(0, 60)))
        if not in_domain(m):
            continue
        d = rng.getrandbits(200) + 1
        comp = bool(i & 1)
        for style in ("lf", "crlf-msg", "crlf-all"):
            if style != "lf" and "\n" not in m:
                continue
            yield PropCase("armour_roundtrip", {"net": nw.symbol, "d": str(d), "comp": comp, "msg": m, "style": style},
                           (lambda nw=nw, d=d, comp=comp, m=m, style=style: chk_roundtrip(nw, d, comp, m, style)))


def replay_input(check, inp, net):
    if check == "armour_roundtrip":
        return chk_roundtrip(net(inp["net"]), int(inp["d"]), inp["comp"], inp["msg"], inp["style"])
    return NotImplemented


def classify(pc, r):
    return None


def search_cands(disagreements, net):
    """texts on which the armour model and the parser disagreed: try them as messages of a real round trip"""
    cands = []
    for dgr in disagreements[:30]:
        toks = dgr["case"].split(" ")
        if toks[0] not in ("parse_signed", "parse_sections", "armour"):
            continue
        try:
            s = bytes.fromhex(toks[1][1:]).decode("utf-32-be", "surrogatepass")
        except Exception:
            continue
        for piece in {s, s.split("\n")[0], "\n".join(s.split("\n")[1:3])}:
            if in_domain(piece) and len(piece) < 2000:
                for style in ("lf", "crlf-msg", "crlf-all"):
                    if style != "lf" and "\n" not in piece:
                        continue
                    cands.append(PropCase("armour_roundtrip", {"net": "BTC", "d": "99", "comp": True, "msg": piece, "style": style},
                                          (lambda piece=piece, style=style: chk_roundtrip(net("BTC"), 99, True, piece, style))))
    return cands
