#!/bin/bash
# harness/coqchk_all.sh [-P n] — re-check every compiled Props module (and everything it depends on) with the independent
# checker coqchk and collect the CONTEXT SUMMARY (axioms, type-in-type, unsafe fixpoints, assumed positivity) of each into
# /verif/coqchk_report.txt.  Not part of any check command (it takes from 1 minute to more than an hour per module).
cd /verif/coq || exit 2
P=${2:-6}
out=/var/tmp/coqchk_out; mkdir -p $out
mods=$(ls Props/*.v | sed 's/\.v$//; s/\//./; s/^/PV./')
echo "$mods" | xargs -P $P -I{} bash -c 'm={}; s=$(date +%s); (ulimit -v 33554432; timeout 14400 coqchk -o -silent -Q . PV $m > '$out'/$m.log 2>&1); echo "$m exit=$? wall=$(( $(date +%s) - s ))s" >> '$out'/times.txt'
{
  echo "coqchk -o -silent -Q . PV <module>   (Coq 8.16.1), one run per Props module; generated $(date -u +%Y-%m-%dT%H:%MZ) at /verif commit $(git -C /verif rev-parse --short HEAD)"
  echo
  for m in $mods; do
    echo "== $m  ($(grep "^$m " $out/times.txt | tail -1 | cut -d' ' -f2-))"
    sed -n '/CONTEXT SUMMARY/,$p' $out/$m.log | grep -v '^=*$' | grep -v '^ *$' | head -40
    grep -i "error\|anomaly\|Fatal" $out/$m.log | head -5
    echo
  done
} > /verif/coqchk_report.txt
