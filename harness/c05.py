"""C05 — signing standard inputs yields valid canonical signatures, changing nothing else.

Correspondence: the extracted contract model (Model/Solve.v: sign_tx) against Tx.sign / tx_utils.sign_tx / Keychain on
random transactions mixing all puzzle kinds x key-supply mechanisms x hash types x coins x pass orders; the extracted
template evaluator (Spec/Templates.v: eval_input) against Tx.is_solution_ok under DEFAULT and STANDARD flags on the
reached states and on mutated ones; the small codecs (lax DER parse, strict DER, low S, push parser) against pycoin's.
Direct checks: the property itself on the implementation (validity exactly when enough keys signed, strict DER / low S /
hash type of every signature, frame, no re-signing of valid inputs, never-valid with too few keys).
"""
from common import *
import importlib, hashlib, io, itertools, random as _random

from pycoin.ecdsa.secp256k1 import secp256k1_generator as GEN
from pycoin.encoding.hash import hash160 as _h160
from pycoin.encoding.sec import public_pair_to_sec, sec_to_public_pair
from pycoin.encoding.bytes32 import to_bytes_32, from_bytes_32
from pycoin.satoshi import flags as FL
from pycoin.satoshi import der as _der
from pycoin.satoshi import checksigops as _cso
from pycoin.coins.SolutionChecker import ScriptError

import c05_keychain as KCH

PROP = "C05"
EXTRA_PROPS = ["C05compose", "C05ec"]   # templates sound+complete w.r.t. Core's VerifyScript (see DESIGN.md section 0); C05ec: ECDSA interface instantiated for secp256k1
DRIVER = "C05"
INTERACTIVE = True
RULE = ("correspondence: one driver line per signing pass (sign_tx: whole-transaction state before -> after), per "
        "(state, input, flag set) evaluation (eval), per puzzle (script_pubkey) and per blob (parse_sig_ok, strict_der, "
        "low_s, defined_hashtype, parse_pushes); non-trivial = the model returns a value")
PARTIAL = ["the solver's symbolic executor (determine_constraints / constraints.py / ConstraintSolver.py) is covered only "
           "through the per-kind input/output contract of Model/Solve.v, tied by this correspondence run",
           "ECDSA, the signature digest, hash160/sha256 and BIP32 derivation are abstract (oracles answered by pycoin / hashlib)",
           "Spec/Templates.v is this property's own specification of the standard templates' consensus semantics "
           "(not the full VM); it is compared with Tx.is_solution_ok on every reached and mutated state",
           "frame (version, lock time, outpoints, sequences, outputs untouched): the model has no such inputs; observed "
           "differentially on the implementation"]
TRUSTED = ["oracles c05_sign / c05_verify / c05_pub / c05_sighash answered with pycoin's secp256k1 generator and "
           "SolutionChecker digests (properties C01/C04 cover those)"]
ASSUMPTIONS = ["theorem hypotheses on the abstract signer: sign => verifies; sign's output is strict DER with low S "
               "(that the lax parser accepts it is proved); 20/32-byte hashes; well-formed SEC keys; for the partial-signing "
               "theorem also: a signature of one listed key does not verify under another listed key, the placeholder "
               "verifies under no listed key; the digest is defined for the effective hash type. All are shown jointly "
               "satisfiable on a toy instance (Proofs/SolveToyC05.v)"]

SYMS = ("btc", "xtn", "ltc", "bch", "btg")
NETS = {s: importlib.import_module("pycoin.symbols." + s).network for s in SYMS}
FORKID = {"btc": False, "xtn": False, "ltc": False, "bch": True, "btg": True}
ORDER = GEN.order()

STD_FLAGS = (FL.VERIFY_P2SH | FL.VERIFY_STRICTENC | FL.VERIFY_DERSIG | FL.VERIFY_LOW_S | FL.VERIFY_NULLDUMMY |
             FL.VERIFY_MINIMALDATA | FL.VERIFY_DISCOURAGE_UPGRADABLE_NOPS | FL.VERIFY_CLEANSTACK |
             FL.VERIFY_CHECKLOCKTIMEVERIFY | FL.VERIFY_CHECKSEQUENCEVERIFY | FL.VERIFY_WITNESS |
             FL.VERIFY_DISCOURAGE_UPGRADABLE_WITNESS_PROGRAM | FL.VERIFY_MINIMALIF | FL.VERIFY_NULLFAIL |
             FL.VERIFY_WITNESS_PUBKEYTYPE)


def std_flags(sym):
    return STD_FLAGS & ~FL.VERIFY_STRICTENC if FORKID[sym] else STD_FLAGS


K_P2PK, K_P2PKH, K_MS, K_P2SH_MS, K_P2WSH_MS, K_P2SH_P2WSH_MS, K_P2WPKH, K_P2SH_P2WPKH = range(8)
KIND_NAMES = ["p2pk", "p2pkh", "ms", "p2sh_ms", "p2wsh_ms", "p2sh_p2wsh_ms", "p2wpkh", "p2sh_p2wpkh"]
MS_KINDS = (K_MS, K_P2SH_MS, K_P2WSH_MS, K_P2SH_P2WSH_MS)
WIT_KINDS = (K_P2WSH_MS, K_P2SH_P2WSH_MS, K_P2WPKH, K_P2SH_P2WPKH)


# ------------------------------------------------------------------------------------------------
# independent helpers (not pycoin): DER encoder, strict-DER / low-S checks, minimal push
def der_int(v):
    b = v.to_bytes((v.bit_length() + 7) // 8 or 1, "big")
    if b[0] & 0x80:
        b = b"\0" + b
    return b"\x02" + bytes([len(b)]) + b


def der_sig(r, s):
    body = der_int(r) + der_int(s)
    assert len(body) < 128
    return b"\x30" + bytes([len(body)]) + body


def indep_strict_der(sig):
    """BIP66 IsValidSignatureEncoding, written from the BIP text"""
    if len(sig) < 9 or len(sig) > 73 or sig[0] != 0x30 or sig[1] != len(sig) - 3:
        return False
    lr = sig[3]
    if 5 + lr >= len(sig):
        return False
    ls = sig[5 + lr]
    if lr + ls + 7 != len(sig):
        return False
    if sig[2] != 2 or lr == 0 or sig[4] & 0x80 or (lr > 1 and sig[4] == 0 and not sig[5] & 0x80):
        return False
    if sig[lr + 4] != 2 or ls == 0 or sig[lr + 6] & 0x80 or (ls > 1 and sig[lr + 6] == 0 and not sig[lr + 7] & 0x80):
        return False
    return True


def indep_s_value(sig):
    lr = sig[3]
    ls = sig[5 + lr]
    return int.from_bytes(sig[lr + 6: lr + 6 + ls], "big")


def indep_push(d):
    n = len(d)
    if n == 0:
        return b"\x00"
    if n == 1 and 1 <= d[0] <= 16:
        return bytes([0x50 + d[0]])
    if n == 1 and d[0] == 0x81:
        return b"\x4f"
    if n <= 75:
        return bytes([n]) + d
    if n <= 255:
        return b"\x4c" + bytes([n]) + d
    if n <= 65535:
        return b"\x4d" + n.to_bytes(2, "little") + d
    return b"\x4e" + n.to_bytes(4, "little") + d


def indep_parse_pushes(script):
    """data items of a push-only script, or None"""
    out, pc = [], 0
    while pc < len(script):
        o = script[pc]
        pc += 1
        if o == 0:
            out.append(b"")
        elif o <= 75:
            if pc + o > len(script):
                return None
            out.append(script[pc:pc + o]); pc += o
        elif o in (76, 77, 78):
            w = {76: 1, 77: 2, 78: 4}[o]
            if pc + w > len(script):
                return None
            n = int.from_bytes(script[pc:pc + w], "little"); pc += w
            if pc + n > len(script):
                return None
            out.append(script[pc:pc + n]); pc += n
        elif o == 79:
            out.append(b"\x81")
        elif 81 <= o <= 96:
            out.append(bytes([o - 80]))
        else:
            return None
    return out


# ------------------------------------------------------------------------------------------------
# oracles for the extracted model
TXS = {}          # tag (4 bytes) -> (sym, tx)


def _o_pub(b):
    se = int.from_bytes(b[:32], "big")
    return public_pair_to_sec(se * GEN, compressed=bool(b[32]))


def _o_sign(b):
    se = int.from_bytes(b[:32], "big")
    z = int.from_bytes(b[32:64], "big")
    r, s = GEN.sign(se, z)
    if s + s > ORDER:
        s = ORDER - s
    return der_sig(r, s)


def _o_verify(b):
    n = b[0]
    pub, dg, sig = b[1:1 + n], b[1 + n:33 + n], b[33 + n:]
    try:
        pp = sec_to_public_pair(pub, GEN, strict=False)
        rs = _der.sigdecode_der(sig, use_broken_open_ssl_mechanism=True)
        return b"\x01" if GEN.verify(pp, int.from_bytes(dg, "big"), rs) else b"\x00"
    except Exception:
        return b"\x00"


def _o_sighash(b):
    tag, idx, wit, ht, sc = b[:4], int.from_bytes(b[4:6], "big"), b[6], int.from_bytes(b[7:9], "big"), b[9:]
    sym, tx = TXS[bytes(tag)]
    chk = tx.SolutionChecker(tx)
    try:
        v = chk._signature_for_hash_type_segwit(sc, idx, ht) if wit else chk._signature_hash(sc, idx, ht)
    except Exception:      # ScriptError: the coin refuses this hash type; anything else: no digest either
        return b""
    return to_bytes_32(v)


def _memo(f):
    cache = {}

    def g(b):
        b = bytes(b)
        r = cache.get(b)
        if r is None:
            r = cache[b] = f(b)
        return r
    return g


ORACLES = {"c05_pub": _memo(_o_pub), "c05_sign": _memo(_o_sign), "c05_verify": _memo(_o_verify), "c05_sighash": _memo(_o_sighash),
           "hash160": _memo(ORACLES["hash160"]), "sha256": _memo(ORACLES["sha256"])}
ORACLES.update({k: _memo(v) for k, v in KCH.ORACLES.items()})


# ------------------------------------------------------------------------------------------------
# scenarios
class Inp:
    """one input: kind, m, key specs [(secret, compressed)], scripts"""
    def __init__(self, net, kind, m, keyspecs):
        self.kind, self.m, self.keyspecs = kind, m, keyspecs
        self.secs = [public_pair_to_sec(se * GEN, compressed=c) for se, c in keyspecs]
        c = net.contract
        self.lookup_scripts = []
        self.hash = b""
        if kind == K_P2PK:
            self.spk = c.for_p2pk(self.secs[0])
        elif kind in (K_P2PKH, K_P2WPKH, K_P2SH_P2WPKH):
            self.hash = _h160(self.secs[0])
            if kind == K_P2PKH:
                self.spk = c.for_p2pkh(self.hash)
            elif kind == K_P2WPKH:
                self.spk = c.for_p2pkh_wit(self.hash)
            else:
                w = c.for_p2pkh_wit(self.hash)
                self.spk = c.for_p2s(w)
                self.lookup_scripts = [w]
        else:
            ms = c.for_multisig(m, self.secs)
            self.ms = ms
            if kind == K_MS:
                self.spk = ms
            elif kind == K_P2SH_MS:
                self.spk = c.for_p2s(ms); self.lookup_scripts = [ms]
            elif kind == K_P2WSH_MS:
                self.spk = c.for_p2s_wit(ms); self.lookup_scripts = [ms]
            else:
                w = c.for_p2s_wit(ms)
                self.spk = c.for_p2s(w); self.lookup_scripts = [ms, w]

    def model_keys(self):
        return [] if self.kind in (K_P2PKH, K_P2WPKH, K_P2SH_P2WPKH) else list(self.secs)

    def pz_args(self):
        return "%s %s %s %s" % (arg(self.kind), arg(self.m), arg(self.model_keys()), arg(self.hash))

    def needed(self):
        return 1 if self.kind not in MS_KINDS else self.m


class Scenario:
    pass


def se_bytes(se):
    return se.to_bytes(32, "big")


def _rand_secret(rng):
    return rng.randrange(1, ORDER)


def gen_scenario(seedstr, big=False):
    """deterministic from seedstr: a transaction, its inputs, a list of signing passes"""
    rng = _random.Random(seedstr)
    sc = Scenario()
    sc.seed = seedstr
    sc.sym = rng.choice(SYMS)
    net = NETS[sc.sym]
    sc.net = net
    Tx = net.tx
    sc.bip32 = rng.random() < 0.3
    master = net.keys.bip32_seed(b"c05/" + seedstr.encode()) if sc.bip32 else None
    sc.master = master
    sc.paths = {}
    counter = [0]

    def new_key(allow_uncompressed):
        if sc.bip32:
            counter[0] += 1
            path = rng.choice(["%d", "0/%d", "%dH", "1H/%d", "44H/0H/%d"]) % counter[0]
            se = master.subkey_for_path(path).secret_exponent()
            sc.paths[se] = path
            return (se, (rng.random() < 0.75) if allow_uncompressed else True)
        return (_rand_secret(rng), (rng.random() < 0.7) if allow_uncompressed else True)

    n_in = rng.choice([1, 1, 2, 2, 3, 4]) if not big else 1
    sc.inputs = []
    for _ in range(n_in):
        kind = rng.choice(MS_KINDS) if big else rng.randrange(8)
        unc_ok = kind not in WIT_KINDS
        if kind in MS_KINDS:
            if big:
                if kind == K_P2SH_MS:
                    n = rng.choice([14, 15, 15, 16])
                else:
                    n = rng.choice([16, 17, 19, 20, 20])
                m = rng.choice([1, 2, n // 2, n - 1, n, 9, 10, 11, rng.randint(1, n)])
                m = max(1, min(m, n))
                ks = [new_key(False) for _ in range(n)]
            else:
                n = rng.choice([1, 2, 2, 3, 3, 3, 4, 5, 7, 8])
                m = rng.randint(1, n)
                ks = [new_key(unc_ok) for _ in range(n)]
        else:
            m = 1
            ks = [new_key(unc_ok)]
        sc.inputs.append(Inp(net, kind, m, ks))
    # the transaction
    txs_in = []
    for i, inp in enumerate(sc.inputs):
        txs_in.append(Tx.TxIn(bytes(rng.getrandbits(8) for _ in range(32)), rng.choice([0, 1, 2, 0xfffe, rng.getrandbits(16)]),
                              b"", rng.choice([0xffffffff, 0xfffffffe, 0xfffffffd, 0, 1, rng.getrandbits(32)])))
    n_out = rng.choice([1, 1, 2, 3]) if rng.random() < 0.9 else 0
    txs_out = []
    for _ in range(n_out):
        txs_out.append(Tx.TxOut(rng.randrange(0, 10 ** 9), rng.choice([
            net.contract.for_p2pkh(bytes(rng.getrandbits(8) for _ in range(20))),
            net.contract.for_p2sh(bytes(rng.getrandbits(8) for _ in range(20))),
            b"\x6a\x04test", b""])))
    sc.version = rng.choice([1, 1, 2, 2, rng.getrandbits(31)])
    sc.lock_time = rng.choice([0, 0, 1, 499999999, 500000000, rng.getrandbits(32)])
    sc.txin_specs = [(t.previous_hash, t.previous_index, t.sequence) for t in txs_in]
    sc.txout_specs = [(t.coin_value, t.script) for t in txs_out]
    sc.unspent_values = [rng.randrange(1, 21 * 10 ** 14) for _ in sc.inputs]
    # passes
    all_keys = []
    for inp in sc.inputs:
        for ks in inp.keyspecs:
            if ks[0] not in [k[0] for k in all_keys]:
                all_keys.append(ks)
    all_secrets = [k[0] for k in all_keys]
    all_scripts = [s for inp in sc.inputs for s in inp.lookup_scripts]
    strangers = [_rand_secret(rng) for _ in range(2)]
    mode = rng.choice(["all", "all", "one", "one", "subsets", "subsets", "wrong-then-all"]) if not big else \
        rng.choice(["all", "all", "subsets", "one"])
    key_sets = []
    if mode == "all":
        key_sets = [list(all_secrets)]
    elif mode == "one":
        order = list(all_secrets)
        rng.shuffle(order)
        if big:
            order = order[:rng.choice([3, 6, len(order)])]
        key_sets = [[k] for k in order]
    elif mode == "subsets":
        for _ in range(rng.randint(2, 4)):
            key_sets.append([k for k in all_secrets if rng.random() < 0.45])
        if rng.random() < 0.5:
            key_sets.append(list(all_secrets))
    else:
        key_sets = [list(strangers), list(all_secrets)]
    if rng.random() < 0.25 and not big:
        key_sets.append(list(all_secrets))        # one more pass over an (often) already valid transaction
    std_types = [1, 2, 3, 0x81, 0x82, 0x83]
    sc.passes = []
    mech_choices = ["lookup", "wif", "keychain"] if sc.bip32 else ["lookup", "wif"]
    for ks in key_sets:
        p = {}
        p["secrets"] = list(ks) + ([rng.choice(strangers)] if rng.random() < 0.2 else [])
        rng.shuffle(p["secrets"])
        p["mech"] = rng.choice(mech_choices)
        r = rng.random()
        if r < 0.15:
            p["ht"] = None
        elif r < 0.93:
            p["ht"] = rng.choice(std_types) | (0x40 if (FORKID[sc.sym] and rng.random() < 0.3) else 0)
        elif r < 0.97:
            p["ht"] = rng.choice([0, 4, 0x40, 0x41, 0x7f, 0x80, 0xff, 0x21])       # not a standard hash type
        else:
            p["ht"] = rng.choice([0x100, 0x101, 0x1ff])                          # does not fit a byte
        r = rng.random()
        if r < 0.8 or not all_scripts:
            p["scripts"] = list(all_scripts)
        elif r < 0.9:
            p["scripts"] = []
        else:
            p["scripts"] = [s for s in all_scripts if rng.random() < 0.5]
        p["idxs"] = None if rng.random() < 0.8 else sorted(rng.sample(range(len(sc.inputs)), rng.randint(0, len(sc.inputs))))
        sc.passes.append(p)
    sc.stale = (rng.random() < 0.12) and not big
    return sc


def build_tx(sc, state):
    """a fresh Tx object with the given per-input (script, witness) state"""
    Tx = sc.net.tx
    txs_in = []
    for (ph, pi, sq), (s, w) in zip(sc.txin_specs, state):
        t = Tx.TxIn(ph, pi, s, sq)
        t.witness = list(w)
        txs_in.append(t)
    txs_out = [Tx.TxOut(v, s) for v, s in sc.txout_specs]
    tx = Tx(sc.version, txs_in, txs_out, sc.lock_time)
    tx.set_unspents([Tx.TxOut(v, inp.spk) for v, inp in zip(sc.unspent_values, sc.inputs)])
    return tx


def state_of(tx):
    return [(bytes(t.script), [bytes(x) for x in t.witness]) for t in tx.txs_in]


class _HashType(int):
    pass


def _present_idxs(idxs, salt):
    """the same selection of inputs in one of several container presentations (the empty selection included)"""
    k = _random.Random("idxp" + salt + repr(idxs)).randrange(7)
    idxs = list(idxs)
    if k == 0:
        return set(idxs)
    if k == 1:
        return list(reversed(idxs))
    if k == 2:
        return tuple(idxs)
    if k == 3:
        return frozenset(idxs)
    if k == 4:
        return dict.fromkeys(idxs, True)
    if k == 5 and idxs == list(range(idxs[0], idxs[0] + len(idxs))) if idxs else k == 5:
        return range(idxs[0], idxs[0] + len(idxs)) if idxs else range(0)
    return idxs + idxs[:1]          # a list with a repeated index


def run_pass(sc, tx, p):
    """apply one signing pass with the pass's mechanism; returns the exception tag or None"""
    net = sc.net
    kw = {}
    if p["ht"] is not None or _random.Random(repr(p["secrets"])).random() < 0.5:
        kw["hash_type"] = p["ht"]
    if p["idxs"] is not None:
        kw["tx_in_idx_set"] = _present_idxs(p["idxs"], repr(p["secrets"]))
    if kw.get("hash_type") is not None and _random.Random("htp" + repr(p["secrets"])).random() < 0.3:
        kw["hash_type"] = _HashType(kw["hash_type"])          # an int subclass is an int
    try:
        if p["mech"] == "lookup":
            kw["p2sh_lookup"] = net.tx.solve.build_p2sh_lookup(p["scripts"])
            tx.sign(net.tx.solve.build_hash160_lookup(p["secrets"]), **kw)
        elif p["mech"] == "wif":
            kw["p2sh_lookup"] = net.tx.solve.build_p2sh_lookup(p["scripts"])
            wifs = [net.keys.private(se, is_compressed=bool((se >> 3) & 1)).wif() for se in p["secrets"]]
            net.tx_utils.sign_tx(tx, wifs=wifs, **kw)
        else:
            kc = net.keychain()
            paths = [sc.paths[se] for se in p["secrets"] if se in sc.paths]
            loose = [net.keys.private(se) for se in p["secrets"] if se not in sc.paths]
            # the history of the keychain object before the signing call (all end in the same contents)
            variant = _random.Random("kcv" + repr(p["secrets"]) + repr(p["ht"])).randrange(4)
            kc.add_p2s_scripts(p["scripts"])
            kw["p2sh_lookup"] = kc
            if variant == 0:
                kc.add_key_paths(sc.master, paths)
                kc.add_secrets([sc.master])
                kc.add_secrets(loose)
            elif variant == 1:
                # watch-only first: paths filed with the public key, lookups and a signing attempt on a copy, then the secrets
                nonhard = [q for q in paths if "H" not in q]
                kc.add_key_paths(sc.master.public_copy(), nonhard)
                kc.add_key_paths(sc.master, [q for q in paths if "H" in q])
                for inp in sc.inputs:
                    for se, c in inp.keyspecs:
                        kc.get(_h160(public_pair_to_sec(se * GEN, compressed=c)))
                probe = build_tx(sc, state_of(tx))
                probe.sign(kc, **kw)
                kc.add_secrets(loose)
                kc.add_secret(sc.master)
            elif variant == 2:
                # secrets first, paths later, lookups in between
                kc.add_secrets(loose)
                kc.add_secret(sc.master)
                for inp in sc.inputs:
                    kc.get(inp.hash or b"\x00" * 20)
                kc.add_key_paths(sc.master, paths)
            else:
                # secrets come and go: clear_secrets, then everything again
                kc.add_key_paths(sc.master, paths)
                kc.add_secret(sc.master)
                for q in paths[:2]:
                    kc.get(sc.master.subkey_for_path(q).hash160())
                kc.clear_secrets()
                for q in paths[:2]:
                    kc.get(sc.master.subkey_for_path(q).hash160())
                kc.add_secrets(loose + [sc.master])
            tx.sign(kc, **kw)
    except Exception as e:  # noqa
        return exn_tag(e)
    return None


def play(sc):
    """run all passes on the implementation, recording the state before each pass (list of states, len = passes+1)"""
    state = [(b"", []) for _ in sc.inputs]
    if sc.stale:
        # sign everything with SIGHASH_ALL, then change the transaction: all signatures become stale
        tx = build_tx(sc, state)
        keys = [k[0] for inp in sc.inputs for k in inp.keyspecs]
        scripts = [s for inp in sc.inputs for s in inp.lookup_scripts]
        tx.sign(sc.net.tx.solve.build_hash160_lookup(keys), p2sh_lookup=sc.net.tx.solve.build_p2sh_lookup(scripts))
        state = state_of(tx)
        sc.lock_time = (sc.lock_time + 1) & 0xffffffff
        sc.txin_specs = [(ph, pi, 5) for ph, pi, sq in sc.txin_specs]
    states, excs = [state], []
    for p in sc.passes:
        tx = build_tx(sc, states[-1])
        excs.append(run_pass(sc, tx, p))
        states.append(state_of(tx))
    return states, excs


_TAG = [0]


def register(sc):
    _TAG[0] += 1
    tag = _TAG[0].to_bytes(4, "big")
    TXS[tag] = (sc.sym, build_tx(sc, [(b"", []) for _ in sc.inputs]))
    return tag


def sign_line(sc, tag, p, state):
    toks = ["sign_tx", arg(tag), arg(FORKID[sc.sym]), "N" if p["ht"] is None else arg(p["ht"]),
            arg([se_bytes(s) for s in p["secrets"]]), arg(list(p["scripts"])),
            arg(list(range(len(sc.inputs))) if p["idxs"] is None else list(p["idxs"])), arg(len(sc.inputs))]
    for inp, (s, w) in zip(sc.inputs, state):
        toks += [inp.pz_args(), arg(s), arg(list(w))]
    return " ".join(toks)


def impl_sign(sc, p, state):
    tx = build_tx(sc, state)
    e = run_pass(sc, tx, p)
    return canon(([(s, w) for s, w in state_of(tx)], None if e is None else e.encode()))


def eval_line(sc, tag, idx, std, state_i):
    inp = sc.inputs[idx]
    s, w = state_i
    return "eval %s %s %s %s %s %s %s" % (arg(tag), arg(idx), arg(std), arg(std and not FORKID[sc.sym]), inp.pz_args(), arg(s), arg(list(w)))


def impl_eval(sc, idx, std, state_i):
    state = [(b"", []) for _ in sc.inputs]
    state[idx] = state_i
    tx = build_tx(sc, state)
    try:
        if std:
            return canon(bool(tx.is_solution_ok(idx, flags=std_flags(sc.sym))))
        return canon(bool(tx.is_solution_ok(idx)))
    except Exception as e:  # an exception escaping is_solution_ok is a disagreement with the model's bool
        return "!" + exn_tag(e)


# ------------------------------------------------------------------------------------------------
# mutated states for the evaluator comparison
def flip_s(sig):
    """high-S twin of a strictly encoded signature blob"""
    lr = sig[3]
    r = int.from_bytes(sig[4:4 + lr], "big")
    s = indep_s_value(sig)
    return der_sig(r, ORDER - s) + sig[-1:]


def mutations(rng, inp, s, w):
    """variants of one input's (script, witness)"""
    out = []
    items = indep_parse_pushes(s)
    if items is None:
        return out

    def with_items(its, enc=indep_push):
        return b"".join(enc(d) for d in its)

    def pd1(d):
        return b"\x4c" + bytes([len(d)]) + d if len(d) < 256 else indep_push(d)

    use_wit = len(w) > 0
    cur = list(w) if use_wit else list(items)

    def emit(new):
        if use_wit:
            out.append((s, list(new)))
        else:
            out.append((with_items(new), list(w)))
    sig_pos = [i for i, d in enumerate(cur) if indep_strict_der(d)]
    if len(cur) >= 2:
        i, j = rng.sample(range(len(cur)), 2)
        c = list(cur); c[i], c[j] = c[j], c[i]; emit(c)
    if cur:
        i = rng.randrange(len(cur))
        emit(cur[:i] + cur[i + 1:])                                  # drop an item
        emit([b"\x01"] + cur)                                        # extra item at the bottom
        emit(cur[:i] + [rng.choice([b"", b"\x00", b"\x01", b"\x51"])] + cur[i:])
        c = list(cur); c[0] = rng.choice([b"\x00", b"\x01", b"\x80", b"\x00\x00"]); emit(c)   # dummy / first item
    for i in sig_pos[:3]:
        c = list(cur); c[i] = flip_s(cur[i]); emit(c)                # high S
        c = list(cur); c[i] = cur[i][:-1] + bytes([rng.choice([0, 1, 2, 3, 4, 0x41, 0x80, 0x81, 0x84, 0xc1])]); emit(c)
        c = list(cur); c[i] = b""; emit(c)                           # empty signature
        b = bytearray(cur[i]); b[rng.randrange(4, len(b) - 1)] ^= 1 << rng.randrange(8); c = list(cur); c[i] = bytes(b); emit(c)
        c = list(cur); c[i] = cur[i][:-1] + b"\x00" + cur[i][-1:]; emit(c)      # trailing garbage inside: bad length
    if not use_wit and items:
        out.append((with_items(items, pd1), list(w)))                # non-minimal pushes
        if inp.kind == K_P2SH_MS:
            out.append((s + b"\x61", list(w)))                       # OP_NOP appended: not push-only (P2SH: refused)
        out.append((with_items(items), [b"\x01"]))                   # unexpected witness
    if use_wit:
        out.append((s + b"\x00", list(w)))                           # scriptSig not exactly the expected one
        out.append((b"", list(w)))
        if s:
            out.append((pd1(indep_parse_pushes(s)[0]) if indep_parse_pushes(s) else s, list(w)))
    else:
        out.append((s, [b"\x01", b"\x02"]))
    return out


# ------------------------------------------------------------------------------------------------
def blob_stream(rng, tier, sigs):
    """signature-like blobs: real ones, their mutations, synthetic DER, random"""
    out = [b"", b"\x30", b"\x30\x00", b"\x30\x00\x01", b"\x30\x06\x02\x01\x01\x02\x01\x01\x01", b"\x30\x06\x02\x01\x01\x02\x01\x01",
           b"\x30\x05\x02\x00\x02\x01\x01\x01", b"\x30\x06\x02\x01\x01\x02\x00\x01", b"\x30\x80\x02\x01\x01\x02\x01\x01\x01",
           b"\x30\x81\x06\x02\x01\x01\x02\x01\x01\x01", b"\x30\x06\x02\x81\x01\x01\x02\x01\x01\x01", b"\x30\x82\x00\x06\x02\x01\x01\x02\x01\x01\x01",
           b"\x30\x06\x02\x01\x81\x02\x01\x01\x01", b"\x30\x06\x02\x01\x01\x02\x01\x81\x01", b"\x30\x07\x02\x02\x00\x01\x02\x01\x01\x01",
           b"\x30\x07\x02\x02\x00\x81\x02\x01\x01\x01", b"\x30\x07\x02\x01\x01\x02\x02\x00\x01\x01", b"\x31\x06\x02\x01\x01\x02\x01\x01\x01",
           b"\x30\x06\x03\x01\x01\x02\x01\x01\x01", b"\x30\x06\x02\x01\x01\x03\x01\x01\x01", b"\x30\x0a\x02\x01\x01\x02\x01\x01\x01",
           b"\x30\x02\x02\x01\x01\x02\x01\x01\x01", b"\x30\x06\x02\x05\x01\x02\x01\x01\x01", b"\x30\x06\x02\x01\x01\x02\x05\x01\x01",
           b"\x30\x84\x00\x00\x00\x06\x02\x01\x01\x02\x01\x01\x01", b"\x30\xff", b"\x30\x06\x02\x80\x02\x01\x01\x01"]
    half = ORDER // 2
    for s in (1, half - 1, half, half + 1, half + 2, ORDER - 1, ORDER, ORDER + 1, 2 ** 255, 2 ** 256 - 1):
        for r in (1, 2 ** 255, ORDER - 1):
            for ht in (1, 0x41):
                try:
                    out.append(der_sig(r, s) + bytes([ht]))
                except AssertionError:
                    pass
    for sg in sigs:
        out.append(sg)
        out.append(flip_s(sg) if indep_strict_der(sg) else sg)
        for _ in range(3 if tier == "quick" else 12):
            b = bytearray(sg)
            k = rng.random()
            if k < 0.4:
                b[rng.randrange(len(b))] = rng.getrandbits(8)
            elif k < 0.6:
                del b[rng.randrange(len(b))]
            elif k < 0.8:
                b.insert(rng.randrange(len(b) + 1), rng.getrandbits(8))
            else:
                b[rng.randrange(min(8, len(b)))] ^= 1 << rng.randrange(8)
            out.append(bytes(b))
    for _ in range(300 if tier == "quick" else 6000):
        n = rng.choice([8, 9, 10, 12, 33, 70, 71, 72, 73, 74, rng.randint(0, 80)])
        b = bytearray(rng.getrandbits(8) for _ in range(n))
        if n >= 6 and rng.random() < 0.8:
            b[0] = 0x30; b[1] = rng.choice([n - 3, n - 2, n - 3, rng.getrandbits(8)]) & 0xff; b[2] = 2
            lr = rng.choice([1, 2, 32, 33, max(1, (n - 7) // 2), rng.getrandbits(7)])
            b[3] = lr & 0xff
            if 4 + lr + 1 < n:
                b[4 + lr] = 2
                b[5 + lr] = rng.choice([max(0, n - 7 - lr), 1, 32, 33, rng.getrandbits(7)]) & 0xff
        out.append(bytes(b))
    return out


def impl_parse_sig_ok(b):
    try:
        _cso.parse_signature_blob(b)
        return True
    except (ValueError, _der.UnexpectedDER):
        return False


def impl_strict_der(b):
    try:
        _cso.check_valid_signature(b)
        return True
    except ScriptError:
        return False
    except IndexError:
        return "!E_INDEX"


def impl_low_s(b):
    pair, _ = _cso.parse_signature_blob(b)
    try:
        _cso.check_low_der_signature(pair, GEN)
        return True
    except ScriptError:
        return False


def impl_defined_hashtype(b):
    try:
        _cso.check_defined_hashtype_signature(b)
        return True
    except ScriptError:
        return False


def impl_parse_pushes(s):
    T = NETS["btc"].script
    try:
        items = []
        for opcode, data, pc, new_pc in T.get_opcodes(s):
            if opcode > 0x60 or opcode == 0x50 or data is None:
                return None
            items.append(bytes(data))
    except Exception:
        return None
    minimal = True
    try:
        list(T.get_opcodes(s, verify_minimal_data=True))
    except ScriptError:
        minimal = False
    return (items, minimal)


def push_scripts(rng, tier):
    out = [b"", b"\x00", b"\x4f", b"\x50", b"\x51", b"\x60", b"\x61", b"\x01", b"\x01\x01", b"\x01\x11", b"\x01\x81", b"\x01\x80", b"\x4c", b"\x4c\x00",
           b"\x4c\x01", b"\x4c\x01\x07", b"\x4d\x00", b"\x4d\x00\x00", b"\x4d\x01\x00\x09", b"\x4e\x00\x00\x00", b"\x4e\x01\x00\x00\x00\x09",
           b"\x4e\xff\xff\xff\xff\x01", b"\x4d\xff\xff\x01", b"\x4c\x4b" + b"\x01" * 75, b"\x4c\x4c" + b"\x01" * 76,
           b"\x4d\xff\x00" + b"\x02" * 255, b"\x4d\x00\x01" + b"\x02" * 256, b"\x4b" + b"\x03" * 75, b"\x4b" + b"\x03" * 74]
    for _ in range(400 if tier == "quick" else 8000):
        parts = []
        for _ in range(rng.randint(0, 5)):
            r = rng.random()
            n = rng.choice([0, 1, 1, 2, 20, 33, 72, 75, 76, 77, 255, 256, 300, 520, 521])
            d = bytes(rng.choice([0, 1, 5, 16, 17, 0x81, rng.getrandbits(8)]) for _ in range(n))
            if r < 0.6:
                parts.append(indep_push(d))
            elif r < 0.7:
                parts.append(b"\x4c" + bytes([n & 255]) + d[:n & 255])
            elif r < 0.8:
                parts.append(b"\x4d" + n.to_bytes(2, "little") + d)
            elif r < 0.85:
                parts.append(b"\x4e" + n.to_bytes(4, "little") + d)
            elif r < 0.95:
                parts.append(bytes([rng.choice([0x4f, 0x50, 0x51, 0x5a, 0x60, 0x61, 0x76, 0xac])]))
            else:
                parts.append(indep_push(d)[:-1])
        out.append(b"".join(parts))
    return out


# ------------------------------------------------------------------------------------------------
def n_scenarios(tier):
    return (60, 16) if tier == "quick" else (1300, 400)


def scenario_seeds(rng, tier):
    small, big = n_scenarios(tier)
    base = "%x" % rng.getrandbits(64)
    return [("%s/s%d" % (base, i), False) for i in range(small)] + [("%s/b%d" % (base, i), True) for i in range(big)]


def model_cases(rng, tier):
    all_sigs = []
    for seedstr, big in scenario_seeds(rng, tier):
        try:
            cases = list(_scenario_cases(seedstr, big, tier, all_sigs))
        except Exception as e:  # the implementation raised while the scenario was being played: a disagreement by construction
            tag = exn_tag(e)
            cases = [Case("scenario_failed " + arg(seedstr.encode()), (lambda tag=tag: "!IMPL_RAISED:" + tag),
                          {"seed": seedstr, "big": big})]
        for c in cases:
            yield c
    for c in _codec_cases(rng, tier, all_sigs):
        yield c
    for c in KCH.model_cases(rng, tier):     # keychain operation histories
        yield c


def _scenario_cases(seedstr, big, tier, all_sigs):
    if True:
        sc = gen_scenario(seedstr, big)
        states, excs = play(sc)
        tag = register(sc)          # after play: a stale scenario changes the transaction's fields
        # puzzles
        for inp in sc.inputs:
            yield Case("script_pubkey " + inp.pz_args(), (lambda inp=inp: canon(inp.spk)), {"seed": seedstr})
        # signing passes
        for j, p in enumerate(sc.passes):
            yield Case(sign_line(sc, tag, p, states[j]), (lambda sc=sc, p=p, st=states[j]: impl_sign(sc, p, st)),
                       {"seed": seedstr, "big": big, "pass": j})
        # evaluator on every distinct reached per-input state, and on mutations of some
        mrng = _random.Random(seedstr + "/mut")
        seen = set()
        for st in states:
            for idx, si in enumerate(st):
                key = (idx, si[0], tuple(si[1]))
                if key in seen:
                    continue
                seen.add(key)
                variants = [si]
                if (not big) or mrng.random() < 0.3:
                    ms = mutations(mrng, sc.inputs[idx], si[0], si[1])
                    mrng.shuffle(ms)
                    variants += ms[:(4 if tier == "quick" else 8) if not big else 2]
                for v in variants:
                    for std in (False, True):
                        yield Case(eval_line(sc, tag, idx, std, v), (lambda sc=sc, idx=idx, std=std, v=v: impl_eval(sc, idx, std, v)),
                                   {"seed": seedstr, "big": big})
                for d in (list(si[1]) or (indep_parse_pushes(si[0]) or [])):
                    if indep_strict_der(d) and len(all_sigs) < 400:
                        all_sigs.append(d)


def _codec_cases(rng, tier, all_sigs):
    brng = _random.Random("%x" % rng.getrandbits(64))
    for b in blob_stream(brng, tier, all_sigs[:60 if tier == "quick" else 400]):
        yield Case("parse_sig_ok " + arg(b), (lambda b=b: call(impl_parse_sig_ok, b)))
        yield Case("strict_der " + arg(b), (lambda b=b: (lambda r: r if isinstance(r, str) else canon(r))(impl_strict_der(b))))
        yield Case("defined_hashtype " + arg(b), (lambda b=b: canon(impl_defined_hashtype(b)) if len(b) else "F"))
        if indep_strict_der(b):
            yield Case("low_s " + arg(b), (lambda b=b: call(impl_low_s, b)))
    for s in push_scripts(brng, tier):
        yield Case("parse_pushes " + arg(s), (lambda s=s: canon((lambda r: None if r is None else (r[0], r[1]))(impl_parse_pushes(s)))))


def nontrivial(line, r):
    return not r.startswith("!")


# ------------------------------------------------------------------------------------------------
# direct property checks on the implementation
def txin_frame(tx):
    return (tx.version, tx.lock_time, [(t.previous_hash, t.previous_index, t.sequence) for t in tx.txs_in],
            [(o.coin_value, o.script) for o in tx.txs_out], [(u.coin_value, u.script) for u in tx.unspents])


def sig_blobs_of(inp, s, w):
    """the signature slots of an input's unlocking data"""
    items = list(w) if w else (indep_parse_pushes(s) or [])
    if inp.kind == K_P2PK:
        return items[:1]
    if inp.kind in (K_P2PKH, K_P2WPKH, K_P2SH_P2WPKH):
        return items[:1]
    if inp.kind == K_MS:
        return items[1:]
    return items[1:-1]


PLACEHOLDER = None


def placeholder():
    global PLACEHOLDER
    if PLACEHOLDER is None:
        from pycoin.coins.bitcoin.Solver import generate_default_placeholder_signature
        PLACEHOLDER = generate_default_placeholder_signature(None)
    return PLACEHOLDER


def chk_scenario(seedstr, big):
    """the property on one scenario; returns None or a failure dict (first failure)"""
    sc = gen_scenario(seedstr, big)
    state = [(b"", []) for _ in sc.inputs]
    stale = sc.stale
    if stale:
        try:
            states, _ = play(sc)       # only to obtain the stale starting state (and the changed tx fields)
        except Exception as e:
            return {"kind": "sign-raises", "detail": exn_tag(e), "pass": -1, "stale": False, "stale_pkh_inputs": []}
        state = states[0]
    # keys that effectively reached each input so far
    reached = [set() for _ in sc.inputs]
    valid_before = [False] * len(sc.inputs)
    for j, p in enumerate(sc.passes):
        tx = build_tx(sc, state)
        frame0 = txin_frame(tx)
        before = state_of(tx)
        was_valid = [tx.is_solution_ok(i) for i in range(len(sc.inputs))]
        exc = run_pass(sc, tx, p)
        after = state_of(tx)
        if exc is not None:
            pkh_stale = [i for i, inp in enumerate(sc.inputs)
                         if inp.kind in (K_P2PKH, K_P2WPKH, K_P2SH_P2WPKH) and not was_valid[i]
                         and any(impl_parse_sig_ok(d) for d in (before[i][1] or indep_parse_pushes(before[i][0]) or []))]
            return {"kind": "sign-raises", "detail": exc, "pass": j, "stale": stale, "stale_pkh_inputs": pkh_stale}
        if txin_frame(tx) != frame0:
            return {"kind": "frame", "detail": "version/lock_time/outpoints/sequences/outputs/unspents changed", "pass": j}
        idxs = set(range(len(sc.inputs))) if p["idxs"] is None else set(p["idxs"])
        ht_fits = p["ht"] is None or p["ht"] < 256
        eff_ht = (1 if p["ht"] is None else p["ht"]) | (0x40 if FORKID[sc.sym] else 0)
        std_ht = (eff_ht & ~0xc0) in (1, 2, 3) and eff_ht < 256
        for i, inp in enumerate(sc.inputs):
            if (i not in idxs or was_valid[i]) and after[i] != before[i]:
                return {"kind": "frame-input", "detail": "input %d %s was modified" % (i, "already valid" if was_valid[i] else "not requested"),
                        "pass": j, "input": i}
            scripts_ok = all(s in p["scripts"] for s in inp.lookup_scripts)
            if i in idxs and scripts_ok and ht_fits and not was_valid[i]:
                reached[i] |= set(se for se, _ in inp.keyspecs if se in p["secrets"])
            ok_def = tx.is_solution_ok(i)
            ok_std = tx.is_solution_ok(i, flags=std_flags(sc.sym))
            enough = len(reached[i]) >= inp.needed()
            if inp.kind == K_P2SH_MS and len(inp.ms) > 520:
                # outside the property's size limit (520-byte redeem script): consensus refuses the push
                if ok_def or ok_std:
                    return {"kind": "valid-over-520", "pass": j, "input": i}
                continue
            if enough and not ok_def:
                return {"kind": "not-valid-after-enough-keys", "pass": j, "input": i, "input_kind": KIND_NAMES[inp.kind], "m": inp.m,
                        "n": len(inp.keyspecs), "flags": "default", "stale": stale}
            if not enough and (ok_def or ok_std):
                return {"kind": "valid-without-keys", "pass": j, "input": i, "input_kind": KIND_NAMES[inp.kind]}
            # every real signature: strict DER, low S, hash type of a pass
            for d in sig_blobs_of(inp, *after[i]):
                if d == placeholder() or d == b"":
                    continue
                if not indep_strict_der(d):
                    return {"kind": "signature-not-strict-der", "pass": j, "input": i, "sig": d.hex()}
                if 2 * indep_s_value(d) > ORDER:
                    return {"kind": "signature-high-s", "pass": j, "input": i, "sig": d.hex()}
            if i in idxs and not was_valid[i] and after[i] != before[i]:
                new = [d for d in sig_blobs_of(inp, *after[i]) if d not in sig_blobs_of(inp, *before[i]) and d != placeholder() and d]
                for d in new:
                    if d[-1] != eff_ht & 0xff:
                        return {"kind": "wrong-hash-type", "pass": j, "input": i, "got": d[-1], "want": eff_ht}
            # STANDARD validity: all signatures of the input carry standard hash types
            types_std = all((d[-1] & ~0xc0) in (1, 2, 3) and (bool(d[-1] & 0x40) == FORKID[sc.sym])
                            for d in sig_blobs_of(inp, *after[i]) if d and d != placeholder())
            wit_unc = inp.kind in WIT_KINDS and any(not c for _, c in inp.keyspecs)
            over520 = inp.kind == K_P2SH_MS and len(inp.ms) > 520
            if enough and types_std and not wit_unc and not over520 and not ok_std:
                return {"kind": "not-valid-after-enough-keys", "pass": j, "input": i, "input_kind": KIND_NAMES[inp.kind], "m": inp.m,
                        "n": len(inp.keyspecs), "flags": "standard", "stale": stale}
            if ok_std and not ok_def:
                return {"kind": "standard-valid-but-default-invalid", "pass": j, "input": i}
        valid_before = [tx.is_solution_ok(i) for i in range(len(sc.inputs))]
        state = after
    return None


def chk_resign_other_type(seedstr, big):
    """sign fully, then sign again with another hash type and ALL keys: nothing may change (valid inputs are skipped)"""
    sc = gen_scenario(seedstr, big)
    tx = build_tx(sc, [(b"", []) for _ in sc.inputs])
    keys = [k[0] for inp in sc.inputs for k in inp.keyspecs]
    scripts = [s for inp in sc.inputs for s in inp.lookup_scripts]
    net = sc.net
    tx.sign(net.tx.solve.build_hash160_lookup(keys), p2sh_lookup=net.tx.solve.build_p2sh_lookup(scripts), hash_type=1)
    a = state_of(tx)
    bad = tx.bad_solution_count(flags=std_flags(sc.sym))
    over = [i for i, inp in enumerate(sc.inputs) if (inp.kind == K_P2SH_MS and len(inp.ms) > 520) or
            (inp.kind in WIT_KINDS and any(not c for _, c in inp.keyspecs))]
    if bad != len(over):
        return {"kind": "not-valid-after-enough-keys", "flags": "standard", "bad": bad, "out_of_limits": over, "all-keys": True}
    blob = tx.as_bin()
    tx.sign(net.tx.solve.build_hash160_lookup(keys), p2sh_lookup=net.tx.solve.build_p2sh_lookup(scripts), hash_type=0x83)
    b = state_of(tx)
    for i in range(len(a)):
        if i not in over and a[i] != b[i]:
            return {"kind": "valid-input-resigned", "input": i, "input_kind": KIND_NAMES[sc.inputs[i].kind]}
    if not over and tx.as_bin() != blob:
        return {"kind": "frame", "detail": "serialization changed by signing a fully valid transaction"}
    return None


def prop_cases(rng, tier):
    small, big = (50, 12) if tier == "quick" else (800, 200)
    base = "%x" % rng.getrandbits(64)
    seeds = [("%s/s%d" % (base, i), False) for i in range(small)] + [("%s/b%d" % (base, i), True) for i in range(big)]
    for seedstr, bg in seeds:
        yield PropCase("scenario", {"seed": seedstr, "big": bg}, (lambda s=seedstr, b=bg: chk_scenario(s, b)))
    for seedstr, bg in seeds[::3]:
        yield PropCase("resign", {"seed": seedstr, "big": bg}, (lambda s=seedstr, b=bg: chk_resign_other_type(s, b)))
    # the former finding resign-stale-pkh-typeerror (fixed in /repo 689b339): sign, edit the transaction, sign again
    for sym in SYMS:
        for k in (K_P2PK, K_P2PKH, K_P2WPKH, K_P2SH_P2WPKH):
            yield PropCase("stale-pkh", {"sym": sym, "kind": k}, (lambda sym=sym, k=k: chk_stale_pkh(sym, k)))
    for pc in KCH.prop_cases(rng, tier):         # key-supply histories (one keychain / dict across passes and transactions)
        yield pc


def replay_input(check, inp):
    r = KCH.replay_input(check, inp) if check in ("kc-history", "kc-watch-only", "kc-uncompressed", "kc-two-routes", "dict-reuse") else None
    if check in ("kc-history", "kc-watch-only", "kc-uncompressed", "kc-two-routes", "dict-reuse"):
        return r
    if check == "scenario":
        return chk_scenario(inp["seed"], inp["big"])
    if check == "resign":
        return chk_resign_other_type(inp["seed"], inp["big"])
    if check == "stale-pkh":
        return chk_stale_pkh(inp["sym"], inp["kind"])
    return {"kind": "unknown-check"}


def chk_stale_pkh(sym="btc", kind=K_P2PKH):
    """sign a single-key input, change the transaction, sign again: the stale signature must be replaced"""
    net = NETS[sym]
    inp = Inp(net, kind, 1, [(7, True)])
    sc = Scenario()
    sc.net, sc.sym, sc.inputs = net, sym, [inp]
    sc.txin_specs = [(b"\x11" * 32, 0, 0xffffffff)]
    sc.txout_specs = [(1000, net.contract.for_p2pkh(b"\x22" * 20))]
    sc.version, sc.lock_time, sc.unspent_values = 1, 0, [5000]
    tx = build_tx(sc, [(b"", [])])
    look = net.tx.solve.build_hash160_lookup([7])
    p2 = net.tx.solve.build_p2sh_lookup(inp.lookup_scripts)
    tx.sign(look, p2sh_lookup=p2)
    if tx.bad_solution_count(flags=std_flags(sym)) != 0:
        return {"kind": "not-valid-after-enough-keys"}
    tx.txs_out[0].coin_value = 999
    try:
        tx.sign(look, p2sh_lookup=p2)
    except Exception as e:
        return {"kind": "sign-raises", "detail": exn_tag(e), "stale": True, "stale_pkh_inputs": [0]}
    if tx.bad_solution_count(flags=std_flags(sym)) != 0:
        return {"kind": "not-valid-after-enough-keys", "stale": True}
    return None


def classify(pc, r):
    return KCH.classify(pc, r)


KNOWN_REPLAYS = {}


def search(rng, tier, disagreements, known_ids):
    cands = []
    for d in disagreements[:40]:
        meta = d.get("meta") or {}
        if "seed" in meta:
            cands.append(PropCase("scenario", {"seed": meta["seed"], "big": meta.get("big", False)},
                                  (lambda s=meta["seed"], b=meta.get("big", False): chk_scenario(s, b))))
            cands.append(PropCase("resign", {"seed": meta["seed"], "big": meta.get("big", False)},
                                  (lambda s=meta["seed"], b=meta.get("big", False): chk_resign_other_type(s, b))))
        if "kcseed" in meta:
            cands.append(PropCase("kc-history", {"seed": meta["kcseed"], "sym": meta.get("sym")},
                                  (lambda s=meta["kcseed"], y=meta.get("sym"): KCH.chk_history(s, y))))
    for sym in SYMS:
        for order in ("get-first", "sign-first"):
            cands.append(PropCase("kc-watch-only", {"sym": sym, "order": order},
                                  (lambda sym=sym, order=order: KCH.chk_watch_only_then_secret(sym, order))))
        for k in (K_P2PKH, K_P2WPKH, K_P2SH_P2WPKH):
            cands.append(PropCase("stale-pkh", {"sym": sym, "kind": k}, (lambda sym=sym, k=k: chk_stale_pkh(sym, k))))
    cands += list(prop_cases(rng, tier))
    for pc in cands:
        try:
            r = pc.thunk()
        except Exception as e:
            r = {"kind": "raises", "detail": "%s: %s" % (type(e).__name__, e)}
        if r is not None and classify(pc, r) not in known_ids:
            return {"check": pc.name, "input": pc.inp, "failure": r}
    return None
